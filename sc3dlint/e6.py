"""E6 - OpenMP region rules: every mutation of shared state inside a parallel region is
(a) atomic, (b) under critical, (c) under the object's own lock, or (d) a write into the slot /
object selected by the region's own loop element (own-slot rule), with the callee closure's
effects obtained from the may-write summaries (effects.py)."""
import re

from .model import walk, strip, is_call, call_obj, call_args, render, short
from . import effects as F


def parallel_regions(prog, fn):
    """Yields region descriptors: dict(node, body, kind, own) where `own` describes the loop element:
       ('counter', did) for '#pragma omp parallel for' loops, ('lambda-param', did) for the per-element
       callable handed to parallel_exception_handler."""
    if not isinstance(fn.get("body"), dict):
        return
    for n in walk(fn["body"]):
        if "omp" in n and "parallel" in n["omp"]:
            body = n.get("body")
            own = None
            if isinstance(body, dict) and body.get("k") == "ForStmt" and "for" in n["omp"]:
                init = body.get("init")
                if isinstance(init, dict) and init.get("k") == "DeclStmt" and init.get("decls"):
                    d0 = init["decls"][0]
                    # an index (own element = list[i]) or a random-access iterator (own element = *it): OpenMP gives every
                    # thread its own disjoint sub-range of either
                    own = ("iterator", d0["did"]) if "iterator" in (d0.get("t") or "") else ("counter", d0["did"])
                body_inner = body["body"]
            else:
                body_inner = body
            yield {"node": n, "body": body_inner, "kind": n["omp"], "own": own, "loop": body if own else None}
        elif n.get("k") == "CallExpr" and n.get("callee") == "parallel_exception_handler":
            args = call_args(n)
            lam = _find_lambda(prog, fn, args[1]) if len(args) > 1 else None
            if lam is None:
                yield {"node": n, "body": None, "kind": "parallel_exception_handler", "own": None, "opaque": True}
            else:
                lfn, lnode = lam
                own = ("lambda-param", lnode["params"][0]["did"]) if lnode.get("params") else None
                yield {"node": n, "body": lnode["body"], "kind": "parallel_exception_handler", "own": own, "fn": lfn, "lambda": lnode}


def _find_lambda(prog, fn, arg):
    """The lambda a std::function argument denotes: a literal lambda, or a data member whose
    default member initialiser is a lambda."""
    for x in walk(arg):
        if x.get("k") == "LambdaExpr":
            return (fn, x)
    a = strip(arg)
    if a.get("k") == "MemberExpr" and a["ref"].get("dk") == "Field":
        pf = prog.functions.get("<init> " + a["ref"]["qn"])
        if pf:
            for x in walk(pf["body"]):
                if x.get("k") == "LambdaExpr":
                    return (pf, x)
    if a.get("k") == "DeclRefExpr":
        # local std::function variable initialised with a lambda
        for x in walk(fn["body"]):
            if x.get("k") == "Var" and x.get("did") == a["ref"]["did"] and isinstance(x.get("init"), dict):
                for y in walk(x["init"]):
                    if y.get("k") == "LambdaExpr":
                        return (fn, y)
    return None


class RegionAnalysis:
    def __init__(self, prog, eff):
        self.p = prog
        self.E = eff

    def _declared_in(self, body):
        s = set()
        for n in walk(body):
            if n.get("k") in ("Var", "Decomposition") and "did" in n:
                s.add(n["did"])
                for b in n.get("bindings", []):
                    s.add(b["did"])
            if n.get("k") == "CXXForRangeStmt":
                s.add(n["var"]["did"])
            if n.get("k") == "LambdaExpr":
                for q in n.get("params", []):
                    s.add(q["did"])
        return s

    def own_slot(self, fn, e, own, inside, depth=0):
        """Does expression e designate (part of) the object selected by the region's own element?"""
        if own is None or depth > 25:
            return False
        e = strip(e)
        k = e.get("k")
        if k == "DeclRefExpr":
            did = e["ref"]["did"]
            if own[0] in ("lambda-param", "iterator") and did == own[1]:
                return True
            ent = self.E.env(fn).get(did)
            if ent and ent[0] in ("local", "binding") and isinstance(ent[1], dict) and did in inside:
                return self.own_slot(fn, ent[1], own, inside, depth + 1)
            if ent and ent[0] == "rangevar" and did in inside:
                return self.own_slot(fn, ent[1], own, inside, depth + 1)
            return False
        if k == "CXXOperatorCallExpr":
            c = e.get("c", [])
            if e.get("op") == "[]" and len(c) == 3:
                idx = strip(c[2])
                if own[0] == "counter" and idx.get("k") == "DeclRefExpr" and idx["ref"]["did"] == own[1]:
                    return True
                return self.own_slot(fn, c[1], own, inside, depth + 1)
            if e.get("op") in ("*", "->") and len(c) == 2:
                return self.own_slot(fn, c[1], own, inside, depth + 1)
            return False
        if k == "MemberExpr" and e.get("c"):
            return self.own_slot(fn, e["c"][0], own, inside, depth + 1)
        if k == "CXXMemberCallExpr":
            o = call_obj(e)
            name = e.get("callee", "").split("::")[-1]
            if o is not None and name == "at":
                a = call_args(e)
                if a and own[0] == "counter" and strip(a[0]).get("k") == "DeclRefExpr" and strip(a[0])["ref"]["did"] == own[1]:
                    return True
            if o is not None:
                return self.own_slot(fn, o, own, inside, depth + 1)
            return False
        if k == "UnaryOperator" and e.get("op") in ("*", "&"):
            return self.own_slot(fn, e["c"][0], own, inside, depth + 1)
        if k in ("CXXConstructExpr", "CXXTemporaryObjectExpr") and (e.get("copy") or e.get("move")) and e.get("c"):
            return self.own_slot(fn, e["c"][0], own, inside, depth + 1)
        if k in ("CXXStaticCastExpr", "CXXConstCastExpr", "CXXDynamicCastExpr", "CStyleCastExpr") and e.get("c"):
            return self.own_slot(fn, e["c"][0], own, inside, depth + 1)
        if k == "CallExpr" and e.get("callee") in ("std::static_pointer_cast", "std::dynamic_pointer_cast", "std::move"):
            a = call_args(e)
            return bool(a) and self.own_slot(fn, a[0], own, inside, depth + 1)
        return False

    def analyse(self, fn, reg):
        """-> list of mutation records {node, target, place, sync, cls} for one region."""
        out = []
        body = reg.get("body")
        if not isinstance(body, dict):
            return out
        rfn = reg.get("fn", fn)
        fi = self.p.index(rfn)
        inside = self._declared_in(body)
        private = set()
        for cl in reg["node"].get("clauses", []) if "omp" in reg["node"] else []:
            if cl["kind"] in ("private", "firstprivate", "lastprivate", "reduction", "linear"):
                for v in cl.get("vars", []):
                    if "did" in v:
                        private.add(v["did"])
        if reg["own"] and reg["own"][0] in ("counter", "iterator"):
            private.add(reg["own"][1])
        own = reg["own"]

        def classify(node, target_expr, place, sync, via=None):
            root, path = place
            rec = {"node": node, "target": target_expr, "place": place, "sync": sync, "via": via}
            if isinstance(root, tuple) and root[0] == "local":
                did = root[1]
                if did in inside or did in private:
                    rec["cls"] = "private"
                else:
                    rec["cls"] = "sync" if sync else "shared-local"
            elif sync:
                rec["cls"] = "sync"
            elif target_expr is not None and self.own_slot(rfn, target_expr, own, inside):
                rec["cls"] = "own"
            else:
                rec["cls"] = "shared"
            out.append(rec)

        for n in walk(body):
            k = n.get("k")
            sync = F.sync_of(fi, n, stop=None)
            # the sync context must lie inside the region (a critical outside the region does not count)
            targets = []
            if k in ("BinaryOperator", "CompoundAssignOperator") and (n.get("op") == "=" or k == "CompoundAssignOperator"):
                targets.append(n["c"][0])
            elif k == "UnaryOperator" and n.get("op") in ("++", "--"):
                targets.append(n["c"][0])
            elif is_call(n):
                tks = self.p.call_targets(n)
                if tks:
                    for tk in tks:
                        tf = self.p.functions[tk]
                        for (r, p, s, g) in self.E.writes.get(tk, ()):
                            if self.E.map_guards(rfn, n, g) is None:
                                continue
                            if r == "this":
                                base_expr = call_obj(n)
                                if base_expr is None:
                                    if n.get("k") in ("CXXConstructExpr", "CXXTemporaryObjectExpr"):
                                        continue
                                    base_expr = {"k": "CXXThisExpr"}
                            elif isinstance(r, tuple) and r[0] == "param":
                                a = call_args(n)
                                if r[1] >= len(a):
                                    continue
                                base_expr = a[r[1]]
                            else:
                                base_expr = None
                            if base_expr is not None:
                                base = self.E.resolve(rfn, base_expr)
                                if base is None:
                                    continue
                                place = (base[0], base[1] + p)
                            else:
                                place = (r, p)
                            classify(n, base_expr, place, s or sync, via=tf["qn"])
                    continue
                callee = n.get("callee", "")
                name = callee.split("::")[-1]
                if k == "CXXMemberCallExpr" and not n.get("cconst") and name not in F.STD_NONCONST_READERS:
                    o = call_obj(n)
                    if o is not None:
                        targets.append(o)
                elif k == "CXXOperatorCallExpr" and n.get("cmember") and n.get("op") in ("=", "+=", "-=", "*=", "/=", "++", "--", "<<", ">>"):
                    targets.append(n["c"][1])
                elif k == "CXXOperatorCallExpr" and n.get("op") == "()" and len(n.get("c", [])) >= 2:
                    ot = strip(n["c"][1]).get("t", "")
                    if re.search(r"_distribution<|linear_congruential_engine|mersenne_twister_engine|random_device|discard_block_engine|shuffle_order_engine", ot):
                        targets.append(n["c"][1])
                        targets.extend(n["c"][2:])
                elif k == "CallExpr":
                    a = call_args(n)
                    if callee in F.MUTATING_ALGOS and a:
                        targets.append(a[0])
                    elif callee in F.DEST_ALGOS and a:
                        targets.append(a[-1] if callee == "std::transform" and len(a) == 4 else a[min(2, len(a) - 1)])
            for t in targets:
                t0 = strip(t)
                if n.get("op") in ("++", "--", "+=", "-=") and t0.get("k") == "DeclRefExpr" and (t0.get("ref") or {}).get("dk") == "Var" \
                        and re.search(r"iterator|_Fwd_list|_List_|_Rb_tree|_Node_", t0.get("t", "") or ""):
                    # advancing an iterator variable changes the variable, not the sequence it walks
                    place = (("local", t0["ref"]["did"]), ())
                else:
                    place = self.E.resolve(rfn, t)
                if place is None:
                    continue
                classify(n, t, place, sync)
        return out
