"""Check driver: runs a property module, matches violations against known findings,
writes evidence/<id>.json and replay files, prints the interface lines, sets the exit code."""
import json
import os
import sys
import time
import traceback

from . import model as M
from .extract import AnalysisBroken, ALL_CONFIGS, DEFAULT_CONFIG, REPO

VERIF = os.path.dirname(os.path.dirname(os.path.abspath(__file__)))
EVIDENCE_DIR = os.environ.get("SC3D_EVIDENCE_DIR") or os.path.join(VERIF, "evidence")   # override: development sweeps only
REPLAY_DIR = os.path.join(EVIDENCE_DIR, "replay")
KNOWN = os.path.join(VERIF, "known_findings.json")


class Report:
    def __init__(self, prop):
        self.prop = prop
        self.instances = []     # every rule instance examined
        self.floors = {}        # rule -> floor
        self.rules = {}         # rule -> description
        self.notes = []
        self.obligations = 0
        self.discharged = 0

    def rule(self, rid, text, floor=None):
        self.rules[rid] = text
        if floor is not None:
            self.floors[rid] = floor

    def _inst(self, rule, prog, fn, node, outcome, detail, fingerprint=None, extra=None):
        if rule not in self.rules:
            raise AnalysisBroken("rule %s used but not declared" % rule)
        d = {"rule": rule,
             "config": "cm%d_dm%d" % prog.config if prog is not None else None,
             "function": fn["qn"] if fn else None,
             "site": (prog.loc(fn, node) if (prog is not None and fn) else None),
             "outcome": outcome,
             "detail": detail}
        if fingerprint is not None:
            d["fingerprint"] = fingerprint
        if extra:
            d.update(extra)
        self.instances.append(d)
        return d

    def ok(self, rule, prog, fn, node, detail, **extra):
        return self._inst(rule, prog, fn, node, "ok", detail, extra=extra)

    def violation(self, rule, prog, fn, node, fingerprint, detail, **extra):
        return self._inst(rule, prog, fn, node, "violation", detail, fingerprint, extra=extra)

    def broken(self, msg):
        raise AnalysisBroken(msg)

    def note(self, s):
        self.notes.append(s)


def load_known():
    if not os.path.exists(KNOWN):
        return {"findings": [], "fixed": []}
    return json.load(open(KNOWN))


def _has_unlisted_violation(instances, prop_id):
    """a violation that is not one of the listed known findings: only such a violation (which makes the run exit 1 anyway) may
    excuse rules that could not be instantiated; a run that reports known findings only must still be complete"""
    kf = [k for k in load_known().get("findings", []) if k["property"] == prop_id]
    for v in instances:
        if v["outcome"] != "violation":
            continue
        if not any(k["rule"] == v["rule"] and k["function"] == v["function"] and k["fingerprint"] == v.get("fingerprint") for k in kf):
            return True
    return False


def _dedupe(instances):
    """The same rule instance seen in several configurations is one instance; keep the list of
    configurations."""
    out = {}
    for i in instances:
        k = (i["rule"], i["function"], i["site"], i["outcome"], i.get("fingerprint"), i["detail"])
        if k in out:
            if i["config"] not in out[k]["configs"]:
                out[k]["configs"].append(i["config"])
        else:
            j = dict(i)
            j["configs"] = [j.pop("config")]
            out[k] = j
    return list(out.values())


def run_property(prop_id, module, tier, explain=None):
    t0 = time.time()
    seed = int(os.environ.get("VERIF_SEED", "0") or 0)
    os.makedirs(REPLAY_DIR, exist_ok=True)
    ev_path = os.path.join(EVIDENCE_DIR, prop_id + ".json")
    try:
        configs = list(ALL_CONFIGS) if tier == "thorough" else [DEFAULT_CONFIG]
        if getattr(module, "CONFIGS_QUICK", None) and tier == "quick":
            configs = list(module.CONFIGS_QUICK)
        progs, stats = M.load(configs, latent_openmp=bool(getattr(module, "LATENT_OPENMP", False)))
        rep = Report(prop_id)
        fixtures = None
        if hasattr(module, "fixtures"):
            fixtures = module.fixtures(rep, tier)
        for cfg in configs:
            try:
                module.run(rep, progs[cfg], tier)
            except AnalysisBroken as e:
                # a violation already established stays a violation; the rules that could not be instantiated
                # after it (often because of it) are recorded as not evaluated
                if _has_unlisted_violation(rep.instances, prop_id):
                    rep.note("configuration %s: analysis stopped after the reported violation(s): %s" % (list(cfg), str(e)[:300]))
                else:
                    raise
        if hasattr(module, "cross_config") and len(configs) > 1:
            module.cross_config(rep, progs, tier)
        inst = _dedupe(rep.instances)
        # floors: a rule that matches (almost) nothing passes vacuously -> analysis broken
        counts = {}
        for i in inst:
            counts[i["rule"]] = counts.get(i["rule"], 0) + 1
        has_violation = _has_unlisted_violation(inst, prop_id)
        for rid, floor in rep.floors.items():
            # floors guard against vacuous PASSES; a run that already reports a violation exits 1 anyway, and the
            # violated construct may legitimately prevent dependent rules from being instantiated
            if counts.get(rid, 0) < floor and not has_violation:
                raise AnalysisBroken("rule %s matched %d instance(s) on the tree, below its confirmed floor %d "
                                     "(anchor moved or extractor/loader no longer sees it)" % (rid, counts.get(rid, 0), floor))
        for rid in rep.rules:
            if rid not in rep.floors:
                raise AnalysisBroken("rule %s has no instance floor" % rid)
    except AnalysisBroken as e:
        print("ANALYSIS-BROKEN property=%s: %s" % (prop_id, e))
        _write_broken_evidence(ev_path, prop_id, tier, seed, str(e), time.time() - t0)
        return 2
    except Exception:
        tb = traceback.format_exc()
        print("ANALYSIS-BROKEN property=%s: internal error\n%s" % (prop_id, tb))
        _write_broken_evidence(ev_path, prop_id, tier, seed, tb, time.time() - t0)
        return 2

    known = load_known()
    kf = [k for k in known.get("findings", []) if k["property"] == prop_id]
    viol = [i for i in inst if i["outcome"] == "violation"]
    new, matched = [], []
    for v in viol:
        hit = None
        for k in kf:
            if k["rule"] == v["rule"] and k["function"] == v["function"] and k["fingerprint"] == v.get("fingerprint"):
                hit = k
                break
        if hit:
            v["outcome"] = "known-finding"
            v["known_id"] = hit.get("id")
            matched.append((v, hit))
        else:
            new.append(v)
    printed = set()
    for v, k in matched:
        if k.get("id") in printed:
            continue
        printed.add(k.get("id"))
        print("KNOWN-FINDING: property=%s %s [%s] %s at %s: %s" % (prop_id, k.get("id", ""), v["rule"], v["function"], v["site"], k.get("what", v["detail"])))
    rc = 0
    for n, v in enumerate(new):
        path = os.path.join(REPLAY_DIR, "%s-%d.json" % (prop_id, n))
        json.dump({"property": prop_id, "tier": tier, **v, "rule_text": rep.rules.get(v["rule"])}, open(path, "w"), indent=1)
        print("VIOLATION property=%s replay=%s" % (prop_id, path))
        print("  %s  rule=%s  function=%s\n  %s" % (v["site"], v["rule"], v["function"], v["detail"]))
        rc = 1
    # stale replay files of earlier runs
    for f in os.listdir(REPLAY_DIR):
        if f.startswith(prop_id + "-") and int(f[len(prop_id) + 1:-5]) >= len(new):
            os.remove(os.path.join(REPLAY_DIR, f))

    wall = time.time() - t0
    per_rule = {}
    for i in inst:
        r = per_rule.setdefault(i["rule"], {"text": rep.rules[i["rule"]], "instances": 0, "ok": 0, "violations": 0, "known_findings": 0, "floor": rep.floors.get(i["rule"])})
        r["instances"] += 1
        r["ok" if i["outcome"] == "ok" else ("violations" if i["outcome"] == "violation" else "known_findings")] += 1
    samples = []
    seen_rule = {}
    for i in inst:
        c = seen_rule.get(i["rule"], 0)
        if c < 6 or i["outcome"] != "ok":
            samples.append({k: i[k] for k in ("rule", "function", "site", "outcome", "detail", "configs") if k in i})
        seen_rule[i["rule"]] = c + 1
    n_ok = sum(1 for i in inst if i["outcome"] == "ok")
    ev = {
        "property_id": prop_id,
        "tier": tier,
        "seed": seed,
        "level": "other",
        "coverage": {
            "explanation": getattr(module, "EXPLANATION", "") + " Rules: " + "; ".join("%s = %s" % kv for kv in rep.rules.items()),
            "obligations": len(inst),
            "discharged": n_ok,
            "evaluations": len(inst),
            "distinct_nontrivial": len({(i["rule"], i["function"], i["site"], i["detail"]) for i in inst}),
            "rule": "one evaluation = one rule instance (rule, function, source construct) enumerated from /repo's parsed AST; all are distinct constructs; nothing is sampled",
            "samples": samples[:120],
            "exhaustive": True,
            "per_rule": per_rule,
            "translation_units": stats["units"],
            "configurations": stats["configs"],
            "functions_loaded": stats["functions"],
            "fixtures": fixtures,
            "known_findings_matched": sorted({k.get("id") for _, k in matched}),
            "notes": rep.notes,
        },
        "assumptions": getattr(module, "ASSUMPTIONS", []) + [
            "analysed with the product's flags (-DNDEBUG: asserts are not guards); POLARIZATION_MODE_INDEX, FACE_STORE_CONTACT_ENERGY, WRITE_NORMALS_IN_OUTPUT_MESH_FILE at their defaults",
            "clang 14 parser/sema and tools/sc3d-extract.cc (serialisation only) are trusted",
            "VERIF_SEED is recorded and ignored: the analysis is deterministic",
        ],
        "wall_s": round(wall, 2),
        "violations": len(new),
    }
    json.dump(ev, open(ev_path, "w"), indent=1)
    print("property=%s tier=%s configs=%d instances=%d ok=%d known=%d violations=%d wall=%.1fs" %
          (prop_id, tier, len(configs), len(inst), n_ok, len(matched), len(new), wall))
    return rc


def _write_broken_evidence(path, prop_id, tier, seed, msg, wall):
    ev = {"property_id": prop_id, "tier": tier, "seed": seed, "level": "other",
          "coverage": {"explanation": "ANALYSIS BROKEN - no verdict: " + msg[:1500]},
          "wall_s": round(wall, 2), "violations": 0}
    try:
        json.dump(ev, open(path, "w"), indent=1)
    except OSError:
        pass
