"""C19 - output files and statistics are complete, well-formed and match the simulated state (table / sibling rules)."""
import re

import sympy as sp

from ..model import walk, strip, is_call, call_obj, call_args, render, short, AnalysisBroken
from .. import sym as S
from .c10 import product_fns

EXPLANATION = ("Binding-table and sibling rules over clang's AST: (1) in both statistics writers the header (constructor) and every row "
               "(write_data) emit the same number of fixed leading columns, each followed by the separator, then one field per entry of the "
               "SAME mapper list (name in the header, extractor applied to the row's own cell in the row), then one newline - header once, "
               "row once per cell; the two writers agree with each other; (2) the columns cell_id, type_id, area, volume, target_volume and "
               "pressure are produced by the getter of that quantity and each getter returns the field of that name; (3) run_iteration "
               "writes the statistics under iteration_ % 50 == 0 and increments iteration_ exactly once, unconditionally; run() writes them "
               "once more after the loop; (4) save_mesh computes the file number floor(t/S)+1, writes only when it changes, stores it, and "
               "builds both the cell-data and the face-data path from that same stored number and hands the current population to the "
               "writer; it is called at the start of every iteration. Not decided: K within one of T/S+1 (floating point), parseability of "
               "the files.")
ASSUMPTIONS = ["operator<< chains are read left to right; the separator is the member 'sep'"]

COLUMNS = {"cell_id": "cell::get_id", "type_id": "global_type_id_", "area": "cell::get_area", "volume": "cell::get_volume",
           "target_volume": "cell::get_target_volume", "pressure": "cell::get_pressure"}
GETTER_FIELD = {"cell::get_id": "cell_id_", "cell::get_area": "area_", "cell::get_volume": "volume_", "cell::get_target_volume": "target_volume_", "cell::get_pressure": "pressure_"}


def declare(rep):
    rep.rule("C19.header-row", "header and rows of each statistics writer have the same fixed columns and range over the same mapper list; one newline each", floor=2)
    rep.rule("C19.columns", "the six named columns are produced by the getter of that quantity, which returns the field of that name", floor=11)
    rep.rule("C19.stats-schedule", "statistics every 50th iteration and once after the loop; iteration_ incremented once per iteration", floor=3)
    rep.rule("C19.face-file-counts", "in the face-data file each declared count (CELLS, CELL_DATA, POINT_DATA, array lengths) is accumulated from the same kind of element (nodes / faces) that the emitting loop ranges over", floor=3)
    rep.rule("C19.writer-reentrant", "the two files of a pair are written by concurrent OpenMP sections: no function on their cone formats through a mutable function-local static buffer (the files would contain each other's numbers)", floor=1)
    rep.rule("C19.rows-reach-file", "the statistics rows written by a call of write_data are in the file when the call returns: the std::ofstream they are streamed to is a local (closed when it goes out of scope) or is flushed / closed before the function returns", floor=1)
    rep.rule("C19.fresh-output", "every directory solver::solver creates for the output files is emptied first: each create_directories(P) is preceded by a remove_all of P or of a folder that contains P - files of an earlier, longer run would otherwise stay next to the new ones (unpaired, with numbers beyond K)", floor=3)
    rep.rule("C19.finite-tokens", "a cell quantity that can be infinite by design (it receives a parameter for which the parameter file accepts INF) is written to the data files and the statistics table only under std::isfinite: `inf` is not a number the VTK float arrays may contain", floor=1)
    rep.rule("C19.file-number", "file number = floor(t/S)+1, written only on change, both paths from the same stored number, current population", floor=3)


def chain_items(e):
    """operands of a << chain, left to right (excluding the stream)"""
    e = strip(e)
    if e.get("k") == "CXXOperatorCallExpr" and e.get("op") == "<<":
        c = e["c"]
        if len(c) == 3:
            return chain_items(c[1]) + [c[2]]
        if len(c) == 2:
            return chain_items(c[1])
    if e.get("k") == "CallExpr" and e.get("callee", "").startswith("std::operator<<"):
        a = call_args(e)
        return chain_items(a[0]) + [a[1]]
    return []


def is_sep(x):
    x = strip(x)
    return x.get("k") == "MemberExpr" and x["ref"]["name"] == "sep"


def is_newline(x):
    x = strip(x)
    return x.get("k") == "StringLiteral" and x.get("v") == "\n"


def _shape_of(trace_, what):
    """(fixed chains, loops [(container, loop item, per-element items)], newline count) of an emission trace"""
    from .. import emit
    ff = emit.flatten_fixed(trace_)
    if ff is None:
        raise AnalysisBroken("%s: fixed columns and per-column loops are interleaved in a way this checker does not read" % what)
    pre, loops, post = ff
    ls = []
    for (_k, key, elem, inner) in loops:
        if any(it[0] != "item" for it in inner):
            raise AnalysisBroken("%s: nested emitting loops" % what)
        ls.append((key, {"elem": elem}, [it[1] for it in inner]))
    newlines = sum(1 for x in pre + post if is_newline(x))
    return [pre] if pre else [], ls, newlines


def writer_shape(prog, cls):
    from .. import emit
    ctor = [f for f in prog.fns("%s::%s" % (cls, cls))][0]
    wd = prog.fn("%s::write_data" % cls)
    try:
        htr = emit.Tracer(ctor).run(ctor["body"].get("c", []))
        wtr = emit.Tracer(wd).run(wd["body"].get("c", []))
    except emit.Unknown as u:
        raise AnalysisBroken("%s: the emitted text cannot be traced: %s" % (cls, u))
    H = _shape_of(htr, cls + " constructor")
    cell_loops = [it for it in wtr if it[0] == "loop" and it[1].split(".")[-1].split(">")[-1].endswith("cell_lst")]
    if len(cell_loops) != 1 or any(it[0] == "item" for it in wtr):
        raise AnalysisBroken("%s::write_data: loop over the cells not found (or text emitted outside it)" % cls)
    _k, key, elem, row = cell_loops[0]
    R = _shape_of(row, cls + "::write_data row")
    loop_node = None
    for n in walk(wd["body"]):
        if n.get("k") in ("CXXForRangeStmt", "ForStmt"):
            lk = emit.Tracer(wd).loop_key(n)
            if lk is not None and lk[0] == key and lk[1] == elem:
                loop_node = n
    return ctor, wd, H, R, {"node": loop_node, "elem": elem, "fn": wd}


def count_fixed(fixed):
    """number of non-separator, non-newline items in the first chain; and whether every item is followed by sep"""
    if not fixed:
        return 0, False
    its = fixed[0]
    vals = [x for x in its if not is_sep(x) and not is_newline(x)]
    well = True
    for i, x in enumerate(its):
        if not is_sep(x) and not is_newline(x):
            if i + 1 >= len(its) or not is_sep(its[i + 1]):
                well = False
    return len(vals), well


def writer_reentrant(rep, prog):
    from .. import e6
    from .c15 import static_locals_on_cone
    n = 0
    for fn in prog.repo_functions():
        if fn.get("cls") != "mesh_writer" or not isinstance(fn.get("body"), dict):
            continue
        for reg in e6.parallel_regions(prog, fn):
            n += 1
            st = static_locals_on_cone(prog, reg, fn)
            for g_, v_ in st:
                rep.violation("C19.writer-reentrant", prog, g_, v_, "static buffer '%s' shared by the concurrent file writers" % v_.get("name"),
                              "%s keeps '%s' (%s) in a function-local static and is called from both sections of the %s region at %s, which write the cell-data and the face-data file at the same time: a number formatted for one file can be overwritten by the other thread before it is copied out, so a file holds coordinates / ids of the other one"
                              % (g_["qn"], v_.get("name"), v_.get("t"), reg["kind"], prog.loc(fn, reg["node"])))
            if not st:
                rep.ok("C19.writer-reentrant", prog, fn, reg["node"], "%s region of %s: no mutable function-local static on its cone" % (reg["kind"], fn["qn"]))
    if n == 0:
        rep.note("mesh_writer has no parallel region: the files of a pair are written one after the other") if hasattr(rep, "note") else None


def rows_reach_file(rep, prog):
    from .. import emit
    fn = prog.fn("csv_file_statistics_writer::write_data")
    fi = prog.index(fn)
    sinks = []
    for n in walk(fn["body"]):
        if n.get("k") == "CXXOperatorCallExpr" and n.get("op") == "<<" and len(n.get("c", [])) == 3:
            l = emit._peel(n["c"][1])
            if "ofstream" in (l.get("t") or "") and l.get("k") in ("DeclRefExpr", "MemberExpr"):
                sinks.append((n, l))
    if not sinks:
        raise AnalysisBroken("csv_file_statistics_writer::write_data: no emission to a std::ofstream found")
    seen = set()
    for n, l in sinks:
        key = render(l)
        if key in seen:
            continue
        seen.add(key)
        if l.get("k") == "DeclRefExpr" and (l.get("ref") or {}).get("dk") == "Var":
            decl = [v for v in walk(fn["body"]) if v.get("k") == "Var" and v.get("did") == l["ref"].get("did")]
            if decl and not decl[0].get("static_local") and not (decl[0].get("t") or "").rstrip().endswith("&"):
                rep.ok("C19.rows-reach-file", prog, fn, n, "rows go to the local std::ofstream '%s', closed when write_data returns" % l["ref"].get("name"))
                continue
        last = max(fi.order[id(x)] for x, l2 in sinks if render(l2) == key)
        done = [c for c in walk(fn["body"]) if c.get("k") == "CXXMemberCallExpr" and c.get("callee", "").split("::")[-1] in ("flush", "close") and render(call_obj(c) or {}) == key and fi.order[id(c)] > last
                and fi.enclosing(c, ("IfStmt", "ForStmt", "WhileStmt", "CXXForRangeStmt")) is None]
        endl = [x for x in walk(fn["body"]) if x.get("k") == "DeclRefExpr" and (x.get("ref") or {}).get("name") in ("endl", "flush") and fi.order[id(x)] >= last - 50]
        if done or endl:
            rep.ok("C19.rows-reach-file", prog, fn, n, "rows go to '%s', flushed / closed before write_data returns" % key)
        else:
            rep.violation("C19.rows-reach-file", prog, fn, n, "rows stay in the buffer of %s" % key,
                          "csv_file_statistics_writer::write_data streams the rows to '%s', which outlives the call, and neither flushes nor closes it: when solver::run returns the statistics file on disk is empty or cut at a buffer boundary until the writer is destroyed (and stays so if the process ends without running the destructor)" % key)


def fresh_output(rep, prog):
    from ..model import expand_text
    cands = [f for f in prog.fns("solver::solver") if isinstance(f.get("body"), dict) and any(n.get("k") == "CallExpr" and n.get("callee", "").startswith("std::filesystem::create_director") for n in walk(f["body"]))]
    if len(cands) != 1:
        raise AnalysisBroken("solver::solver: %d constructors create output directories" % len(cands))
    fn = cands[0]
    fi = prog.index(fn)
    def peel(e):
        e = strip(e)
        while e.get("k") in ("CXXConstructExpr", "MaterializeTemporaryExpr", "ImplicitCastExpr", "CXXBindTemporaryExpr", "ExprWithCleanups", "CXXFunctionalCastExpr", "CXXTemporaryObjectExpr") and [c for c in e.get("c", []) if isinstance(c, dict)]:
            e = strip([c for c in e["c"] if isinstance(c, dict)][0])
        return e
    canon = lambda e: expand_text(fn, peel(e)).replace("this->", "").replace("(", "").replace(")", "")
    rms = [(canon(call_args(n)[0]), n) for n in walk(fn["body"]) if n.get("k") == "CallExpr" and n.get("callee", "").startswith("std::filesystem::remove_all") and call_args(n)]
    crs = [(canon(call_args(n)[0]), n) for n in walk(fn["body"]) if n.get("k") == "CallExpr" and n.get("callee", "").startswith("std::filesystem::create_director") and call_args(n)]
    if not crs:
        raise AnalysisBroken("solver::solver: no create_directories call found")
    for p_txt, c in crs:
        cover = [r for q_txt, r in rms if p_txt.startswith(q_txt) and fi.order[id(r)] < fi.order[id(c)] and not [g for g in fi.guards(r) if g not in fi.guards(c)]]
        if cover:
            rep.ok("C19.fresh-output", prog, fn, c, "create_directories(%s) after remove_all(%s)" % (p_txt[-40:], canon(call_args(cover[0])[0])[-40:]))
        else:
            rep.violation("C19.fresh-output", prog, fn, c, "an output folder is reused without being emptied",
                          "solver::solver creates '%s' without first removing it (or a folder that contains it): when the output folder already holds the result of an earlier, longer run, its files result_k.vtk with k beyond the last file of this run stay there - the face and cell files are then no longer in pairs numbered 1..K" % p_txt[-60:])


def finite_tokens(rep, prog):
    # parameters for which the reader accepts INF: fields assigned numeric_limits::infinity() in parameter_reader
    inf_params = set()
    for fn in prog.repo_functions():
        if fn.get("cls") != "parameter_reader" or not isinstance(fn.get("body"), dict):
            continue
        for a in walk(fn["body"]):
            if a.get("k") in ("BinaryOperator", "CXXOperatorCallExpr") and a.get("op") == "=":
                lhs = strip(a["c"][0] if a["k"] == "BinaryOperator" else a["c"][1])
                rhs = a["c"][-1]
                if lhs.get("k") == "MemberExpr" and (lhs.get("ref") or {}).get("dk") == "Field" and any(is_call(x) and "infinity" in x.get("callee", "") for x in walk(rhs)):
                    inf_params.add(lhs["ref"]["name"])
    # the reader may write INF as a branch: field = infinity() in one arm
    if not inf_params:
        raise AnalysisBroken("no parameter with an INF value found in parameter_reader")
    # cell fields that receive such a parameter unchanged
    inf_fields = set()
    for fn in prog.repo_functions():
        if fn.get("cls") != "cell" or not isinstance(fn.get("body"), dict):
            continue
        for a in walk(fn["body"]):
            if a.get("k") == "BinaryOperator" and a.get("op") == "=":
                lhs, rhs = strip(a["c"][0]), strip(a["c"][1])
                while rhs.get("k") in ("ImplicitCastExpr", "ParenExpr") and rhs.get("c"):
                    rhs = strip(rhs["c"][0])
                if lhs.get("k") == "MemberExpr" and (lhs.get("ref") or {}).get("dk") == "Field" and rhs.get("k") == "MemberExpr" and (rhs.get("ref") or {}).get("name") in inf_params:
                    # not when the assignment is made because a (finite) quantity exceeds the parameter: the parameter is finite there
                    fi_c = prog.index(fn)
                    bounded = any(x.get("k") == "BinaryOperator" and x.get("op") in ("<", "<=", ">", ">=") and rhs["ref"]["name"] in render(x) for cond, pol in fi_c.guards(a) for x in walk(cond))
                    if not bounded:
                        inf_fields.add(lhs["ref"]["name"])
    getters = set()
    for fn in prog.repo_functions():
        if fn.get("cls") == "cell" and isinstance(fn.get("body"), dict) and fn["qn"].startswith("cell::get_"):
            rets = [r for r in walk(fn["body"]) if r.get("k") == "ReturnStmt" and isinstance(r.get("value"), dict)]
            if len(rets) == 1:
                v = strip(rets[0]["value"])
                while v.get("k") in ("ImplicitCastExpr", "ParenExpr") and v.get("c"):
                    v = strip(v["c"][0])
                if v.get("k") == "MemberExpr" and (v.get("ref") or {}).get("name") in inf_fields:
                    getters.add(fn["qn"])
    if not getters:
        raise AnalysisBroken("no getter of a cell quantity that can be infinite found (parameters %s, fields %s)" % (sorted(inf_params), sorted(inf_fields)))
    from ..model import facts_at
    n = 0
    for key in ("<init> cell_data_mapper_lst", "<init> file_data_mapper_lst", "<init> face_data_mapper_lst"):
        init = prog.functions.get(key)
        if init is None or not isinstance(init.get("body"), dict):
            continue
        fi = prog.index(init)
        for c in walk(init["body"]):
            if not (c.get("k") == "CallExpr" and c.get("callee") == "format_number" and call_args(c)):
                continue
            used = [x for x in walk(call_args(c)[0]) if x.get("k") == "CXXMemberCallExpr" and x.get("callee") in getters]
            if not used:
                continue
            n += 1
            g = used[0]["callee"]
            guarded = False
            for cond, pol in fi.guards(c, through_lambdas=False):
                for x in walk(cond):
                    if is_call(x) and x.get("callee", "").split("::")[-1] in ("isfinite",) and pol and any(y.get("k") == "CXXMemberCallExpr" and y.get("callee") == g for y in walk(x)):
                        guarded = True
                    if is_call(x) and x.get("callee", "").split("::")[-1] in ("isinf",) and not pol and any(y.get("k") == "CXXMemberCallExpr" and y.get("callee") == g for y in walk(x)):
                        guarded = True
            if guarded:
                rep.ok("C19.finite-tokens", prog, init, c, "%s is formatted only when std::isfinite(%s())" % (g, g))
            else:
                rep.violation("C19.finite-tokens", prog, init, c, "a quantity that may be infinite is written unguarded",
                              "%s formats %s() without an std::isfinite test: the quantity is infinite by design for cell types whose parameter (%s) is INF in the parameter file, and format_number then writes the token 'inf' into a float array of every data file - the file is no longer parseable as VTK" % (key[7:], g, ", ".join(sorted(inf_params))))
    if n == 0:
        raise AnalysisBroken("no data mapper formats a quantity that can be infinite (%s)" % sorted(getters))


def run(rep, prog, tier):
    if not rep.rules:
        declare(rep)
    fresh_output(rep, prog)
    finite_tokens(rep, prog)
    writer_reentrant(rep, prog)
    rows_reach_file(rep, prog)
    shapes = {}
    for cls in ("csv_file_statistics_writer", "string_statistics_writer"):
        ctor, wd, H, R, cell_loop = writer_shape(prog, cls)
        hn, hwell = count_fixed(H[0])
        rn, rwell = count_fixed(R[0])
        problems = []
        if hn != rn:
            problems.append("header has %d fixed columns, rows have %d" % (hn, rn))
        if not (hwell and rwell):
            problems.append("a fixed column is not followed by the separator")
        if len(H[1]) != 1 or len(R[1]) != 1:
            problems.append("expected one mapper loop in the header and one per row (found %d / %d)" % (len(H[1]), len(R[1])))
        else:
            if H[1][0][0] != R[1][0][0]:
                problems.append("header iterates %s, rows iterate %s" % (H[1][0][0], R[1][0][0]))
            hi, ri = H[1][0][2], R[1][0][2]
            if not (len(hi) == 2 and "value_name_" in render(hi[0]) and is_sep(hi[1])):
                problems.append("header loop does not emit mapper.value_name_ << sep")
            if not (len(ri) == 2 and "value_extractor_" in render(ri[0]) and is_sep(ri[1])):
                problems.append("row loop does not emit mapper.value_extractor_(cell) << sep")
            else:
                # the extractor's argument designates the element of the cell loop: the range-for variable, list[index], or a
                # (reference) local initialised from one of those
                from ..model import expand
                elem = cell_loop["elem"]
                arg = [a for a in (strip(x) for x in walk(expand(cell_loop["fn"], ri[0]))) if a.get("k") == "DeclRefExpr" and a["ref"].get("did") in elem]
                if not arg:
                    for v_ in walk(cell_loop["node"] or {}):
                        if v_.get("k") == "Var" and isinstance(v_.get("init"), dict) and any(x.get("k") == "DeclRefExpr" and (x.get("ref") or {}).get("did") in elem for x in walk(v_["init"])) \
                                and any(x.get("k") == "DeclRefExpr" and (x.get("ref") or {}).get("did") == v_["did"] for x in walk(ri[0])):
                            arg = [v_]
                if not arg:
                    problems.append("the extractor is not applied to the row's own cell")
        # newline: one in the header (after the loop), one per row (after the mapper loop, inside the cell loop)
        if H[2] != 1 or R[2] != 1:
            problems.append("newline emitted %d time(s) in the header and %d per row (expected 1 and 1)" % (H[2], R[2]))
        shapes[cls] = (hn, H[1][0][0] if H[1] else None)
        if not problems:
            rep.ok("C19.header-row", prog, wd, cell_loop["node"], "%s: %d fixed columns + one field per entry of %s, newline once per header / row" % (cls, hn, H[1][0][0]))
        else:
            rep.violation("C19.header-row", prog, wd, cell_loop["node"], "%s: %s" % (cls, problems[0][:70]), "%s: %s: rows no longer have as many fields as the header" % (cls, "; ".join(problems)))
    if len(set(shapes.values())) != 1:
        rep.violation("C19.header-row", prog, None, None, "the two statistics writers disagree", "csv and string writers emit different tables: %s" % shapes)
    columns(rep, prog)
    face_file_counts(rep, prog)
    schedule(rep, prog)
    file_number(rep, prog)


KIND = {"cell::get_nb_of_nodes": "node", "cell::get_node_lst": "node", "cell::get_face_lst": "face", "cell::get_nb_of_faces": "face"}


def face_file_counts(rep, prog):
    for qn, want in (("mesh_writer::add_node_data_arrays_to_mesh", "node"), ("mesh_writer::add_face_data_arrays_to_mesh", "face"), ("mesh_writer::write_face_data", "face")):
        fns = [f for f in prog.fns(qn) if isinstance(f.get("body"), dict) and "std::shared_ptr<cell>" in f["key"]]
        if len(fns) != 1:
            raise AnalysisBroken("%s(.., vector<cell_ptr>) not found (%d candidates)" % (qn, len(fns)))
        fn = fns[0]
        counts = {}
        for d in walk(fn["body"]):
            if d.get("k") == "Var" and isinstance(d.get("init"), dict) and any(x.get("k") == "CallExpr" and x.get("callee") == "std::accumulate" for x in walk(d["init"])):
                kinds = {KIND[x["callee"]] for x in walk(d["init"]) if x.get("k") == "CXXMemberCallExpr" and x.get("callee") in KIND}
                counts[d["did"]] = (d["name"], kinds)
        declared = set()
        for n in walk(fn["body"]):
            if n.get("k") == "CallExpr" and n.get("callee") == "std::to_string":
                a = strip(call_args(n)[0])
                if a.get("k") == "DeclRefExpr" and a["ref"]["did"] in counts:
                    declared.add(a["ref"]["did"])
        loops = [l for l in walk(fn["body"]) if l.get("k") == "CXXForRangeStmt" and strip(l["range"]).get("callee") in KIND]
        loop_kinds = {KIND[strip(l["range"])["callee"]] for l in loops}
        # counts that head a section whose values are emitted by those loops: the nodes / faces count of this function
        main = [counts[d] for d in declared if want in counts[d][1] or (counts[d][0] in ("nb_nodes", "nb_faces") and "integer" not in counts[d][0])]
        bad = [(nm, k) for d in declared for nm, k in [counts[d]] if nm in ("nb_%ss" % want,) and k != {want}]
        if not declared or not loops:
            raise AnalysisBroken("%s: declared counts / emitting loops not found" % qn)
        if not bad and loop_kinds == {want} and any(nm == "nb_%ss" % want for nm, k in (counts[d] for d in declared)):
            rep.ok("C19.face-file-counts", prog, fn, loops[0], "%s: declared count nb_%ss is accumulated over %ss and the values are emitted by a loop over %ss" % (qn.split("::")[1], want, want, want))
        else:
            rep.violation("C19.face-file-counts", prog, fn, loops[0], "%s declares a count of %s but emits %ss" % (qn.split("::")[1], bad[0][1] if bad else "?", "/".join(sorted(loop_kinds))),
                          "%s: the declared tuple count is accumulated from %s while the values are written by a loop over %s: the file announces a number of values different from what follows and cannot be parsed" % (qn, bad or [counts[d] for d in declared], sorted(loop_kinds)))


def columns(rep, prog):
    init = prog.functions.get("<init> file_data_mapper_lst")
    if init is None:
        raise AnalysisBroken("file_data_mapper_lst initialiser not found")
    found = {}
    for n in walk(init["body"]):
        if n.get("k") in ("CXXConstructExpr", "CXXTemporaryObjectExpr") and n.get("cls") == "cell_data_mapper":
            lits = [x.get("v") for x in walk(n["c"][0])] if n.get("c") else []
            name = next((v for v in lits if isinstance(v, str)), None)
            lam = [x for x in walk(n) if x.get("k") == "LambdaExpr"]
            if name and lam:
                found[name] = (n, lam[0])
    for col, src in COLUMNS.items():
        if col not in found:
            rep.violation("C19.columns", prog, init, None, "column %s missing" % col, "the statistics table no longer has the column '%s'" % col)
            continue
        node, lam = found[col]
        param = lam["params"][0]["did"]
        srcs = set()
        for x in walk(lam["body"]):
            if x.get("k") == "CXXMemberCallExpr" and x.get("callee", "").startswith("cell::get_") and x.get("callee") != "cell::get_cell_type":
                srcs.add(x["callee"])
            if x.get("k") == "MemberExpr" and x["ref"].get("dk") == "Field" and x["ref"]["name"].endswith("_") and x["ref"]["name"] not in ("value_name_",):
                srcs.add(x["ref"]["name"])
        if srcs == {src}:
            rep.ok("C19.columns", prog, init, node, "column '%s' <- %s of the row's cell" % (col, src))
        else:
            rep.violation("C19.columns", prog, init, node, "column %s filled from %s" % (col, ",".join(sorted(srcs)) or "nothing"), "the column '%s' must report %s of the cell, found %s" % (col, src, sorted(srcs)))
    for g, field in GETTER_FIELD.items():
        fn = prog.fn(g)
        rets = [n for n in walk(fn["body"]) if n.get("k") == "ReturnStmt"]
        v = strip(rets[0]["value"]) if len(rets) == 1 else {}
        if v.get("k") == "MemberExpr" and v["ref"]["name"] == field and strip(v["c"][0] if v.get("c") else {"k": "CXXThisExpr"}).get("k") == "CXXThisExpr":
            rep.ok("C19.columns", prog, fn, rets[0], "%s returns %s" % (g, field))
        else:
            rep.violation("C19.columns", prog, fn, rets[0] if rets else None, "%s does not return %s" % (g.split("::")[1], field), "%s returns %s" % (g, short(rets[0]["value"], 50) if rets else "?"))


def schedule(rep, prog):
    it = prog.fn("solver::run_iteration")
    fi = prog.index(it)
    wd = [n for n in walk(it["body"]) if n.get("k") == "CXXMemberCallExpr" and n.get("callee", "").endswith("::write_data")]
    ok = False
    if len(wd) == 1:
        for cond, pol in fi.guards(wd[0]):
            c = strip(cond)
            if pol and c.get("k") == "BinaryOperator" and c.get("op") == "==" and strip(c["c"][1]).get("v") == "0":
                m = strip(c["c"][0])
                if m.get("k") == "BinaryOperator" and m.get("op") == "%" and render(m["c"][0]) == "iteration_" and strip(m["c"][1]).get("v") == "50":
                    ok = len(fi.guards(wd[0])) == 1
        from ..model import expand_text
        a = [expand_text(it, x).replace("this->", "") for x in call_args(wd[0])]
        ok = ok and a[0] == "iteration_" and "get_simulation_time" in a[1] and a[2] == "cell_lst_"
    if ok:
        rep.ok("C19.stats-schedule", prog, it, wd[0], "write_data(iteration_, simulation time, cell_lst_) under iteration_ % 50 == 0")
    else:
        rep.violation("C19.stats-schedule", prog, it, wd[0] if wd else None, "statistics are not recorded every 50th iteration", "run_iteration must call write_data(iteration_, time, cell_lst_) exactly under 'iteration_ %% 50 == 0' (found %d call(s))" % len(wd))
    incs = [n for n in walk(it["body"]) if n.get("k") in ("UnaryOperator", "CompoundAssignOperator", "BinaryOperator") and n.get("op") in ("++", "+=", "=", "--", "-=") and render(n["c"][0]) == "iteration_"]
    if len(incs) == 1 and incs[0].get("op") == "++" and fi.enclosing(incs[0], ("IfStmt", "ForStmt", "WhileStmt", "CXXForRangeStmt", "LambdaExpr")) is None:
        rep.ok("C19.stats-schedule", prog, it, incs[0], "iteration_++ once, unconditionally")
    else:
        rep.violation("C19.stats-schedule", prog, it, incs[0] if incs else None, "iteration_ is not incremented exactly once per iteration", "run_iteration must contain exactly one unconditional 'iteration_++' (found %d modification(s))" % len(incs))
    # the counter labels the records and drives the schedule for an unbounded number of iterations (T / dt is any positive ratio):
    # it must not be narrower than the parameter the writers receive it in (an implicit widening at the call is the sign that the
    # counter wraps first)
    WIDTH = {"bool": 1, "char": 8, "signed char": 8, "unsigned char": 8, "short": 16, "unsigned short": 16, "int": 32, "unsigned int": 32, "unsigned": 32, "long": 64, "unsigned long": 64, "long long": 64, "unsigned long long": 64, "size_t": 64, "std::size_t": 64}
    fld = [f for f in prog.records.get("solver", {}).get("fields", []) if f.get("name") == "iteration_"]
    if fld and wd:
        ft = (fld[0].get("tw") or fld[0].get("t") or "").replace("const ", "").replace(" int", "").strip() or "int"
        ft = {"unsigned": "unsigned int"}.get(ft, ft)
        ft_full = (fld[0].get("tw") or fld[0].get("t") or "").replace("const ", "").strip()
        tg = [prog.functions[tk] for tk in prog.call_targets(wd[0])]
        pts = {(g["params"][0].get("t") or "").replace("const ", "").strip() for g in tg if g.get("params")}
        wf = WIDTH.get(ft_full, WIDTH.get(ft))
        wp = min([WIDTH.get(t_, 0) for t_ in pts] or [0])
        if wf is None or not wp:
            raise AnalysisBroken("solver::iteration_: the width of '%s' / of the iteration parameter of write_data (%s) is not known to this checker" % (ft_full, sorted(pts)))
        if wf >= wp and wf >= 32:
            rep.ok("C19.stats-schedule", prog, it, wd[0], "iteration_ (%s) is as wide as the iteration parameter of write_data (%s)" % (ft_full, ", ".join(sorted(pts))))
        else:
            rep.violation("C19.stats-schedule", prog, it, wd[0], "iteration counter narrower than the iteration number it is recorded as",
                          "solver::iteration_ is a %s (%d bits) but is recorded through a parameter of type %s: after 2^%d iterations (a run with T/dt above that, which the parameter file allows) the counter wraps, so records get duplicate and out-of-order iteration numbers and the 'every 50th iteration' schedule restarts - the table no longer has one row per cell for every 50th iteration" % (ft_full, wf, ", ".join(sorted(pts)), wf))
    rn = prog.fn("solver::run")
    ri = prog.index(rn)
    loops = [n for n in walk(rn["body"]) if n.get("k") in ("WhileStmt", "ForStmt", "DoStmt") and any(is_call(x) and x.get("callee") == "solver::run_iteration" for x in walk(n["body"]))]
    wd2 = [n for n in walk(rn["body"]) if n.get("k") == "CXXMemberCallExpr" and n.get("callee", "").endswith("::write_data")]
    if len(loops) == 1 and len(wd2) == 1 and ri.order[id(wd2[0])] > max(ri.order[id(x)] for x in walk(loops[0])) and not ri.guards(wd2[0]) and any(is_call(x) and x.get("callee") == "solver::run_iteration" for x in walk(loops[0]["body"])):
        rep.ok("C19.stats-schedule", prog, rn, wd2[0], "run(): iterations in the loop, one final unconditional write_data after it")
    else:
        rep.violation("C19.stats-schedule", prog, rn, wd2[0] if wd2 else None, "the last iteration is not recorded", "solver::run must record the statistics once, unconditionally, after the main loop")


def file_number(rep, prog):
    fn = prog.fn("solver::save_mesh")
    fi = prog.index(fn)
    ev = S.SymEval(prog, fn)
    nb = [n for n in walk(fn["body"]) if n.get("k") == "Var" and "unsigned" in n.get("t", "") and isinstance(n.get("init"), dict)]
    good = False
    if nb:
        try:
            v = sp.sympify(ev.ev(nb[0]["init"]))
            names = {s_.name for s_ in v.free_symbols}
            inner = next((re.match(r"^trunc_unsigned_int\((.*)\)$", n_) for n_ in names if n_.startswith("trunc_unsigned_int")), None)
            txt = inner.group(1) if inner else str(v)
            good = bool(re.match(r"^floor\(this\.time_integrator_ptr_\.(simulation_time_|get_simulation_time\(\))/this\.sim_parameters_\.sampling_period_\) \+ 1$", txt))
        except S.Decline:
            good = False
    if good:
        rep.ok("C19.file-number", prog, fn, nb[0], "new file number = floor(simulation time / sampling_period_) + 1")
    else:
        rep.violation("C19.file-number", prog, fn, nb[0] if nb else None, "file number is not floor(t/S)+1", "save_mesh must compute floor(get_simulation_time()/sampling_period_) + 1 (found %s)" % (short(nb[0]["init"], 80) if nb else "nothing"))
    wr = [n for n in walk(fn["body"]) if n.get("k") == "CallExpr" and n.get("callee") == "mesh_writer::write"]
    ok = False
    why = "mesh_writer::write not called exactly once"
    if len(wr) == 1 and nb:
        g = fi.guards(wr[0])
        from ..model import expand_text
        def _is_change_test(c, pol):
            c = strip(c)
            if c.get("k") != "BinaryOperator" or c.get("op") not in ("!=", "=="):
                return False
            if (c["op"] == "!=") != bool(pol):
                return False
            sides = [strip(c["c"][0]), strip(c["c"][1])]
            fld = [x for x in sides if render(x).replace("this->", "") == "file_number_"]
            var = [x for x in sides if x.get("k") == "DeclRefExpr" and x["ref"].get("did") == nb[0]["did"]]
            return len(fld) == 1 and len(var) == 1
        cond_ok = any(_is_change_test(c, pol) for c, pol in g)
        assign = [n for n in walk(fn["body"]) if n.get("k") == "BinaryOperator" and n.get("op") == "=" and render(n["c"][0]).replace("this->", "") == "file_number_"]
        assign_ok = len(assign) == 1 and strip(assign[0]["c"][1]).get("k") == "DeclRefExpr" and strip(assign[0]["c"][1])["ref"].get("did") == nb[0]["did"] and fi.order[id(assign[0])] < fi.order[id(wr[0])]
        args = call_args(wr[0])
        paths = [expand_text(fn, a) for a in args[:2]]
        same_nb = len(paths) == 2 and all("std::to_string(file_number_)" in p.replace("std::to_string((file_number_))", "std::to_string(file_number_)") for p in paths)
        kinds = len(paths) == 2 and "cell_data" in paths[0] and "face_data" in paths[1] and "face_data" not in paths[0] and "cell_data" not in paths[1]
        pop = render(args[2]) == "cell_lst_" if len(args) > 2 else False
        ok = cond_ok and assign_ok and same_nb and kinds and pop
        why = "; ".join(w for w, c in (("not guarded by 'new number != file_number_'", cond_ok), ("file_number_ not updated before writing", assign_ok), ("paths not built from file_number_", same_nb), ("cell_data / face_data paths swapped or missing", kinds), ("does not hand cell_lst_ to the writer", pop)) if not c)
    if ok:
        rep.ok("C19.file-number", prog, fn, wr[0], "written only when the number changes; file_number_ updated first; both paths use file_number_; writes cell_lst_")
    else:
        rep.violation("C19.file-number", prog, fn, wr[0] if wr else None, "save_mesh: %s" % why[:70], "save_mesh: %s: files are skipped, duplicated or the pair of files of one snapshot gets different numbers" % why)
    it = prog.fn("solver::run_iteration")
    ii = prog.index(it)
    calls = [n for n in walk(it["body"]) if is_call(n) and n.get("callee") == "solver::save_mesh"]
    why = None
    if len(calls) != 1:
        why = "save_mesh is called %d times in run_iteration" % len(calls)
    else:
        if ii.enclosing(calls[0], ("ForStmt", "WhileStmt", "DoStmt", "CXXForRangeStmt", "LambdaExpr")) is not None:
            why = "save_mesh is called inside a loop"
        from ..model import facts_at
        for c, pol in facts_at(it, ii, calls[0]):       # guards as atomic facts, const locals expanded
            t = render(strip(c)).replace(" ", "")
            if not (("is_step_tmp()" in t) and not pol):
                why = "save_mesh is only called under %s%s" % ("" if pol else "not ", short(c, 60))
    if why is None:
        rep.ok("C19.file-number", prog, it, calls[0], "save_mesh is called once in every (non-temporary) iteration: the file number can never skip a value when S >= dt")
    else:
        rep.violation("C19.file-number", prog, it, calls[0] if calls else None, "save_mesh is not called once per iteration", "run_iteration: %s: sampling points are skipped (gaps in the numbering) or written twice" % why)
