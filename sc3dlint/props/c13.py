"""C13 - initial surface reconstruction: faithful closed mesh or clean failure (structural clauses)."""
import re
from .. import e2
from ..model import walk, strip, is_call, call_obj, call_args, render, short, always_exits, AnalysisBroken
from .c10 import product_fns
from .c17 import noexcept_escape

EXPLANATION = ("Flow rules over clang's resolved AST: (1) simulation_initializer::triangulate_surface can return a cell only "
               "through a statement sequence that ran cell::initialize_cell_properties with integrity checking on (must-pass-through "
               "on the structured CFG; the bounded-retry idiom 'for(i<N){try{..;break;}catch{..} if(i==N-1) throw;}' is recognised so "
               "that the loop cannot be left by its condition); (2) the retry bound is a literal and the failure exit throws "
               "intialization_exception; (3) initialize_cell_properties(true) itself passes through generate_edge_set, the is_manifold "
               "test that throws, and check_face_normal_orientation; (4) the per-cell work runs under parallel_exception_handler; "
               "(5) no noexcept function on the start-up cone lets an exception escape; (6) every insertion into the Poisson grid is "
               "guarded by a flag that is cleared whenever a neighbour lies closer than l_min (squared comparison against l_min*l_min). "
               "Does not decide fidelity of the reconstruction or success probability.")
ASSUMPTIONS = ["neighbourhood completeness of the grid is property C20", "virtual calls by CHA"]


def declare(rep):
    rep.rule("C13.validated-return", "triangulate_surface returns a cell only after initialize_cell_properties(check=true) on that path", floor=1)
    rep.rule("C13.retry-bound", "the retry loop has a literal bound and its failure exit throws intialization_exception", floor=1)
    rep.rule("C13.retry-catches", "the handlers of the retry loop of triangulate_surface catch every exception type an attempt can throw (may-throw summaries of the triangulation cone): a failure that escapes them aborts the initialisation on the first unlucky attempt, with the wrong exception type, instead of being retried", floor=1)
    rep.rule("C13.validation-steps", "initialize_cell_properties(true) passes through generate_edge_set, throws on !is_manifold(), and orients the normals", floor=3)
    rep.rule("C13.manifold-test", "cell::is_manifold returns false unless every edge has exactly two faces AND V - E + F == 2 over the live nodes, edges and faces (pinched vertices and multi-shell surfaces pass the edge test alone)", floor=2)
    rep.rule("C13.poisson-grid-size", "the grid in which accepted samples are looked up has a voxel size >= the minimum distance handed to poisson_disk_sampling: get_neighborhood only visits the 27 surrounding voxels", floor=2)
    rep.rule("C13.normals-after-orientation", "initialize_cell_properties computes the stored face normals (update_all_face_normals_and_areas) after check_face_normal_orientation on every path that runs the orientation repair: the repair re-winds faces, normals computed before it point inward", floor=1)
    rep.rule("C13.call-once-cache", "no function on the start-up cone keeps a function-local static (const or not) whose initialiser depends on a parameter, on the object or on other run-time state: it would be computed by the first call of the process and silently reused by every later cell / simulation", floor=30)
    rep.rule("C13.ball-scale", "triangulate_surface hands the ball-pivoting algorithm the same length as the minimum spacing of the Poisson point cloud it pivots over (the ball radius is a fixed multiple of that length: a ball sized from another length bridges concavities wider than the sampling but narrower than the ball)", floor=1)
    rep.rule("C13.parallel-handler", "the per-cell triangulation runs under parallel_exception_handler", floor=1)
    rep.rule("C13.noexcept-escape", "no noexcept function on the start-up cone lets a callee's exception escape", floor=40)
    rep.rule("C13.lost-update", "on the start-up cone no range-for mutates a by-value copy of a mesh element whose result is discarded (e.g. the orientation flip must act on the faces themselves)", floor=20)
    rep.rule("C13.stale-accumulator", "on the start-up cone an accumulator consumed inside an outer loop is re-initialised in every outer iteration (e.g. the hole centre in fill_surface_holes)", floor=5)
    rep.rule("C13.poisson-min-distance", "insertion into the Poisson grid is guarded by the all-neighbours distance test against l_min^2", floor=1)


def run(rep, prog, tier):
    if not rep.rules:
        declare(rep)
    validated_return(rep, prog)
    validation_steps(rep, prog)
    manifold_test(rep, prog)
    poisson_grid_size(rep, prog)
    parallel_handler(rep, prog)
    X = e2.Exceptions(prog)
    noexcept_escape(rep, prog, X, ["simulation_initializer::simulation_initializer"], "C13.noexcept-escape")
    poisson(rep, prog)
    cone_lints(rep, prog)
    normals_after_orientation(rep, prog)
    call_once_cache(rep, prog)
    ball_scale(rep, prog)


def cone_lints(rep, prog):
    from .. import lints
    keys = set()
    for f in prog.fns("simulation_initializer::simulation_initializer"):
        keys.add(f["key"])
    cone = prog.closure(keys)
    from ..model import LOOP_KINDS
    for k in sorted(cone):
        fn = prog.functions[k]
        if "/lib/" in fn["file"] or not isinstance(fn.get("body"), dict) or fn.get("pseudo"):
            continue
        fi = prog.index(fn)
        loops = [n for n in walk(fn["body"]) if n.get("k") == "CXXForRangeStmt"]
        bad = {id(l): m for l, m in lints.lost_update_on_copy(prog, fn)}
        for l in loops:
            if id(l) in bad:
                m = bad[id(l)]
                rep.violation("C13.lost-update", prog, fn, m, "%s mutates a copy of the loop element" % fn["qn"],
                              "the range-for at line %s iterates BY VALUE over %s and the body calls %s on the copy, which is then discarded: the elements themselves are never modified (for check_face_normal_orientation: the cell stays inside-out)"
                              % (l.get("l"), render(l["range"]), short(m, 60)))
            else:
                rep.ok("C13.lost-update", prog, fn, l, "range-for over %s: no mutation of a discarded by-value copy" % render(l["range"]))
        nested = [n for n in walk(fn["body"]) if n.get("k") in LOOP_KINDS and fi.enclosing(n, LOOP_KINDS) is not None]
        stale = list(lints.stale_accumulator(prog, fn))
        for d, outer, inner, use in stale:
            rep.violation("C13.stale-accumulator", prog, fn, use, "%s: accumulator %s carried across outer iterations" % (fn["qn"], d["name"]),
                          "'%s' (declared at line %s, outside the loop at line %s) is accumulated in the inner loop at line %s and used at line %s, but is not re-initialised in each iteration of the outer loop: the value of the previous iteration leaks into the next (for fill_surface_holes: every hole after the first gets a centre node far off the surface)"
                          % (d["name"], d.get("l"), outer.get("l"), inner.get("l"), use.get("l")))
        if not stale:
            for n in nested[:1]:
                rep.ok("C13.stale-accumulator", prog, fn, n, "%d nested loop(s): every accumulator used in an outer body is initialised there" % len(nested))


def _is_validate_call(n):
    if n.get("k") != "CXXMemberCallExpr" or n.get("callee") != "cell::initialize_cell_properties":
        return False
    a = call_args(n)
    if not a:
        return True
    v = strip(a[0])
    if v.get("k") == "CXXDefaultArgExpr":
        v = strip(v.get("default_arg", {}))
    return v.get("k") == "CXXBoolLiteralExpr" and v.get("v") is True


def validated_return(rep, prog):
    fn = prog.fn("simulation_initializer::triangulate_surface")
    fi = prog.index(fn)
    cfg = fi.cfg()
    loops = [n for n in walk(fn["body"], into_lambdas=False) if n.get("k") == "ForStmt"]
    if len(loops) != 1:
        raise AnalysisBroken("triangulate_surface: expected exactly one retry loop, found %d" % len(loops))
    loop = loops[0]
    # --- retry idiom ------------------------------------------------------------------------
    cond = strip(loop.get("cond") or {})
    bound = None
    counter = None
    if cond.get("k") == "BinaryOperator" and cond.get("op") == "<":
        l, r = strip(cond["c"][0]), strip(cond["c"][1])
        if l.get("k") == "DeclRefExpr":
            counter = l["ref"]["did"]
            bound = r
    def const_val(e):
        e = strip(e)
        if e.get("k") == "IntegerLiteral":
            return int(e["v"])
        if e.get("k") == "DeclRefExpr":
            for n in walk(fn["body"]):
                if n.get("k") == "Var" and n.get("did") == e["ref"]["did"] and isinstance(n.get("init"), dict) and n.get("t", "").startswith("const"):
                    return const_val(n["init"])
        if e.get("k") == "BinaryOperator" and e.get("op") in ("-", "+"):
            a, b = const_val(e["c"][0]), const_val(e["c"][1])
            if a is not None and b is not None:
                return a - b if e["op"] == "-" else a + b
        return None
    N = const_val(bound) if bound is not None else None
    body = loop["body"]
    stmts = body.get("c", []) if body.get("k") == "CompoundStmt" else [body]
    last_throw = None
    if stmts and stmts[-1].get("k") == "IfStmt" and always_exits(stmts[-1]["then"]):
        c = strip(stmts[-1]["cond"])
        if c.get("k") == "BinaryOperator" and c.get("op") == "==":
            a, b = strip(c["c"][0]), c["c"][1]
            if a.get("k") == "DeclRefExpr" and a["ref"]["did"] == counter and N is not None and const_val(b) == N - 1:
                thr = [x for x in walk(stmts[-1]["then"]) if x.get("k") == "CXXThrowExpr"]
                if thr:
                    last_throw = thr[0]
    if last_throw is None:
        # equivalent form: the failure is thrown right after the loop (reached only when all N attempts failed, because every
        # successful attempt returns / breaks out to a return)
        seq = fn["body"].get("c", [])
        holder = None
        for p_, slot, ch in fi.ancestors(loop):
            if p_.get("k") == "CompoundStmt":
                holder = p_
                break
        if holder is not None:
            sts = holder.get("c", [])
            idx = [i for i, s_ in enumerate(sts) if s_ is loop]
            if idx and idx[0] + 1 < len(sts):
                nxt = strip(sts[idx[0] + 1])
                thr = [x for x in walk(sts[idx[0] + 1]) if x.get("k") == "CXXThrowExpr"]
                succ_returns = [r for r in walk(body) if r.get("k") == "ReturnStmt" and fi.enclosing(r, ("CXXTryStmt",)) is not None]
                breaks = [b for b in walk(body) if b.get("k") == "BreakStmt" and (fi.enclosing(b, ("SwitchStmt", "ForStmt", "WhileStmt", "DoStmt", "CXXForRangeStmt")) is loop)]      # a 'break' of a switch leaves the switch
                if thr and always_exits(sts[idx[0] + 1]) and sts[idx[0] + 1].get("k") != "IfStmt" and succ_returns and not breaks:
                    last_throw = thr[0]
    counter_written = False
    for n in walk(body):
        if n.get("k") in ("BinaryOperator", "CompoundAssignOperator", "UnaryOperator") and n.get("op") in ("=", "+=", "-=", "++", "--"):
            t = strip(n["c"][0])
            if t.get("k") == "DeclRefExpr" and t["ref"]["did"] == counter:
                counter_written = True
    inc = strip(loop.get("inc") or {})
    inc_ok = inc.get("k") == "UnaryOperator" and inc.get("op") == "++" and strip(inc["c"][0]).get("k") == "DeclRefExpr" and strip(inc["c"][0])["ref"]["did"] == counter
    idiom = N is not None and N >= 1 and last_throw is not None and not counter_written and inc_ok
    # a handler that jumps (continue / break / return) goes round the exhaustion test that follows the try block: the last
    # attempt then falls out of the loop and the function returns a cell that was never validated (or a null pointer)
    jumps = []
    for t_ in [t for t in walk(body) if t.get("k") == "CXXTryStmt"]:
        for h in t_.get("handlers", []):
            for x in walk(h.get("body") or {}, into_lambdas=False):
                if x.get("k") in ("ContinueStmt", "ReturnStmt", "GotoStmt") or (x.get("k") == "BreakStmt" and fi.enclosing(x, ("SwitchStmt", "ForStmt", "WhileStmt", "DoStmt", "CXXForRangeStmt")) is loop):
                    jumps.append((x, h))
    if idiom and jumps and any(s_ is not None for s_ in stmts) and stmts and stmts[-1].get("k") == "IfStmt":
        x, h = jumps[0]
        rep.violation("C13.retry-bound", prog, fn, x, "a handler of the retry loop skips the exhaustion test",
                      "the handler catch(%s) of the retry loop of triangulate_surface leaves with '%s' (line %s) and so goes round the test 'if(i == N-1) throw intialization_exception' that follows the try block: when the last attempt fails with that exception the loop simply ends and the function returns '%s' - a null pointer or a cell whose validation did not complete - instead of reporting the failure" % (h.get("type"), x.get("k").replace("Stmt", "").lower(), x.get("l"), "c0"))
        idiom = False
        last_throw = None
        return
    if idiom and last_throw.get("thrown_t") == "intialization_exception":
        rep.ok("C13.retry-bound", prog, fn, loop, "retry loop bounded by the literal %d; iteration %d ends with 'throw intialization_exception' unless the try block reached its break" % (N, N - 1))
    else:
        rep.violation("C13.retry-bound", prog, fn, loop, "retry loop is not a bounded retry that throws",
                      "the retry loop of triangulate_surface is not of the form for(i=0;i<N;++i){try{...;break;}catch{...} if(i==N-1) throw intialization_exception}: bound=%s, failure-throw=%s, counter modified in body=%s"
                      % (N, last_throw.get("thrown_t") if last_throw else None, counter_written))
    # --- every failure of an attempt is retried -----------------------------------------------------
    trys = [t for t in walk(loop.get("body") or {}) if t.get("k") == "CXXTryStmt"]
    if trys:
        X = e2.Exceptions(prog)
        esc = X.escapes(fn, trys[0])
        esc.pop("<rethrow>", None)
        bad = {t_: site for t_, site in esc.items() if t_ != e2.ANY}
        if bad:
            for t_, site in sorted(bad.items()):
                rep.violation("C13.retry-catches", prog, fn, trys[0], "%s is not retried" % t_,
                              "an attempt of triangulate_surface can throw %s (%s), which none of the handlers of the retry loop (%s) catches: the exception leaves the loop on the first such attempt - no retry, and the caller does not get the initialisation exception the bounded retry promises" % (t_, site, ", ".join(h["type"] for h in trys[0].get("handlers", []))))
        else:
            rep.ok("C13.retry-catches", prog, fn, trys[0], "handlers (%s) catch every exception type an attempt may throw" % ", ".join(h["type"] for h in trys[0].get("handlers", [])))
    else:
        raise AnalysisBroken("triangulate_surface: no try statement in the retry loop")
    # --- must-pass-through ----------------------------------------------------------------------
    vunits = set()
    for n in walk(fn["body"], into_lambdas=False):
        if _is_validate_call(n):
            u = cfg.unit_of.get(id(n))
            if u is not None:
                vunits.add(u)
    if not vunits:
        rep.violation("C13.validated-return", prog, fn, None, "no validating call", "triangulate_surface never calls initialize_cell_properties with integrity checking on")
        return
    cond_unit = cfg.unit_of.get(id(loop["cond"])) if isinstance(loop.get("cond"), dict) else None
    # successor of the loop when the condition is false
    rets = [n for n in walk(fn["body"], into_lambdas=False) if n.get("k") == "ReturnStmt" and isinstance(n.get("value"), dict)]
    bad = []
    for r in rets:
        v = strip(r["value"])
        if v.get("k") in ("CXXNullPtrLiteralExpr",):
            continue
        ru = cfg.unit_of.get(id(r))
        # reachability from entry to ru avoiding validation units; 'validated' state is lost when the cell variable is re-assigned
        # after validation -> treat assignments to the returned variable as clearing: search backwards is complex; do forward
        # search on (unit, validated) pairs.
        did = v["ref"]["did"] if v.get("k") == "DeclRefExpr" else None
        assign_units = set()
        if did is not None:
            for n in walk(fn["body"], into_lambdas=False):
                if n.get("k") == "CXXOperatorCallExpr" and n.get("op") == "=" or (n.get("k") == "BinaryOperator" and n.get("op") == "="):
                    lhs = strip(n["c"][1] if n.get("k") == "CXXOperatorCallExpr" else n["c"][0])
                    if lhs.get("k") == "DeclRefExpr" and lhs["ref"]["did"] == did:
                        u = cfg.unit_of.get(id(n))
                        if u is not None:
                            assign_units.add(u)
        seen = set()
        stack = [(cfg.entry, False)]
        reached_unvalidated = False
        while stack:
            u, val = stack.pop()
            if (u, val) in seen:
                continue
            seen.add((u, val))
            if u == ru and not val:
                reached_unvalidated = True
                break
            nval = val
            if u in assign_units:
                nval = False
            if u in vunits:
                nval = True
            for s in cfg.succ[u]:
                if idiom and u == cond_unit and s not in _body_units(cfg, loop):
                    continue   # the loop cannot be left through its condition (retry idiom)
                if u in vunits and s in _handler_entries(cfg, fn):
                    # the validating call threw: not validated
                    stack.append((s, False))
                    continue
                stack.append((s, nval))
        if reached_unvalidated:
            bad.append(r)
    if bad:
        rep.violation("C13.validated-return", prog, fn, bad[0], "cell returned without validation",
                      "a path reaches 'return %s' (line %s) on which the returned cell has not passed cell::initialize_cell_properties(check_cell_integrity=true): a non-manifold / inside-out cell can be handed to the solver"
                      % (render(bad[0]["value"]), bad[0].get("l")))
    else:
        rep.ok("C13.validated-return", prog, fn, rets[0] if rets else None, "every path to 'return' assigns the cell and then passes initialize_cell_properties(true) without reassignment")


def _body_units(cfg, loop):
    s = set()
    for n in walk(loop["body"], into_lambdas=False):
        u = cfg.unit_of.get(id(n))
        if u is not None:
            s.add(u)
    return s


def _handler_entries(cfg, fn):
    s = set()
    for t in walk(fn["body"], into_lambdas=False):
        if t.get("k") == "CXXTryStmt":
            for h in t.get("handlers", []):
                for n in walk(h["body"], into_lambdas=False):
                    u = cfg.unit_of.get(id(n))
                    if u is not None:
                        s.add(u)
    return s


def validation_steps(rep, prog):
    """decided on the atomic facts that hold at each step (guards with locals expanded, negations folded): the edge set is
    generated exactly when the flag is set; the orientation repair runs exactly when the flag is set and the surface is manifold;
    an exception is thrown exactly when the flag is set and the surface is not manifold"""
    from ..model import facts_at
    fn = prog.fn("cell::initialize_cell_properties")
    fi = prog.index(fn)
    p0 = fn["params"][0]["did"]

    def classify(n):
        flag = manifold = None
        other = []
        for a_, t_ in facts_at(fn, fi, n):
            a0 = strip(a_)
            while a0.get("k") == "ParenExpr" and a0.get("c"):
                a0 = strip(a0["c"][0])
            if a0.get("k") == "DeclRefExpr" and (a0.get("ref") or {}).get("did") == p0:
                flag = t_ if flag is None else (flag and t_)
            elif a0.get("k") == "CXXMemberCallExpr" and a0.get("callee") == "cell::is_manifold":
                manifold = t_
            else:
                other.append(a_)
        return flag, manifold, other
    calls = {}
    for n in walk(fn["body"]):
        if is_call(n) and n.get("callee") in ("cell::generate_edge_set", "cell::check_face_normal_orientation"):
            calls.setdefault(n["callee"], []).append(n)
    for name, want_manifold in (("cell::generate_edge_set", (None,)), ("cell::check_face_normal_orientation", (None, True))):
        ns = []
        for n in calls.get(name, []):
            flag, manifold, other = classify(n)
            if flag is True and manifold in want_manifold and not other and fi.enclosing(n, ("ForStmt", "WhileStmt", "CXXForRangeStmt", "SwitchStmt")) is None:
                ns.append(n)
        if ns:
            rep.ok("C13.validation-steps", prog, fn, ns[0], "%s runs whenever check_cell_integrity is true%s" % (name, " (and the surface is manifold)" if name.endswith("orientation") else ""))
        else:
            rep.violation("C13.validation-steps", prog, fn, None, "%s missing" % name, "initialize_cell_properties(true) no longer unconditionally calls %s" % name)
    ok = False
    for t in walk(fn["body"]):
        if t.get("k") == "CXXThrowExpr":
            flag, manifold, other = classify(t)
            if flag is True and manifold is False and not other:
                ok = True
                rep.ok("C13.validation-steps", prog, fn, t, "throws exactly when check_cell_integrity is set and is_manifold() is false")
    if not ok:
        rep.violation("C13.validation-steps", prog, fn, None, "is_manifold test missing", "initialize_cell_properties(true) does not throw when is_manifold() is false")


def manifold_test(rep, prog):
    import sympy as sp
    from .. import sym as S
    rule = "C13.manifold-test"
    fn = prog.fn("cell::is_manifold")
    ev = S.SymEval(prog, fn)
    V = ev.sym("this.node_lst_.size()") - ev.sym("this.free_node_queue_.size()")
    E = ev.sym("this.edge_set_.size()")
    F = ev.sym("this.face_lst_.size()") - ev.sym("this.free_face_queue_.size()")
    want = sp.expand(V - E + F - 2)
    euler = edges = None
    for n in walk(fn["body"]):
        if n.get("k") != "IfStmt":
            continue
        then = n.get("then") or {}
        rets = [r for r in walk(then) if r.get("k") == "ReturnStmt"]
        if not rets or not all(render(r.get("value") or {}).strip() in ("false", "0") for r in rets):
            continue
        c = strip(n["cond"])
        neg = False
        while c.get("k") == "UnaryOperator" and c.get("op") == "!":
            neg = not neg
            c = strip(c["c"][0])
            while c.get("k") == "ParenExpr":
                c = strip(c["c"][0])
        if c.get("k") == "BinaryOperator" and c.get("op") in ("!=", "=="):
            if (c["op"] == "!=") == neg:
                continue
            try:
                d = sp.expand(sp.sympify(ev.ev(c["c"][0])) - sp.sympify(ev.ev(c["c"][1])))
            except S.Decline:
                continue
            d = d.subs({a: sp.Symbol(re.sub(r"^trunc_\w+\((.*)\)$", r"\1", a.name), real=True) for a in d.free_symbols})
            if sp.expand(d - want) == 0 or sp.expand(d + want) == 0:
                euler = n
        if neg and is_call(c) and c.get("callee") in ("std::all_of",) and ("is_manifold" in render(c) or "is_manifold" in __import__("json").dumps(c)) and "edge_set_" in render(c):
            edges = n
    # the same two tests written otherwise: a loop over edge_set_ that returns false at the first edge that is not manifold;
    # `return V - E + F == 2;` as the last statement
    from ..model import facts_at
    fi = prog.index(fn)
    if edges is None:
        for loop in walk(fn["body"]):
            if loop.get("k") == "CXXForRangeStmt" and "edge_set_" in render(loop.get("range") or {}):
                var = loop["var"].get("did")
                for r in walk(loop["body"]):
                    if r.get("k") == "ReturnStmt" and render(r.get("value") or {}).strip() in ("false", "0"):
                        fs = facts_at(fn, fi, r, stop_at=loop)
                        if len(fs) == 1 and fs[0][0].get("k") == "CXXMemberCallExpr" and fs[0][0].get("callee") == "edge::is_manifold" and fs[0][1] is False and strip(call_obj(fs[0][0]) or {}).get("k") == "DeclRefExpr" and strip(call_obj(fs[0][0]))["ref"].get("did") == var \
                                and fi.enclosing(loop, ("IfStmt", "ForStmt", "WhileStmt", "CXXForRangeStmt")) is None:
                            edges = loop
    if euler is None:
        for r in walk(fn["body"]):
            if r.get("k") == "ReturnStmt" and isinstance(r.get("value"), dict) and fi.enclosing(r, ("IfStmt", "ForStmt", "WhileStmt", "CXXForRangeStmt", "LambdaExpr")) is None:
                c = strip(r["value"])
                while c.get("k") in ("ParenExpr", "ImplicitCastExpr") and c.get("c"):
                    c = strip(c["c"][0])
                if c.get("k") == "BinaryOperator" and c.get("op") == "==":
                    try:
                        d = sp.expand(sp.sympify(ev.ev(c["c"][0])) - sp.sympify(ev.ev(c["c"][1])))
                    except S.Decline:
                        continue
                    d = d.subs({a: sp.Symbol(re.sub(r"^trunc_\w+\((.*)\)$", r"\1", a.name), real=True) for a in d.free_symbols})
                    if sp.expand(d - want) == 0 or sp.expand(d + want) == 0:
                        euler = r
    if edges is not None:
        rep.ok(rule, prog, fn, edges, "returns false unless every edge of edge_set_ has exactly two faces")
    else:
        rep.violation(rule, prog, fn, None, "edge test missing in is_manifold", "cell::is_manifold no longer returns false when some edge of edge_set_ is not shared by exactly two faces")
    if euler is not None:
        rep.ok(rule, prog, fn, euler, "returns false unless V - E + F == 2 with V, F the live nodes / faces and E = edge_set_.size()")
    else:
        rep.violation(rule, prog, fn, None, "Euler characteristic not tested",
                      "cell::is_manifold does not return false when (live nodes) - (edges) + (live faces) != 2: a surface in which every edge has two faces but a vertex is pinched, or which consists of several shells "
                      "(3F = 2E holds for all of them), is accepted by initialize_cell_properties and handed to the solver")


def poisson_grid_size(rep, prog):
    import sympy as sp
    from .. import sym as S
    rule = "C13.poisson-grid-size"
    n_sites = 0
    for fn in product_fns(prog):
        if not isinstance(fn.get("body"), dict):
            continue
        for c in walk(fn["body"]):
            if not (is_call(c) and c.get("callee") == "poisson_sampling::poisson_disk_sampling"):
                continue
            n_sites += 1
            args = call_args(c)
            g = strip(args[1])
            ev = S.SymEval(prog, fn)
            vs = None
            if g.get("k") == "DeclRefExpr":
                d = ev._var_decl(g["ref"]["did"])
                if isinstance(d, dict):
                    ctor = [x for x in walk(d.get("init") or {}) if x.get("k") in ("CXXConstructExpr", "CXXTemporaryObjectExpr") and (x.get("t") or "").startswith("uspg_4d") and len(x.get("c", [])) >= 7]
                    if ctor:
                        vs = ctor[0]["c"][6]
            if vs is None:
                raise AnalysisBroken("%s: construction of the look-up grid of poisson_disk_sampling not found" % prog.loc(fn, c))
            try:
                v = sp.sympify(ev.ev(vs))
                L = sp.sympify(ev.ev(args[2]))
            except S.Decline as e:
                raise AnalysisBroken("%s: %s" % (prog.loc(fn, c), e))
            ratio = sp.simplify(v / L)
            if ratio.is_number and ratio >= 1:
                rep.ok(rule, prog, fn, c, "look-up grid voxel size = %s x the minimum distance" % ratio)
            else:
                rep.violation(rule, prog, fn, vs, "look-up grid finer than the minimum distance",
                              "%s: the grid passed as second argument of poisson_disk_sampling is built with voxel size %s while samples closer than %s must be rejected (ratio %s): get_neighborhood returns the content of the 3x3x3 "
                              "block around the candidate only, so accepted samples that are two voxels away but closer than the minimum distance are never compared - the cloud contains pairs closer than l_min"
                              % (fn["qn"], short(vs, 40), short(args[2], 30), ratio))
    if n_sites == 0:
        raise AnalysisBroken("no call of poisson_disk_sampling found")


def parallel_handler(rep, prog):
    fn = prog.fn("simulation_initializer::run")
    from .. import e6
    regs = [r for r in e6.parallel_regions(prog, fn) if r["kind"] == "parallel_exception_handler"]
    ok = False
    for r in regs:
        if isinstance(r.get("body"), dict):
            for n in walk(r["body"]):
                if is_call(n) and n.get("callee") == "simulation_initializer::triangulate_surface":
                    ok = True
                    rep.ok("C13.parallel-handler", prog, fn, r["node"], "triangulate_surface is called from the callable handed to parallel_exception_handler")
    # the handler itself must hand the worker's exception on unchanged (catch(...) + current_exception, rethrown after the region)
    from . import c15
    for h in prog.fns("parallel_exception_handler"):
        if not isinstance(h.get("body"), dict):
            continue
        for r in e6.parallel_regions(prog, h):
            if "omp" in r["node"]:
                c15.eptr(rep, prog, h, r["node"], rule="C13.parallel-handler")
    if not ok:
        others = [n for n in walk(fn["body"]) if is_call(n) and n.get("callee") == "simulation_initializer::triangulate_surface"]
        rep.violation("C13.parallel-handler", prog, fn, others[0] if others else None, "triangulation not under the exception handler",
                      "simulation_initializer::run does not run triangulate_surface through parallel_exception_handler: an initialisation exception thrown in a worker thread would not reach the caller")


def poisson(rep, prog):
    fn = prog.fn("poisson_sampling::poisson_disk_sampling")
    fi = prog.index(fn)
    places = [n for n in walk(fn["body"]) if n.get("k") == "CXXMemberCallExpr" and n.get("callee", "").endswith("::place_object")]
    if not places:
        raise AnalysisBroken("poisson_disk_sampling: no place_object call")
    lmin = fn["params"][2]["did"]
    for pl in places:
        flag = None
        for cond, pol in fi.guards(pl):
            c = strip(cond)
            if c.get("k") == "DeclRefExpr" and pol and c.get("t", "").replace("const ", "") == "bool":
                flag = c["ref"]
        if flag is None:
            # predicate form: the insertion is reached only if a local predicate over the candidate holds, and that predicate
            # returns false as soon as one point of the neighbourhood (of the same grid) is closer than l_min
            if _predicate_guard(prog, fn, fi, pl, lmin):
                rep.ok("C13.poisson-min-distance", prog, fn, pl, "insertion reached only if the local predicate holds, which returns false when |p - candidate|^2 < l_min*l_min for any point of the neighbourhood of the same grid")
                continue
            if _algorithm_guard(prog, fn, fi, pl, lmin):
                rep.ok("C13.poisson-min-distance", prog, fn, pl, "the inserted point is the one std::find_if found with a predicate that is std::none_of(neighbourhood of the same grid, |p - candidate|^2 < l_min*l_min) (or false)")
                continue
            loop_ = fi.enclosing(pl, ("ForStmt", "CXXForRangeStmt", "WhileStmt"))
            inner_guards = [g_ for g_ in fi.guards(pl, stop_at=loop_)] if loop_ is not None else fi.guards(pl)
            if inner_guards:
                raise AnalysisBroken("poisson_disk_sampling: the insertion at line %s runs under '%s', a form of acceptance test this checker does not decide" % (pl.get("l"), short(inner_guards[-1][0], 70)))
            rep.violation("C13.poisson-min-distance", prog, fn, pl, "unguarded insertion", "place_object into the Poisson grid is not guarded by any acceptance test: every candidate is inserted, whatever its distance to the points already accepted")
            continue
        # the flag: initialised true; cleared inside a loop over get_neighborhood(...) under  d2 < lmin2
        init_true = False
        clears = []
        for n in walk(fn["body"]):
            if n.get("k") == "Var" and n.get("did") == flag["did"]:
                iv = strip(n.get("init") or {})
                init_true = iv.get("k") == "CXXBoolLiteralExpr" and iv.get("v") is True
            if n.get("k") == "BinaryOperator" and n.get("op") == "=":
                l, r = strip(n["c"][0]), strip(n["c"][1])
                if l.get("k") == "DeclRefExpr" and l["ref"]["did"] == flag["did"]:
                    clears.append((n, r))
        good = False
        why = "flag '%s' is never cleared under a distance test" % flag["name"]
        for (n, r) in clears:
            if not (r.get("k") == "CXXBoolLiteralExpr" and r.get("v") is False):
                why = "flag is assigned something other than false"
                good = False
                break
            loop = fi.enclosing(n, ("CXXForRangeStmt",))
            if loop is None:
                continue
            # loop ranges over the neighbourhood of grid_2 taken for this voxel
            rng = strip(loop["range"])
            src = None
            if rng.get("k") == "DeclRefExpr":
                for v in walk(fn["body"]):
                    if v.get("k") == "Var" and v.get("did") == rng["ref"]["did"] and isinstance(v.get("init"), dict):
                        src = [x for x in walk(v["init"]) if x.get("k") == "CXXMemberCallExpr" and x.get("callee", "").endswith("::get_neighborhood")]
            if not src:
                why = "the rejecting loop does not range over get_neighborhood(...)"
                continue
            # same grid as the one inserted into
            if render(call_obj(src[0])) != render(call_obj(pl)):
                why = "neighbourhood taken from %s but insertion into %s" % (render(call_obj(src[0])), render(call_obj(pl)))
                continue
            # inside one pass of the neighbour loop the flag must be cleared WHENEVER the distance test holds: the condition of
            # the clearing branch is the test itself or a disjunction that contains it, and no other condition (an earlier
            # `continue`, an enclosing if) exempts some neighbours from being tested
            from ..model import expand
            lv = loop["var"]["did"]

            def is_dist(x):
                x = strip(x)
                while x.get("k") == "ParenExpr" and x.get("c"):
                    x = strip(x["c"][0])
                if x.get("k") == "BinaryOperator" and x.get("op") in ("<", "<="):
                    lhs, rhs = strip(x["c"][0]), strip(x["c"][1])
                    sq = [y for y in walk(lhs) if y.get("k") == "CXXMemberCallExpr" and y.get("callee") == "vec3::squared_norm"]
                    refs = {y["ref"]["did"] for y in walk(lhs) if y.get("k") == "DeclRefExpr"}
                    return bool(sq) and _is_lmin_squared(fn, rhs, lmin) and lv in refs
                return False

            def disjuncts(c):
                c = strip(c)
                while c.get("k") == "ParenExpr" and c.get("c"):
                    c = strip(c["c"][0])
                if c.get("k") == "BinaryOperator" and c.get("op") == "||":
                    return disjuncts(c["c"][0]) + disjuncts(c["c"][1])
                return [c]
            dist_ok, extra = False, []
            for cond, pol in fi.guards(n, stop_at=loop):
                ds = disjuncts(expand(fn, cond))
                if pol and any(is_dist(d_) for d_ in ds):
                    dist_ok = True
                else:
                    extra.append((cond, pol))
            if dist_ok and not extra:
                good = True
            elif dist_ok and extra:
                why = "the distance test is only applied to the neighbours for which %s'%s' holds" % ("" if extra[0][1] else "not ", short(extra[0][0], 60))
        if good and init_true:
            rep.ok("C13.poisson-min-distance", prog, fn, pl, "insertion guarded by '%s' (initialised true, cleared when |p - candidate|^2 < l_min*l_min for any point of the neighbourhood of the same grid)" % flag["name"])
        else:
            rep.violation("C13.poisson-min-distance", prog, fn, pl, "insertion not guarded by the distance test",
                          "grid insertion at line %s is not guarded by an all-neighbours test against l_min^2 (%s): sample points closer than one minimum edge length can be accepted" % (pl.get("l"), why if not good else "flag not initialised to true"))


def _algorithm_guard(prog, fn, fi, pl, lmin):
    """if(it != last) place_object(*it) with it = std::find_if(first, last, pred) and pred(c) = [false or] std::none_of(N.begin(), N.end(),
    [](p){ return |p - c|^2 < l_min^2; }) with N the neighbourhood of the grid inserted into"""
    from ..model import def_chain

    def lam_of(e):
        e = strip(e)
        for x in def_chain(fn, e, depth=3):
            for y in walk(x):
                if y.get("k") == "LambdaExpr":
                    return y
        return None
    for cond, pol in fi.guards(pl):
        c = strip(cond)
        if not (pol and c.get("k") in ("BinaryOperator", "CXXOperatorCallExpr") and c.get("op") == "!="):
            continue
        its = [y["ref"]["did"] for y in walk(c) if y.get("k") == "DeclRefExpr" and (y.get("ref") or {}).get("dk") == "Var"]
        for v in walk(fn["body"]):
            if not (v.get("k") == "Var" and v.get("did") in its and isinstance(v.get("init"), dict)):
                continue
            ff = [x for x in walk(v["init"]) if x.get("k") == "CallExpr" and x.get("callee", "").startswith("std::find_if") and len(call_args(x)) == 3]
            if not ff:
                continue
            # the inserted object is what the iterator designates
            if not any(y.get("k") == "DeclRefExpr" and (y.get("ref") or {}).get("did") == v["did"] for a_ in call_args(pl)[:1] for d_ in def_chain(fn, a_, depth=3) for y in walk(d_)):
                continue
            pred = lam_of(call_args(ff[0])[2])
            if pred is None or not pred.get("params"):
                continue
            cand = pred["params"][0]["did"]
            rets = [r for r in walk(pred["body"], into_lambdas=False) if r.get("k") == "ReturnStmt" and isinstance(r.get("value"), dict)]
            good = 0
            leaves = []

            def arms(x):
                x = strip(x)
                while x.get("k") in ("ParenExpr", "ExprWithCleanups") and x.get("c"):
                    x = strip(x["c"][0])
                if x.get("k") == "ConditionalOperator" and len(x.get("c", [])) == 3:
                    arms(x["c"][1])
                    arms(x["c"][2])
                else:
                    leaves.append(x)
            for r in rets:
                arms(r["value"])
            for rv in leaves:
                if rv.get("k") == "CXXBoolLiteralExpr" and rv.get("v") is False:
                    continue
                neg = False
                if rv.get("k") == "UnaryOperator" and rv.get("op") == "!":
                    neg, rv = True, strip(rv["c"][0])
                if not (rv.get("k") == "CallExpr" and ((rv.get("callee", "").startswith("std::none_of") and not neg) or (rv.get("callee", "").startswith("std::any_of") and neg)) and len(call_args(rv)) == 3):
                    good = -100
                    break
                b_, e_, inner = call_args(rv)
                bt, et = render(b_).replace(" ", ""), render(e_).replace(" ", "")
                if not (bt.endswith(".begin()") or bt.endswith(".cbegin()")) or not (et.endswith(".end()") or et.endswith(".cend()")) or bt.rsplit(".", 1)[0] != et.rsplit(".", 1)[0]:
                    good = -100
                    break
                src = [x for d_ in def_chain(fn, call_obj(strip(b_)) or b_, depth=3) for x in walk(d_) if x.get("k") == "CXXMemberCallExpr" and x.get("callee", "").endswith("::get_neighborhood")]
                if not src or render(call_obj(src[0])) != render(call_obj(pl)):
                    good = -100
                    break
                il = lam_of(inner)
                if il is None or not il.get("params"):
                    good = -100
                    break
                ip = il["params"][0]["did"]
                irets = [r2 for r2 in walk(il["body"]) if r2.get("k") == "ReturnStmt" and isinstance(r2.get("value"), dict)]
                ok_inner = len(irets) == 1
                if ok_inner:
                    g = strip(irets[0]["value"])
                    while g.get("k") in ("ParenExpr", "ExprWithCleanups") and g.get("c"):
                        g = strip(g["c"][0])
                    ok_inner = False
                    if g.get("k") == "BinaryOperator" and g.get("op") in ("<", "<="):
                        lhs, rhs = strip(g["c"][0]), strip(g["c"][1])
                        sq = [y for y in walk(lhs) if y.get("k") == "CXXMemberCallExpr" and y.get("callee") == "vec3::squared_norm"]
                        refs = {y["ref"]["did"] for y in walk(lhs) if y.get("k") == "DeclRefExpr"}
                        ok_inner = bool(sq) and _is_lmin_squared(fn, rhs, lmin) and ip in refs and cand in refs
                if not ok_inner:
                    good = -100
                    break
                good += 1
            if good >= 1:
                return True
    return False


def _predicate_guard(prog, fn, fi, pl, lmin):
    for cond, pol in fi.guards(pl):
        c = strip(cond)
        while c.get("k") == "UnaryOperator" and c.get("op") == "!":
            pol = not pol
            c = strip(c["c"][0])
        if not (pol and c.get("k") == "CXXOperatorCallExpr" and c.get("op") == "()" and len(c.get("c", [])) >= 3):
            continue
        o = strip(c["c"][1])
        if o.get("k") != "DeclRefExpr":
            continue
        lam = None
        for v in walk(fn["body"]):
            if v.get("k") == "Var" and v.get("did") == o["ref"]["did"] and isinstance(v.get("init"), dict) and strip(v["init"]).get("k") == "LambdaExpr":
                lam = strip(v["init"])
        if lam is None or not lam.get("params"):
            continue
        cand = lam["params"][0]["did"]
        # the candidate handed to the predicate is the object that is inserted
        if render(strip(c["c"][2])).split("#")[0] != render(strip(call_args(pl)[0])).split("#")[0]:
            continue
        li = prog.index(fn)
        rets = [r for r in walk(lam["body"], into_lambdas=False) if r.get("k") == "ReturnStmt" and isinstance(r.get("value"), dict)]
        if not rets or strip(rets[-1]["value"]).get("v") is not True:
            continue
        for loop in [l for l in walk(lam["body"]) if l.get("k") == "CXXForRangeStmt"]:
            rng = strip(loop["range"])
            src = None
            if rng.get("k") == "DeclRefExpr":
                for v in walk(fn["body"]):
                    if v.get("k") == "Var" and v.get("did") == rng["ref"]["did"] and isinstance(v.get("init"), dict):
                        src = [x for x in walk(v["init"]) if x.get("k") == "CXXMemberCallExpr" and x.get("callee", "").endswith("::get_neighborhood")]
            if not src or render(call_obj(src[0])) != render(call_obj(pl)):
                continue
            for r in walk(loop["body"]):
                if r.get("k") == "ReturnStmt" and isinstance(r.get("value"), dict) and strip(r["value"]).get("v") is False:
                    for gc, gp in li.guards(r, stop_at=loop):
                        if not gp:
                            continue
                        g = strip(gc)
                        if g.get("k") == "BinaryOperator" and g.get("op") in ("<", "<="):
                            lhs, rhs = strip(g["c"][0]), strip(g["c"][1])
                            sq = [y for y in walk(lhs) if y.get("k") == "CXXMemberCallExpr" and y.get("callee") == "vec3::squared_norm"]
                            refs = {y["ref"]["did"] for y in walk(lhs) if y.get("k") == "DeclRefExpr"}
                            if sq and _is_lmin_squared(fn, rhs, lmin) and loop["var"]["did"] in refs and cand in refs:
                                return True
    return False


def _is_lmin_squared(fn, e, lmin_did):
    e = strip(e)
    while e.get("k") == "ParenExpr" and e.get("c"):
        e = strip(e["c"][0])
    if e.get("k") == "DeclRefExpr":
        for v in walk(fn["body"]):
            if v.get("k") == "Var" and v.get("did") == e["ref"]["did"] and isinstance(v.get("init"), dict) and v.get("t", "").startswith("const"):
                return _is_lmin_squared(fn, v["init"], lmin_did)
        return False
    if e.get("k") == "BinaryOperator" and e.get("op") == "*":
        a, b = strip(e["c"][0]), strip(e["c"][1])
        while a.get("k") == "ParenExpr" and a.get("c"):
            a = strip(a["c"][0])
        while b.get("k") == "ParenExpr" and b.get("c"):
            b = strip(b["c"][0])
        return all(x.get("k") == "DeclRefExpr" and x["ref"]["did"] == lmin_did for x in (a, b))
    return False


def normals_after_orientation(rep, prog):
    fn = prog.fn("cell::initialize_cell_properties")
    fi = prog.index(fn)
    winds = [n for n in walk(fn["body"]) if n.get("k") == "CXXMemberCallExpr" and n.get("callee") == "cell::check_face_normal_orientation"]
    ups = [n for n in walk(fn["body"]) if n.get("k") == "CXXMemberCallExpr" and n.get("callee") == "cell::update_all_face_normals_and_areas"]
    if not winds:
        raise AnalysisBroken("initialize_cell_properties: call of check_face_normal_orientation not found")
    COND = ("IfStmt", "ForStmt", "WhileStmt", "CXXForRangeStmt", "DoStmt", "SwitchStmt", "ConditionalOperator")
    for w in winds:
        wc = [id(p_) for p_, _s, _c in fi.ancestors(w) if p_.get("k") in COND]
        good = None
        for u in ups:
            uc = [id(p_) for p_, _s, _c in fi.ancestors(u) if p_.get("k") in COND]
            # u runs whenever w has run: it comes later and every conditional around it also encloses w
            if fi.order[id(u)] > fi.order[id(w)] and all(c_ in wc for c_ in uc):
                good = u
        if good is not None:
            rep.ok("C13.normals-after-orientation", prog, fn, w, "check_face_normal_orientation (line %s) is followed by update_all_face_normals_and_areas (line %s) on every path" % (w.get("l"), good.get("l")))
        else:
            rep.violation("C13.normals-after-orientation", prog, fn, w, "face normals computed before the orientation repair",
                          "initialize_cell_properties calls check_face_normal_orientation at line %s, which re-winds the faces of an inside-out cell, but no update_all_face_normals_and_areas() follows it on every path (calls at lines %s): the stored face::normal_ keep the direction of the input winding - a cell given with inward-wound faces is handed over with every stored normal pointing inward, and the contact models read those normals in the first iteration"
                          % (w.get("l"), [u.get("l") for u in ups] or "none"))


def call_once_cache(rep, prog):
    keys = {f["key"] for f in prog.fns("simulation_initializer::simulation_initializer")}
    cone = prog.closure(keys)
    for k in sorted(cone, key=str):
        fn = prog.functions[k]
        if "/lib/" in fn.get("file", "") or not isinstance(fn.get("body"), dict) or fn.get("pseudo") or fn not in prog.repo_functions():
            continue
        statics = [v for v in walk(fn["body"]) if v.get("k") == "Var" and v.get("static_local")]
        bad = []
        for v in statics:
            init = v.get("init")
            runtime = isinstance(init, dict) and any(x.get("k") == "CXXThisExpr" or (x.get("k") == "DeclRefExpr" and (x.get("ref") or {}).get("dk") in ("ParmVar", "Var", "Binding") and not (x.get("ref") or {}).get("qn")) or (x.get("k") == "MemberExpr" and (x.get("ref") or {}).get("dk") == "Field") for x in walk(init))
            if runtime:
                bad.append(v)
        for v in bad:
            rep.violation("C13.call-once-cache", prog, fn, v, "static local '%s' initialised from run-time values" % v.get("name"),
                          "%s declares 'static %s %s = %s': the initialiser is evaluated by the first call in the process only, every later call (another cell, a second simulation with other parameters) silently reuses that value" % (fn["qn"], v.get("t"), v.get("name"), short(v.get("init") or {}, 60)))
        if not bad:
            rep.ok("C13.call-once-cache", prog, fn, None, "%s: %d function-local static(s), none initialised from run-time values" % (fn["qn"], len(statics)))


def ball_scale(rep, prog):
    from ..model import expand_text
    fn = prog.fn("initial_triangulation::triangulate_surface")
    samp = [n for n in walk(fn["body"]) if is_call(n) and n.get("callee") in ("initial_triangulation::generate_poisson_point_cloud", "poisson_sampling::compute_poisson_point_cloud")]
    bpa = [n for n in walk(fn["body"]) if n.get("k") in ("CXXConstructExpr", "CXXTemporaryObjectExpr") and (n.get("cls") == "ball_pivoting_algorithm" or (n.get("t") or "").replace("const ", "") == "ball_pivoting_algorithm") and len([c for c in n.get("c", []) if isinstance(c, dict)]) >= 2]
    if not samp or not bpa:
        raise AnalysisBroken("triangulate_surface: Poisson sampling call / ball_pivoting_algorithm construction not found (%d / %d)" % (len(samp), len(bpa)))
    s_txt = expand_text(fn, call_args(samp[0])[0])
    for b in bpa:
        args = [c for c in b["c"] if isinstance(c, dict)]
        b_txt = expand_text(fn, args[1])
        if b_txt == s_txt:
            rep.ok("C13.ball-scale", prog, fn, b, "the ball-pivoting algorithm is given %s, the minimum spacing of the point cloud" % s_txt)
        else:
            rep.violation("C13.ball-scale", prog, fn, b, "ball sized from %s, cloud sampled at %s" % (b_txt[:30], s_txt[:30]),
                          "triangulate_surface samples the surface with minimum spacing %s but constructs the ball-pivoting algorithm with %s: the ball radius (a fixed multiple of that argument) no longer matches the sampling, so concavities between the two scales are bridged and the reconstructed surface - which still passes every built-in check - does not approximate the input" % (s_txt, b_txt))
