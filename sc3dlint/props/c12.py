"""C12 - volume, area, centroid, bounding box, normals: exact formula clauses (algebraic)."""
import re

import sympy as sp

from ..model import walk, strip, is_call, call_obj, call_args, render, short, AnalysisBroken
from .. import sym as S
from .c07 import cross
from . import c02

EXPLANATION = ("LF engine on cell.cpp: (1) the integrand accumulated by compute_volume is the scalar triple product x1.(x2 x x3) of the face's "
               "own three nodes (polynomial identity), followed by /6 and abs; the signed-volume loop of check_face_normal_orientation "
               "accumulates the same polynomial (sibling) and flips the faces (by reference) when it is negative; (2) update_face_normal_and_"
               "area sets area = |(x2-x1)x(x3-x1)|/2 and normal = that cross product normalised; (3) compute_centroid accumulates "
               "(x1+x2+x3)/3 * area(f) per used face and divides by area_; (4) compute_area sums get_area() over used faces only; (5) get_aabb "
               "keeps running minima/maxima per axis over used nodes, starting at +/-infinity, and returns (min xyz, max xyz) in that order; "
               "(6) get_cell_longest_axis accumulates (p_a - c_a)(p_b - c_b) into cov_ab for the matching axis pair, divides each by the "
               "number of live nodes and builds a symmetric matrix with matching indices; (7) index bookkeeping of the eigenvector matrix: with the "
               "solver's convention evec[k] = eigenvector of eval[k], the mat33 constructor (rows), transpose() (read from its nine assignments) "
               "and get_col(k) (read from its returns) compose so that the axis returned when eval[k] dominates is (evec[k][0..2]). Not decided: frame/permutation independence as such, "
               "correctness of the flood-fill orientation repair, eigen-solver accuracy.")
ASSUMPTIONS = ["gte::SymmetricEigensolver3x3 returns evec[k] as the eigenvector of eval[k] (its documented convention)", "loops are not executed: the per-iteration contribution is checked, the accumulation itself (+=) is matched structurally"]


def declare(rep):
    rep.rule("C12.volume-integrand", "compute_volume / signed volume accumulate x1.(x2 x x3) of the face's nodes; volume = |sum|/6", floor=3)
    rep.rule("C12.area-normal", "update_face_normal_and_area: area = |(x2-x1)x(x3-x1)|/2, normal = normalised cross product", floor=2)
    rep.rule("C12.centroid", "compute_centroid: sum over used faces of (x1+x2+x3)/3*area, divided by area_", floor=2)
    rep.rule("C12.flood-fill-complete", "the winding flood fill of check_face_normal_orientation queues, for the seed face and for every face it visits, the neighbours across all three edges of that face - (n1,n2), (n2,n3), (n3,n1): a neighbour that is never queued from a face can stay unreached, so a wrongly wound input triangle is left as it is", floor=2)
    rep.rule("C12.eigen-similarity", "every Givens step of gte::SymmetricEigensolver3x3::operator() is a similarity transform of the tridiagonal matrix (b00 b01 b11 b12 b22), and every final reflection of the 2x2 block it diagonalises: with c, s the half-angle pair of GetCosSin(u, v) - c^2+s^2 = 1 and 2cs u = (c^2-s^2) v - the straight-line update preserves trace, tr(B^2) and det, i.e. the characteristic polynomial, as a polynomial identity modulo those two relations. A step that is not a similarity makes the iteration converge to numbers that are not the eigenvalues of the covariance matrix, and the long axis is then wrong for every cell", floor=12)
    rep.rule("C12.area-sum", "compute_area: sum of get_area() over used faces only", floor=1)
    rep.rule("C12.aabb", "get_aabb: running min/max per axis over used nodes from +/-infinity, returned as (min xyz, max xyz)", floor=7)
    rep.rule("C12.eigen-layout", "the axis returned for eigenvalue k is (evec[k][0], evec[k][1], evec[k][2]): index bookkeeping through the mat33 constructor, transpose and get_col agrees between eigen_decomposition and get_cell_longest_axis", floor=3)
    rep.rule("C12.covariance", "get_cell_longest_axis: cov_ab accumulates (p_a-c_a)(p_b-c_b), normalised by the live node count, symmetric matrix", floor=7)


def accumulations(fn):
    """(target render, node) of 'X += E' statements inside loops"""
    out = []
    for n in walk(fn["body"]):
        if n.get("k") == "CompoundAssignOperator" and n.get("op") == "+=":
            out.append((render(n["c"][0]), n))
    return out


def face_nodes_positions(ev, face_path):
    x = []
    for k in (1, 2, 3):
        x.append([ev.sym("this.node_lst_[%s.n%d_id_].pos_.%s" % (face_path, k, c)) for c in ("dx_", "dy_", "dz_")])
    return x


def run(rep, prog, tier):
    if not rep.rules:
        declare(rep)
    volume(rep, prog)
    area_normal(rep, prog)
    centroid(rep, prog)
    area_sum(rep, prog)
    flood_fill_complete(rep, prog)
    eigen_similarity(rep, prog)
    aabb(rep, prog)
    covariance(rep, prog)
    eigen_layout(rep, prog)


def triple(x):
    c = cross(x[1], x[2])
    return sp.expand(sum(x[0][i] * c[i] for i in range(3)))


def _negative_guard(fn, cond, pol):
    """the variable v such that (cond, pol) states 'v < 0' (also written 0 > v, through !, parentheses, or a const local that only
    names v's value at that point), else None"""
    from ..model import stable_locals
    c = strip(cond)
    while True:
        if c.get("k") == "ParenExpr" and c.get("c"):
            c = strip(c["c"][0])
        elif c.get("k") == "UnaryOperator" and c.get("op") == "!":
            pol = not pol
            c = strip(c["c"][0])
        else:
            break
    if not pol or c.get("k") != "BinaryOperator" or c.get("op") not in ("<", ">"):
        return None
    l, r = strip(c["c"][0]), strip(c["c"][1])
    if c["op"] == ">":
        l, r = r, l
    if r.get("k") not in ("FloatingLiteral", "IntegerLiteral") or float(r.get("v", "1")) != 0.0 or l.get("k") != "DeclRefExpr":
        return None
    st = stable_locals(fn)
    ref = l["ref"]
    for _ in range(4):
        i = strip(st.get(ref.get("did"), {})) if ref.get("did") in st else {}
        while i.get("k") == "ParenExpr" and i.get("c"):
            i = strip(i["c"][0])
        if i.get("k") == "DeclRefExpr" and (i.get("ref") or {}).get("dk") == "Var":
            ref = i["ref"]
        else:
            break
    return ref


def orientation_order(rep, prog, rule="C12.volume-integrand"):
    """check_face_normal_orientation decides 'inside-out' from the sign of the signed volume; that sign is the orientation of the
    surface only if it is summed over faces whose winding has already been made mutually consistent by the flood fill."""
    fn = prog.fn("cell::check_face_normal_orientation")
    fi = prog.index(fn)
    flips = [n for n in walk(fn["body"]) if n.get("k") == "CXXMemberCallExpr" and n.get("callee") == "face::swap_nodes"]
    var = None
    for f in flips:
        for cond, pol in fi.guards(f):
            v_ = _negative_guard(fn, cond, pol)
            if v_ is not None:
                var = v_
            else:
                c = strip(cond)
                if var is None and c.get("k") == "BinaryOperator" and c.get("op") in ("<", ">") and strip(c["c"][0]).get("k") == "DeclRefExpr":
                    var = strip(c["c"][0])["ref"]
    if var is None:
        # the flips are decided by a sign test of something that is not a sum over the faces: not the orientation of the surface
        for f in flips:
            for cond, pol in fi.guards(f):
                c = strip(cond)
                while c.get("k") == "UnaryOperator" and c.get("op") == "!":
                    c = strip(c["c"][0])
                if c.get("k") == "BinaryOperator" and c.get("op") in ("<", ">", "<=", ">=") and any(strip(x).get("k") in ("FloatingLiteral", "IntegerLiteral") and float(strip(x).get("v", "1")) == 0.0 for x in c["c"]):
                    other = [x for x in c["c"] if not (strip(x).get("k") in ("FloatingLiteral", "IntegerLiteral"))]
                    if other and not any(x.get("k") == "CXXMemberCallExpr" and x.get("callee") == "face::is_used" for x in walk(c)):
                        rep.violation(rule, prog, fn, f, "inside-out decision is not the sign of the signed volume",
                                      "check_face_normal_orientation flips all faces when '%s' holds: that quantity is not the signed volume summed over all (consistently wound) faces. The sign of the enclosed signed volume is the orientation of a closed surface for every genus-0 mesh and every numbering; a test on one face (or on a centre of the nodes) is right for star-shaped cells only and turns every normal inward when the chosen face lies in a concavity" % short(c, 80))
                        return "violated"
        return None
    accs = [n for n in walk(fn["body"]) if n.get("k") == "CompoundAssignOperator" and n.get("op") in ("+=", "-=") and strip(n["c"][0]).get("k") == "DeclRefExpr" and strip(n["c"][0])["ref"].get("did") == var["did"]]
    winds = [n for n in walk(fn["body"]) if n.get("k") == "CXXMemberCallExpr" and n.get("callee") == "cell::check_face_winding_order"]
    if not accs or not winds:
        return var
    last = 0
    for w in winds:
        top = w
        for p_, slot, ch in fi.ancestors(w):
            if p_.get("k") in ("WhileStmt", "ForStmt", "CXXForRangeStmt", "DoStmt"):
                top = p_
        last = max(last, max(fi.order[id(x)] for x in walk(top)))
    early = [a for a in accs if fi.order[id(a)] < last]
    if early:
        rep.violation(rule, prog, fn, early[0], "signed volume summed before the windings are consistent",
                      "check_face_normal_orientation adds the contribution of a face to '%s' (line %s) before the flood fill (check_face_winding_order, up to line %s) has made the winding of all faces mutually consistent: "
                      "the sum mixes inward and outward wound triangles, its sign is not the orientation of the surface and changes with the position of the cell, so a correctly or wrongly wound input is flipped depending on where it lies"
                      % (var["name"], early[0].get("l"), max(w.get("l", 0) for w in winds)))
        return "violated"
    rep.ok(rule, prog, fn, accs[0], "the signed volume is summed after the flood fill has made all windings consistent")
    return var


def _havoc_exec_until_return(prog, fn):
    """Symbolic value of the function's (single, top-level) return expression with every loop summarised as 'the locals it writes
    hold unknown values': tells how the result is assembled from the loop-accumulated quantities."""
    ev = S.SymEval(prog, fn)
    for st in fn["body"].get("c", []):
        if st.get("k") == "ReturnStmt":
            return ev, ev.ev(st["value"])
        try:
            ev.exec_stmt(st)
        except S.Decline:
            ev.havoc(st)
    raise S.Decline("no top-level return statement")


def _atom_did(sym_):
    m = re.match(r"^(.*)#(\d+)(~\d+)?(\..*)?$", sym_.name)
    return (m.group(1), int(m.group(2))) if m else (None, None)


def _check_integrand(rep, prog, fn, qn, did, var):
    accs = [n for n in walk(fn["body"]) if n.get("k") == "CompoundAssignOperator" and n.get("op") == "+=" and strip(n["c"][0]).get("k") == "DeclRefExpr" and strip(n["c"][0])["ref"].get("did") == did]
    if len(accs) != 1:
        raise AnalysisBroken("%s: %d accumulations into %s" % (qn, len(accs), var))
    n = accs[0]
    ev = S.SymEval(prog, fn)
    try:
        e = sp.expand(sp.sympify(ev.ev(n["c"][1])))
    except S.Decline as ex:
        raise AnalysisBroken("%s: %s" % (prog.loc(fn, n), ex))
    # the sum ranges over every slot of face_lst_ (free slots are skipped by is_used(), they are not packed at the end of the list)
    fi_ = prog.index(fn)
    if _whole_face_list(fn, fi_, n):
        rep.ok("C12.volume-integrand", prog, fn, n, "%s is summed over every slot of face_lst_" % var)
    else:
        from ..model import expand_text as _et
        loop_ = fi_.enclosing(n, ("ForStmt", "WhileStmt"))
        bound = _et(fn, loop_.get("cond") or {}) if loop_ is not None else ""
        if "get_nb_of_faces" in bound or "free_face_queue_" in bound:
            rep.violation("C12.volume-integrand", prog, fn, n, "%s: face loop bounded by the number of used faces" % var,
                          "%s sums over the first get_nb_of_faces() slots of face_lst_ (%s): the used faces are not packed at the front of the list - after an edge merge the free slots lie in the middle - so the faces stored behind that position are left out and the sum runs over an open surface (volume, pressure and the orientation test become wrong and position dependent) until the next rebase()" % (qn, bound[:80]))
        else:
            rep.note("%s: the loop that accumulates %s is not in a form whose range this checker reads; 'every face slot is visited' is not decided for it" % (qn, var))
    faces = {m.group(1) for s_ in e.free_symbols for m in [re.match(r"^this\.node_lst_\[(.*)\.n[123]_id_\]\.pos_\.d[xyz]_$", s_.name)] if m}
    if len(faces) != 1:
        rep.violation("C12.volume-integrand", prog, fn, n, "%s: integrand mixes nodes of %d faces" % (var, len(faces)), "%s accumulates a term that is not built from the three nodes of one face" % qn)
        return
    x = face_nodes_positions(ev, faces.pop())
    if sp.expand(e - triple(x)) == 0:
        rep.ok("C12.volume-integrand", prog, fn, n, "%s += x1.(x2 x x3) of the loop's own face" % var)
    else:
        rep.violation("C12.volume-integrand", prog, fn, n, "%s integrand is not the triple product" % var,
                      "%s accumulates %s, which differs from the scalar triple product x1.(x2 x x3) of the face's nodes by %s" % (qn, short(n["c"][1], 60), str(sp.expand(e - triple(x)))[:120].replace("this.node_lst_", "")))


def volume(rep, prog):
    ov = orientation_order(rep, prog)
    # compute_volume: |sum over the faces of x1.(x2 x x3)| / 6, whatever the names and the statement forms
    fn = prog.fn("cell::compute_volume")
    try:
        ev, ret = _havoc_exec_until_return(prog, fn)
        ret = sp.sympify(ret)
    except S.Decline as ex:
        raise AnalysisBroken("cell::compute_volume: %s" % ex)
    atoms = [a for a in ret.free_symbols if _atom_did(a)[1] is not None]
    ok_form = False
    if len(atoms) == 1:
        A = atoms[0]
        ok_form = sp.simplify(ret - sp.Abs(A) / 6) == 0
    if ok_form:
        rep.ok("C12.volume-integrand", prog, fn, None, "volume = |sum|/6 (returned value: %s)" % re.sub(r"#\d+(~\d+)?", "", str(ret)))
        _check_integrand(rep, prog, fn, "cell::compute_volume", _atom_did(atoms[0])[1], _atom_did(atoms[0])[0])
    else:
        rep.violation("C12.volume-integrand", prog, fn, None, "volume is not |sum of triple products|/6",
                      "compute_volume returns %s; it must return the absolute value of the sum accumulated over the faces divided by 6 (the absolute value taken once, of the whole sum)" % re.sub(r"#\d+(~\d+)?", "", str(ret))[:160])
        for a in atoms[:1]:
            _check_integrand(rep, prog, fn, "cell::compute_volume", _atom_did(a)[1], _atom_did(a)[0])
    if ov != "violated":
        fn2 = prog.fn("cell::check_face_normal_orientation")
        var = ov if isinstance(ov, dict) else None
        if var is None:
            raise AnalysisBroken("check_face_normal_orientation: the quantity whose sign decides the flip was not found")
        _check_integrand(rep, prog, fn2, "cell::check_face_normal_orientation", var["did"], var["name"])
    fn = prog.fn("cell::compute_volume")
    fi = prog.index(fn)
    # orientation repair: flips by reference when the signed volume is negative
    fn = prog.fn("cell::check_face_normal_orientation")
    fi = prog.index(fn)
    flips = [n for n in walk(fn["body"]) if n.get("k") == "CXXMemberCallExpr" and n.get("callee") == "face::swap_nodes"]
    good = False
    for f in flips:
        loop = fi.enclosing(f, ("CXXForRangeStmt",))
        if loop is None or not loop["var"].get("t", "").endswith("&"):
            continue
        for cond, pol in fi.guards(f):
            v_ = _negative_guard(fn, cond, pol)
            if v_ is not None and isinstance(ov, dict) and v_.get("did") == ov["did"]:
                good = True
    if good:
        rep.ok("C12.volume-integrand", prog, fn, None, "if the signed volume is negative every used face is flipped (through a reference)")
    else:
        rep.violation("C12.volume-integrand", prog, fn, None, "inside-out cells are not flipped", "check_face_normal_orientation must, when the signed volume is negative, call swap_nodes() on every used face through a reference to the stored face")


def area_normal(rep, prog):
    try:
        try:
            nev = c02.face_normal_area(prog)
        except c02.NormalGuard as g:
            rep.violation("C12.area-normal", prog, g.fn, g.node, "face normal dropped under an absolute threshold", g.msg)
            rep.ok("C12.area-normal", prog, g.fn, None, "(area formula not evaluated)")
            return
        ev = S.SymEval(prog, prog.fn("cell::compute_volume"))
        code = c02.normal_substitution(ev, nev, "F")
        x = face_nodes_positions(ev, "F")
        n = cross([x[1][i] - x[0][i] for i in range(3)], [x[2][i] - x[0][i] for i in range(3)])
        nn = sp.expand(sum(c_ ** 2 for c_ in n))
        fn = [f for f in prog.fns("cell::update_face_normal_and_area") if f["params"][0]["t"].startswith("face")][0]
        ca = code[ev.sym("F.area_")]
        if sp.simplify(ca ** 2 - nn / 4) == 0 and sp.simplify(ca - sp.sqrt(nn) / 2) == 0:
            rep.ok("C12.area-normal", prog, fn, None, "area = |(x2-x1)x(x3-x1)|/2")
        else:
            rep.violation("C12.area-normal", prog, fn, None, "face area is not |cross|/2", "update_face_normal_and_area sets the area to %s" % str(ca)[:120])
        okn = True
        for i, c in enumerate(("dx_", "dy_", "dz_")):
            cn = code[ev.sym("F.normal_." + c)]
            if sp.simplify(cn * sp.sqrt(nn) - n[i]) != 0:
                okn = False
        if okn:
            rep.ok("C12.area-normal", prog, fn, None, "normal = (x2-x1)x(x3-x1)/|...| (winding order of the face)")
        else:
            rep.violation("C12.area-normal", prog, fn, None, "face normal is not the normalised cross product", "update_face_normal_and_area does not set the normal to the normalised (x2-x1)x(x3-x1): the cached normal no longer points to the side given by the winding")
    except S.Decline as e:
        raise AnalysisBroken("update_face_normal_and_area: %s" % e)


def _used_guard(fi, node):
    """is node dominated by '<face>.is_used()' being true (directly, negated with an early exit, through an iterator, ...)?"""
    for cond, pol in fi.guards(node):
        c = strip(cond)
        while c.get("k") == "UnaryOperator" and c.get("op") == "!":
            pol = not pol
            c = strip(c["c"][0])
        if c.get("k") == "CXXMemberCallExpr" and c.get("callee") == "face::is_used" and pol:
            return True
    return False


def _whole_face_list(fn, fi, node):
    """does the innermost loop around node visit every slot of face_lst_?"""
    loop = fi.enclosing(node, ("CXXForRangeStmt", "ForStmt", "WhileStmt"))
    if loop is None:
        return False
    if loop.get("k") == "CXXForRangeStmt":
        return render(loop["range"]).replace("this->", "").split("#")[0] == "face_lst_"
    if loop.get("k") == "ForStmt":
        from ..model import expand_text
        init = " ".join("=" + render(d.get("init") or {}) for d in (loop.get("init") or {}).get("decls", []) or []).replace(" ", "")
        cond = expand_text(fn, loop.get("cond") or {})
        return ("face_lst_.begin()" in init and "face_lst_.end()" in cond) or (re.search(r"=0u?l?$|\{0\}|=0[;)]?", init) is not None and "face_lst_.size()" in cond and "<" in cond)
    return False


def centroid(rep, prog):
    fn = prog.fn("cell::compute_centroid")
    fi = prog.index(fn)
    tr = [n for n in walk(fn["body"]) if n.get("k") == "CXXMemberCallExpr" and n.get("callee") == "vec3::translate"]
    if len(tr) != 1:
        raise AnalysisBroken("compute_centroid: accumulation not found")
    ev = S.SymEval(prog, fn)
    try:
        v = [sp.sympify(c) for c in ev.record_of(ev.ev(call_args(tr[0])[0])).f.values()]
    except S.Decline as e:
        raise AnalysisBroken("%s: %s" % (prog.loc(fn, tr[0]), e))
    faces = {m.group(1) for c in v for s_ in c.free_symbols for m in [re.match(r"^this\.node_lst_\[(.*)\.n[123]_id_\]\.pos_\.d[xyz]_$", s_.name)] if m}
    if len(faces) == 1:
        fp = faces.pop()
        x = face_nodes_positions(ev, fp)
        A = ev.sym(fp + ".area_")
        if all(sp.expand(v[i] - (x[0][i] + x[1][i] + x[2][i]) / 3 * A) == 0 for i in range(3)):
            if _used_guard(fi, tr[0]) and _whole_face_list(fn, fi, tr[0]):
                rep.ok("C12.centroid", prog, fn, tr[0], "per used face: centroid += (x1+x2+x3)/3 * area(f)")
            else:
                rep.violation("C12.centroid", prog, fn, tr[0], "centroid not summed over exactly the used faces", "the accumulation is not guarded by f.is_used() or does not range over the whole face list")
        else:
            rep.violation("C12.centroid", prog, fn, tr[0], "centroid contribution is not (x1+x2+x3)/3*area", "compute_centroid accumulates %s" % short(call_args(tr[0])[0], 80))
    else:
        rep.violation("C12.centroid", prog, fn, tr[0], "centroid contribution mixes faces", "the contribution is not built from one face")
    # the returned point is the accumulated sum divided by the total area
    try:
        ev2, ret = _havoc_exec_until_return(prog, fn)
        comps = [sp.sympify(c) for c in ev2.record_of(ret).f.values()]
    except S.Decline as ex:
        raise AnalysisBroken("cell::compute_centroid: %s" % ex)
    area = ev2.sym("this.area_")
    acc = strip(call_obj(tr[0]))
    good = acc.get("k") == "DeclRefExpr"
    if good:
        for c_, ax in zip(comps, ("dx_", "dy_", "dz_")):
            num = sp.simplify(c_ * area)
            if not (num.is_Symbol and _atom_did(num)[1] == acc["ref"]["did"] and num.name.endswith("." + ax)):
                good = False
    if good:
        rep.ok("C12.centroid", prog, fn, None, "returns the accumulated sum divided by the total area area_")
    else:
        rep.violation("C12.centroid", prog, fn, None, "centroid not normalised by area_", "compute_centroid must divide the accumulated sum by area_; it returns %s" % re.sub(r"#\d+(~\d+)?", "", str(comps))[:160])


class _NoForm(Exception):
    pass


def _lin_eval(e, env, consts):
    """value of a scalar expression made of locals, literals, + - * /, unary -, std::sqrt - as a sympy expression"""
    e = strip(e)
    k = e.get("k")
    if k == "ArraySubscriptExpr":
        key = render(e).replace(" ", "")
        if key in env:
            return env[key]
        raise _NoForm("array element '%s' at line %s" % (key, e.get("l")))
    if k in ("ParenExpr", "CStyleCastExpr", "CXXFunctionalCastExpr", "CXXStaticCastExpr", "ImplicitCastExpr") and e.get("c"):
        return _lin_eval([c_ for c_ in e["c"] if isinstance(c_, dict)][-1], env, consts)
    if k in ("FloatingLiteral", "IntegerLiteral"):
        return sp.nsimplify(e.get("v"))
    if k == "DeclRefExpr" and isinstance(e.get("ref"), dict):
        d = e["ref"].get("did")
        if d in env:
            return env[d]
        if d in consts:
            return consts[d]
        raise _NoForm("the value of '%s' at line %s" % (e["ref"].get("name"), e.get("l")))
    if k == "UnaryOperator" and e.get("op") in ("-", "+"):
        v = _lin_eval(e["c"][0], env, consts)
        return -v if e["op"] == "-" else v
    if k == "BinaryOperator" and e.get("op") in ("+", "-", "*", "/"):
        a, b = _lin_eval(e["c"][0], env, consts), _lin_eval(e["c"][1], env, consts)
        return {"+": a + b, "-": a - b, "*": a * b, "/": a / b}[e["op"]]
    if k == "CallExpr" and e.get("callee") in ("std::sqrt", "sqrt") and len(call_args(e)) == 1:
        return sp.sqrt(_lin_eval(call_args(e)[0], env, consts))
    raise _NoForm("expression '%s' at line %s" % (short(e, 60), e.get("l")))


def _update_matrix(prog, call):
    """G with (row of Q) <- (row of Q) * G, read from the body of the Update function called: entries are polynomials in c, s"""
    fn = prog.fn(call.get("callee"))
    ps = [p_ for p_ in fn.get("params", []) if isinstance(p_, dict)]
    if len(ps) != 3:
        raise _NoForm("%s does not take (Q, c, s)" % call.get("callee"))
    loops = [l for l in walk(fn["body"]) if l.get("k") == "ForStmt"]
    if len(loops) != 1 or not isinstance(loops[0].get("init"), dict) or len(loops[0]["init"].get("decls", [])) != 1:
        raise _NoForm("%s is not one loop over the rows" % call.get("callee"))
    rv = loops[0]["init"]["decls"][0]
    trips = re.sub(r"[()\s]", "", render(loops[0].get("cond") or {}))
    if trips != "%s<3" % rv.get("name") or re.sub(r"[()\s]", "", render(rv.get("init") or {})) != "0":
        raise _NoForm("the loop of %s does not visit the rows 0, 1, 2" % call.get("callee"))
    q = [sp.Symbol("q%d" % j) for j in range(3)]
    env = {ps[1]["did"]: sp.Symbol("c"), ps[2]["did"]: sp.Symbol("s")}
    for j in range(3):
        env["%s[%s][%d]" % (ps[0].get("name"), rv.get("name"), j)] = q[j]
    body = loops[0].get("body") or {}
    for st_ in (body.get("c", []) if body.get("k") == "CompoundStmt" else [body]):
        st_ = strip(st_)
        if st_.get("k") == "DeclStmt":
            for d_ in st_.get("decls", []):
                if isinstance(d_, dict) and d_.get("k") == "Var" and isinstance(d_.get("init"), dict):
                    env[d_["did"]] = _lin_eval(d_["init"], env, {})
            continue
        if st_.get("k") == "BinaryOperator" and st_.get("op") == "=":
            t = strip(st_["c"][0])
            v = _lin_eval(st_["c"][1], env, {})
            if t.get("k") == "ArraySubscriptExpr" and render(t).replace(" ", "") in env:
                env[render(t).replace(" ", "")] = v
                continue
            if t.get("k") == "DeclRefExpr":
                env[t["ref"]["did"]] = v
                continue
        raise _NoForm("statement at line %s of %s" % (st_.get("l"), call.get("callee")))
    new = [sp.expand(env["%s[%s][%d]" % (ps[0].get("name"), rv.get("name"), j)]) for j in range(3)]
    G = sp.zeros(3, 3)
    for j in range(3):
        for i in range(3):
            G[i, j] = new[j].coeff(q[i])
        if sp.expand(new[j] - sum(G[i, j] * q[i] for i in range(3))) != 0:
            raise _NoForm("%s is not linear in the row of Q" % call.get("callee"))
    return G


def eigen_similarity(rep, prog):
    cands = [q for q in prog.by_qn if q.startswith("gte::SymmetricEigensolver3x3<") and q.endswith("::operator()")]
    if not cands:
        raise AnalysisBroken("gte::SymmetricEigensolver3x3::operator() is not instantiated in this program")
    fn = prog.fn(cands[0])
    fi = prog.index(fn)
    # constants: const locals initialised from a literal
    consts = {}
    for v in walk(fn["body"]):
        if v.get("k") == "Var" and isinstance(v.get("init"), dict) and (v.get("t") or "").strip().endswith("const") or (v.get("k") == "Var" and (v.get("t") or "").startswith("const ") and isinstance(v.get("init"), dict)):
            try:
                consts[v["did"]] = _lin_eval(v["init"], {}, {})
            except (_NoForm, Exception):
                pass
    # the tridiagonal: diagonal entries from the array handed to Sort / read into eval, off-diagonals from the Converged calls
    conv = [n for n in walk(fn["body"]) if is_call(n) and n.get("callee", "").endswith("::Converged") and len(call_args(n)) == 4]
    diag_init = [v for v in walk(fn["body"]) if v.get("k") == "Var" and v.get("name") == "diagonal" and isinstance(v.get("init"), dict)]
    if not conv or not diag_init:
        raise AnalysisBroken("SymmetricEigensolver3x3::operator(): the diagonal array / the Converged tests were not found")
    diag = [x["ref"]["did"] for x in walk(diag_init[0]["init"]) if x.get("k") == "DeclRefExpr" and (x.get("ref") or {}).get("dk") == "Var"]
    names = {x["ref"]["did"]: x["ref"]["name"] for x in walk(fn["body"]) if x.get("k") == "DeclRefExpr" and isinstance(x.get("ref"), dict) and "did" in x["ref"]}
    if len(diag) != 3 or len(set(diag)) != 3:
        raise AnalysisBroken("SymmetricEigensolver3x3::operator(): the diagonal is not made of three locals")
    off = {}
    for cv in conv:
        a = [strip(x) for x in call_args(cv)[1:]]
        if not all(x.get("k") == "DeclRefExpr" for x in a):
            raise AnalysisBroken("SymmetricEigensolver3x3::operator(): Converged() is not called with three locals")
        d0, d1, o = (x["ref"]["did"] for x in a)
        if d0 in diag and d1 in diag:
            off[frozenset((diag.index(d0), diag.index(d1)))] = o
    if set(off) != {frozenset((0, 1)), frozenset((1, 2))}:
        raise AnalysisBroken("SymmetricEigensolver3x3::operator(): the two super-diagonal entries could not be identified from the Converged tests")
    tri = [diag[0], off[frozenset((0, 1))], diag[1], off[frozenset((1, 2))], diag[2]]

    def invariants(v):
        a00, a01, a11, a12, a22 = v
        return [("the trace", a00 + a11 + a22), ("tr(B^2)", a00 ** 2 + a11 ** 2 + a22 ** 2 + 2 * a01 ** 2 + 2 * a12 ** 2), ("the determinant", a00 * a11 * a22 - a00 * a12 ** 2 - a22 * a01 ** 2)]

    n = 0
    blocks = []
    for loop in [l for l in walk(fn["body"]) if l.get("k") == "ForStmt"]:
        body = loop.get("body") or {}
        stmts = body.get("c", []) if body.get("k") == "CompoundStmt" else []
        blocks.append((stmts, None, loop))
        for st_ in stmts:
            if st_.get("k") == "IfStmt" and any(is_call(x) and x.get("callee", "").endswith("::Converged") for x in walk(st_.get("cond") or {})):
                cvc = [x for x in walk(st_["cond"]) if is_call(x) and x.get("callee", "").endswith("::Converged")][0]
                th = st_.get("then") or {}
                blocks.append((th.get("c", []) if th.get("k") == "CompoundStmt" else [], cvc, loop))
    for stmts, final_of, loop in blocks:
        gcs = [i for i, st_ in enumerate(stmts) if is_call(strip(st_)) and strip(st_).get("callee", "").endswith("::GetCosSin")]
        if not gcs:
            continue
        n += 1
        syms = {d: sp.Symbol(names[d]) for d in tri}
        env = dict(syms)
        try:
            g = strip(stmts[gcs[0]])
            ga = call_args(g)
            u, v = _lin_eval(ga[0], env, consts), _lin_eval(ga[1], env, consts)
            c2d, s2d = (strip(x)["ref"]["did"] for x in ga[2:4])
            c2, s2 = sp.Symbol("c2"), sp.Symbol("s2")
            env[c2d], env[s2d] = c2, s2
            half_angle = {}
            end = None
            cs = None
            for i in range(gcs[0] + 1, len(stmts)):
                st_ = strip(stmts[i])
                if st_.get("k") in ("IfStmt", "BreakStmt"):
                    end = i
                    break
                if is_call(st_) and "::Update" in st_.get("callee", ""):
                    a = [strip(x) for x in call_args(st_)]
                    cs = (a[1]["ref"]["did"], a[2]["ref"]["did"])
                    upd_call = st_
                    # from here on c, s are the half-angle pair: check 2cs = s2 and c^2 - s^2 = c2 modulo c2^2 + s2^2 = 1
                    cv_, sv_ = env[cs[0]], env[cs[1]]
                    r1 = sp.fraction(sp.together(sp.expand(2 * cv_ * sv_ - s2)))[0]
                    r2 = sp.fraction(sp.together(sp.expand(cv_ ** 2 - sv_ ** 2 - c2)))[0]
                    G0 = sp.groebner([c2 ** 2 + s2 ** 2 - 1], c2, s2, order="lex")
                    if G0.reduce(sp.expand(r1))[1] != 0 or G0.reduce(sp.expand(r2))[1] != 0:
                        raise _NoForm("c and s at line %s are not the half-angle pair of (c2, s2)" % st_.get("l"))
                    env[cs[0]], env[cs[1]] = sp.Symbol("c"), sp.Symbol("s")
                    continue
                if st_.get("k") == "BinaryOperator" and st_.get("op") == "=" and strip(st_["c"][0]).get("k") == "DeclRefExpr":
                    t = strip(st_["c"][0])
                    if "bool" in (t.get("t") or ""):
                        continue
                    env[t["ref"]["did"]] = _lin_eval(st_["c"][1], env, consts)
                    continue
                raise _NoForm("statement at line %s" % st_.get("l"))
            if cs is None or end is None:
                raise _NoForm("the loop at line %s has no Update(Q, c, s) / convergence test" % loop.get("l"))
        except _NoForm as ex:
            raise AnalysisBroken("SymmetricEigensolver3x3::operator(): the Givens step of the loop at line %s is not in a form this checker evaluates (%s)" % (loop.get("l"), ex))
        c, s_ = sp.Symbol("c"), sp.Symbol("s")
        gens = [c, s_] + [syms[d] for d in tri]
        G = sp.groebner([c ** 2 + s_ ** 2 - 1, sp.expand(2 * c * s_ * u - (c ** 2 - s_ ** 2) * v)], *gens, order="grevlex")
        bad = []
        if final_of is not None:
            # the final reflection diagonalises the 2x2 block (d_i, o, d_j) named by the Converged test: o is dropped (taken as 0)
            di, dj, o = (strip(x)["ref"]["did"] for x in call_args(final_of)[1:])
            pairs = [(("the trace of the 2x2 block", syms[di] + syms[dj]), ("", env[di] + env[dj])),
                     (("the sum of squares of the 2x2 block", syms[di] ** 2 + syms[dj] ** 2 + 2 * syms[o] ** 2), ("", env[di] ** 2 + env[dj] ** 2))]
            if any(env[d] != syms[d] for d in tri if d not in (di, dj)):
                pairs.append((("the entries outside the 2x2 block", sp.Integer(0)), ("", sp.Integer(1))))
        else:
            pairs = list(zip(invariants([syms[d] for d in tri]), invariants([env[d] for d in tri])))
        for (what, before), (_w, after) in pairs:
            if G.reduce(sp.expand(before - after))[1] != 0:
                bad.append(what)
        # the very reflection G applied to the eigenvector matrix (Q <- Q G, read from the Update function) is the one applied to B
        try:
            Gm = _update_matrix(prog, upd_call)
        except _NoForm as ex:
            raise AnalysisBroken("SymmetricEigensolver3x3: %s" % ex)
        b = [syms[d] for d in tri]
        Bm = sp.Matrix([[b[0], b[1], 0], [b[1], b[2], b[3]], [0, b[3], b[4]]])
        nb = [env[d] for d in tri]
        if final_of is not None:
            di, dj, o = (strip(x)["ref"]["did"] for x in call_args(final_of)[1:])
            other = [d for d in (tri[1], tri[3]) if d != o][0]
            Bm = Bm.subs(syms[other], 0)          # the entry outside the converged 2x2 block is the negligible one
            code = sp.diag(nb[0], nb[2], nb[4])
        else:
            code = sp.Matrix([[nb[0], nb[1], 0], [nb[1], nb[2], nb[3]], [0, nb[3], nb[4]]])
        Bp = Gm.T * Bm * Gm
        mism = ["(%d,%d)" % (i, j) for i in range(3) for j in range(i, 3) if G.reduce(sp.expand(Bp[i, j] - code[i, j]))[1] != 0]
        if not mism and sp.expand((Gm.T * Gm - sp.eye(3))[0, 0]) is not None and all(G.reduce(sp.expand(x))[1] == 0 for x in (Gm.T * Gm - sp.eye(3))):
            rep.ok("C12.eigen-similarity", prog, fn, upd_call, "%s applies to the eigenvector matrix the orthogonal G for which the updated entries (lines %s-%s) are G^T B G" % (upd_call.get("callee", "").split("::")[-1], stmts[gcs[0]].get("l"), stmts[end].get("l")))
        elif not bad:
            rep.violation("C12.eigen-similarity", prog, fn, upd_call, "eigenvector update and matrix update use different reflections",
                          "%s multiplies the eigenvector matrix Q by a matrix G for which G^T B G differs from the entries assigned in lines %s-%s at %s (polynomial identity modulo c^2+s^2=1 and the half-angle relation)%s: A = Q B Q^T no longer holds after the step, so the columns returned as eigenvectors do not belong to the returned eigenvalues and the long axis of the cell is wrong" % (upd_call.get("callee", ""), stmts[gcs[0]].get("l"), stmts[end].get("l"), ", ".join(mism) or "-", "" if mism else " (G is not orthogonal)"))
        if not bad:
            rep.ok("C12.eigen-similarity", prog, fn, stmts[gcs[0]], ("the final reflection (lines %s-%s) preserves trace and sum of squares of the 2x2 block it diagonalises" if final_of is not None else "the Givens step (lines %s-%s) preserves trace, tr(B^2) and det of the tridiagonal matrix") % (stmts[gcs[0]].get("l"), stmts[end].get("l")) + " modulo c^2+s^2=1 and 2cs*u=(c^2-s^2)*v")
        else:
            rep.violation("C12.eigen-similarity", prog, fn, stmts[gcs[0]], "Givens step is not a similarity transform" if final_of is None else "final reflection is not a similarity transform",
                          "the update of (%s) in the loop at line %s of SymmetricEigensolver3x3::operator() does not preserve %s of the tridiagonal matrix (checked as a polynomial identity modulo c^2+s^2=1 and the half-angle relation of GetCosSin): the step is not B <- G^T B G, so the iteration changes the eigenvalues it is converging to - the eigenvalues and eigenvectors returned to get_cell_longest_axis are not those of the covariance matrix and the long axis (hence the division plane) is wrong for every cell that takes this branch" % (", ".join(names[d] for d in tri), loop.get("l"), " and ".join(bad)))
    # the Householder prologue: B = H A H with (c, s) the unit vector parallel to (u, v) handed to GetCosSin - the tridiagonal B has
    # the characteristic polynomial of the full symmetric A
    top = fn["body"].get("c", [])
    pg = [i for i, st_ in enumerate(top) if is_call(strip(st_)) and strip(st_).get("callee", "").endswith("::GetCosSin")]
    params = [p_ for p_ in fn.get("params", []) if isinstance(p_, dict) and (p_.get("t") or "").replace("const ", "").strip() in ("double", "float", "Real")]
    if pg and len(params) >= 6:
        try:
            env = {p_["did"]: sp.Symbol(p_.get("name") or ("a%d" % i)) for i, p_ in enumerate(params[:6])}
            g = strip(top[pg[0]])
            ga = call_args(g)
            u, v = _lin_eval(ga[0], env, consts), _lin_eval(ga[1], env, consts)
            c, s_ = sp.Symbol("c"), sp.Symbol("s")
            env[strip(ga[2])["ref"]["did"]], env[strip(ga[3])["ref"]["did"]] = c, s_
            last = pg[0]
            for i in range(pg[0] + 1, len(top)):
                st_ = strip(top[i])
                if st_.get("k") == "DeclStmt":
                    for d_ in st_.get("decls", []):
                        if isinstance(d_, dict) and d_.get("k") == "Var" and isinstance(d_.get("init"), dict) and (d_.get("t") or "").replace("const ", "").replace(" const", "").strip() in ("double", "float", "Real"):
                            env[d_["did"]] = _lin_eval(d_["init"], env, consts)
                    last = i
                    continue
                if st_.get("k") == "BinaryOperator" and st_.get("op") == "=" and strip(st_["c"][0]).get("k") == "DeclRefExpr":
                    env[strip(st_["c"][0])["ref"]["did"]] = _lin_eval(st_["c"][1], env, consts)
                    last = i
                    continue
                if all(d in env for d in tri):
                    break
                raise _NoForm("statement at line %s" % st_.get("l"))
            if not all(d in env for d in tri):
                raise _NoForm("the entries of the tridiagonal matrix are not all initialised before the iterations")
            a00, a01, a02, a11, a12, a22 = [env[p_["did"]] for p_ in params[:6]]
            full = [("the trace", a00 + a11 + a22), ("tr(A^2)", a00 ** 2 + a11 ** 2 + a22 ** 2 + 2 * (a01 ** 2 + a02 ** 2 + a12 ** 2)),
                    ("the determinant", sp.Matrix([[a00, a01, a02], [a01, a11, a12], [a02, a12, a22]]).det())]
            G = sp.groebner([c ** 2 + s_ ** 2 - 1, sp.expand(c * v - s_ * u)], c, s_, a00, a01, a02, a11, a12, a22, order="grevlex")
            bad = [w for (w, before), (_w, after) in zip(full, invariants([env[d] for d in tri])) if G.reduce(sp.expand(before - after))[1] != 0]
            # the matrix Q the eigenvectors start from is the reflection H with B = H^T A H
            qm = None
            for i in range(pg[0] + 1, last + 1):
                for d_ in (strip(top[i]).get("decls", []) if strip(top[i]).get("k") == "DeclStmt" else []):
                    it = strip(d_.get("init") or {}) if isinstance(d_, dict) else {}
                    if it.get("k") == "InitListExpr" and len(it.get("c", [])) == 3 and all(strip(r_).get("k") == "InitListExpr" and len(strip(r_).get("c", [])) == 3 for r_ in it["c"]):
                        qm = (d_, sp.Matrix([[_lin_eval(x, env, consts) for x in strip(r_)["c"]] for r_ in it["c"]]))
            if qm is not None:
                Am = sp.Matrix([[a00, a01, a02], [a01, a11, a12], [a02, a12, a22]])
                nb = [env[d] for d in tri]
                code = sp.Matrix([[nb[0], nb[1], 0], [nb[1], nb[2], nb[3]], [0, nb[3], nb[4]]])
                Bp = qm[1].T * Am * qm[1]
                mism = ["(%d,%d)" % (i, j) for i in range(3) for j in range(i, 3) if G.reduce(sp.expand(Bp[i, j] - code[i, j]))[1] != 0]
                orth = all(G.reduce(sp.expand(x))[1] == 0 for x in (qm[1].T * qm[1] - sp.eye(3)))
                n += 1
                if not mism and orth:
                    rep.ok("C12.eigen-similarity", prog, fn, qm[0], "the initial eigenvector matrix %s is the orthogonal H for which the tridiagonal entries are H^T A H (incl. b02 = 0)" % qm[0].get("name"))
                elif not bad:
                    rep.violation("C12.eigen-similarity", prog, fn, qm[0], "initial eigenvector matrix is not the reflection applied to the input",
                                  "the matrix %s the eigenvectors are accumulated in starts as a matrix H for which H^T A H differs from the tridiagonal entries of lines %s-%s at %s%s: A = Q B Q^T does not hold from the start, so the returned eigenvectors do not belong to the returned eigenvalues" % (qm[0].get("name"), top[pg[0]].get("l"), top[last].get("l"), ", ".join(mism) or "-", "" if orth else " (H is not orthogonal)"))
            n += 1
            if not bad:
                rep.ok("C12.eigen-similarity", prog, fn, top[pg[0]], "the Householder prologue (lines %s-%s) gives a tridiagonal matrix with the trace, tr(A^2) and det of the input matrix modulo c^2+s^2=1 and c*v=s*u" % (top[pg[0]].get("l"), top[last].get("l")))
            else:
                rep.violation("C12.eigen-similarity", prog, fn, top[pg[0]], "Householder prologue is not a similarity transform",
                              "the tridiagonal matrix (%s) that SymmetricEigensolver3x3::operator() builds from its input (lines %s-%s) does not have %s of the input matrix (polynomial identity modulo c^2+s^2=1 and (c,s) parallel to the GetCosSin arguments): it is not H*A*H, so the eigenvalues the iteration converges to are not those of the covariance matrix and the long axis is wrong for every cell" % (", ".join(names[d] for d in tri), top[pg[0]].get("l"), top[last].get("l"), " and ".join(bad)))
        except _NoForm as ex:
            raise AnalysisBroken("SymmetricEigensolver3x3::operator(): the Householder prologue is not in a form this checker evaluates (%s)" % ex)
    # GetCosSin(u, v, cs, sn): every path leaves a unit vector (cs, sn) parallel to (u, v) - the two relations used above
    gfn = prog.fn(cands[0].rsplit("::", 1)[0] + "::GetCosSin")
    gps = [p_ for p_ in gfn.get("params", []) if isinstance(p_, dict)]
    if len(gps) != 4:
        raise AnalysisBroken("SymmetricEigensolver3x3::GetCosSin does not take (u, v, cs, sn)")
    u0, v0, m_ = sp.Symbol("u", real=True), sp.Symbol("v", real=True), sp.Symbol("m", positive=True)

    def run_block(stmts, env, out):
        for st_ in stmts:
            st_ = strip(st_)
            k_ = st_.get("k")
            if k_ == "DeclStmt":
                for d_ in st_.get("decls", []):
                    if isinstance(d_, dict) and d_.get("k") == "Var" and isinstance(d_.get("init"), dict):
                        try:
                            env[d_["did"]] = _lin_eval(d_["init"], env, consts)
                        except _NoForm:
                            env[d_["did"]] = m_ if "max" in render(d_["init"]) else None
                            if env[d_["did"]] is None:
                                raise
            elif k_ == "CompoundAssignOperator" and st_.get("op") == "/=":
                t = strip(st_["c"][0])
                env[t["ref"]["did"]] = env[t["ref"]["did"]] / _lin_eval(st_["c"][1], env, consts)
            elif k_ == "BinaryOperator" and st_.get("op") == "=":
                t = strip(st_["c"][0])
                env[t["ref"]["did"]] = _lin_eval(st_["c"][1], env, consts)
            elif k_ == "IfStmt":
                th = st_.get("then") or {}
                el = st_.get("else")
                e1, e2 = dict(env), dict(env)
                run_block(th.get("c", []) if th.get("k") == "CompoundStmt" else [th], e1, out)
                if isinstance(el, dict):
                    run_block(el.get("c", []) if el.get("k") == "CompoundStmt" else [el], e2, out)
                else:
                    out.append(e2)
                return
            elif k_ == "CompoundStmt":
                run_block(st_.get("c", []), env, out)
                return
            else:
                raise _NoForm("statement at line %s of GetCosSin" % st_.get("l"))
        out.append(env)
    try:
        finals = []
        run_block(gfn["body"].get("c", []), {gps[0]["did"]: u0, gps[1]["did"]: v0}, finals)
        bad_paths = []
        for env_ in finals:
            cs_, sn_ = env_.get(gps[2]["did"]), env_.get(gps[3]["did"])
            if cs_ is None or sn_ is None:
                raise _NoForm("a path of GetCosSin leaves cs or sn unset")
            unit = sp.simplify(cs_ ** 2 + sn_ ** 2 - 1) == 0
            par = sp.simplify(cs_ * v0 - sn_ * u0) == 0 or (cs_.is_number and sn_.is_number)      # the constant answer is the u = v = 0 path
            if not (unit and par):
                bad_paths.append("cs = %s, sn = %s" % (cs_, sn_))
        n += 1
        if not bad_paths and len(finals) >= 2:
            rep.ok("C12.eigen-similarity", prog, gfn, gfn["body"], "GetCosSin leaves a unit vector parallel to (u, v) on each of its %d paths" % len(finals))
        elif bad_paths:
            rep.violation("C12.eigen-similarity", prog, gfn, gfn["body"], "GetCosSin does not return the normalised (u, v)",
                          "SymmetricEigensolver3x3::GetCosSin leaves %s on one of its paths: that is not a unit vector parallel to (u, v), so the reflections built from it are not orthogonal / do not annihilate the intended entry and the eigen decomposition of the covariance matrix is wrong" % bad_paths[0][:160])
    except _NoForm as ex:
        raise AnalysisBroken("SymmetricEigensolver3x3::GetCosSin is not in a form this checker evaluates (%s)" % ex)
    # the hand-over: eval[k] = diagonal[i_k] and evec[k] = column i_k of Q, for the same i_k (written out or as loops over k, j)
    ev_ix, vec_ix = {}, {}
    for a_ in walk(fn["body"]):
        if a_.get("k") in ("BinaryOperator", "CXXOperatorCallExpr") and a_.get("op") == "=":
            txt = render(a_).replace(" ", "").replace("this->", "")
            m1 = re.fullmatch(r"\(?eval\[(\w+)\]=diagonal\[([\w\[\]]+)\]\)?", txt)
            m2 = re.fullmatch(r"\(?evec\[(\w+)\]\[(\w+)\]=Q\[(\w+)\]\[([\w\[\]]+)\]\)?", txt)
            if m1:
                ev_ix[m1.group(1)] = (m1.group(2), a_)
            if m2:
                vec_ix[(m2.group(1), m2.group(2))] = (m2.group(3), m2.group(4), a_)

    def covers_0_2(keys):
        keys = set(keys)
        if keys == {"0", "1", "2"}:
            return True
        if len(keys) == 1 and not next(iter(keys)).isdigit():
            name = next(iter(keys))
            for l in walk(fn["body"]):
                if l.get("k") == "ForStmt" and isinstance(l.get("init"), dict) and len(l["init"].get("decls", [])) == 1 and l["init"]["decls"][0].get("name") == name:
                    d0 = l["init"]["decls"][0]
                    if re.sub(r"[()\s]", "", render(d0.get("init") or {})) == "0" and re.sub(r"[()\s]", "", render(l.get("cond") or {})) == "%s<3" % name:
                        return True
        return False
    if ev_ix and vec_ix and covers_0_2(ev_ix) and covers_0_2({k for k, _j in vec_ix}) and all(covers_0_2({j for k2, j in vec_ix if k2 == k}) for k in {k for k, _j in vec_ix}):
        wrong = [(k, j) for (k, j), (row, ix, _a) in sorted(vec_ix.items()) if row != j or k not in ev_ix or ix != ev_ix[k][0]]
        distinct = len({v[0] for v in ev_ix.values()}) == len(ev_ix)
        n += 1
        if not wrong and distinct:
            rep.ok("C12.eigen-similarity", prog, fn, next(iter(ev_ix.values()))[1], "eval[k] = diagonal[i_k] and evec[k][j] = Q[j][i_k] with the same i_k for k, j = 0..2 (eigenvector k is the column of Q that belongs to eigenvalue k)")
        else:
            k, j = wrong[0] if wrong else next(iter(vec_ix))
            rep.violation("C12.eigen-similarity", prog, fn, vec_ix[(k, j)][2], "eigenvector handed over for the wrong eigenvalue",
                          "SymmetricEigensolver3x3::operator() returns eval[%s] = diagonal[%s] but fills evec[%s][%s] from Q[%s][%s]: eigenvector k must be column i_k of Q, component by component, for the same i_k as the eigenvalue - otherwise the axis taken for the largest eigenvalue is not its eigenvector and the long axis of the cell is wrong" % (k, ev_ix.get(k, ("?",))[0], k, j, vec_ix[(k, j)][0], vec_ix[(k, j)][1]))
    else:
        raise AnalysisBroken("SymmetricEigensolver3x3::operator(): the hand-over of eigenvalues and eigenvectors (eval[k] = diagonal[..], evec[k][j] = Q[j][..]) is not in the form this checker reads (%d + %d assignments recognised)" % (len(ev_ix), len(vec_ix)))
    if n == 0:
        raise AnalysisBroken("SymmetricEigensolver3x3::operator(): no Givens iteration (loop with GetCosSin) found")


def _chain_through_ranges(fn, e):
    """def_chain of e where an element variable of a range-for stands for the elements of the range expression"""
    from ..model import def_chain
    ranges = {n["var"].get("did"): n["range"] for n in walk(fn["body"]) if n.get("k") == "CXXForRangeStmt" and isinstance(n.get("var"), dict) and isinstance(n.get("range"), dict)}
    todo, done = [e], set()
    while todo:
        x0 = todo.pop()
        for d_ in def_chain(fn, x0, depth=10):
            yield d_
            for y in walk(d_):
                if y.get("k") == "DeclRefExpr" and isinstance(y.get("ref"), dict) and y["ref"].get("did") in ranges and y["ref"]["did"] not in done:
                    done.add(y["ref"]["did"])
                    todo.append(ranges[y["ref"]["did"]])


def flood_fill_complete(rep, prog):
    from ..model import def_chain
    fn = prog.fn("cell::check_face_normal_orientation")
    fi = prog.index(fn)
    def _obj_did(n):
        o = strip(call_obj(n) or {})
        return (o.get("ref") or {}).get("did") if o.get("k") == "DeclRefExpr" else None
    # the work list: a local container that is popped inside a loop and pushed to
    popped = {_obj_did(n) for n in walk(fn["body"]) if n.get("k") == "CXXMemberCallExpr" and n.get("callee", "").split("::")[-1] in ("pop_front", "pop_back", "pop", "erase") and fi.enclosing(n, ("WhileStmt", "ForStmt", "DoStmt")) is not None} - {None}
    pushes = [n for n in walk(fn["body"]) if n.get("k") == "CXXMemberCallExpr" and n.get("callee", "").split("::")[-1] in ("push_back", "emplace_back", "push_front", "emplace_front", "push", "emplace") and _obj_did(n) in popped and call_args(n)]
    groups = {}
    for pcall in pushes:
        blk = None
        for p_, _s, _c in fi.ancestors(pcall):
            if p_.get("k") == "CompoundStmt" and (fi.parent.get(id(p_), (None, None))[0] or {}).get("k") in ("WhileStmt", "ForStmt", "DoStmt", None) or p_ is fn["body"]:
                blk = p_
                break
        groups.setdefault(id(blk), (blk, []))[1].append(pcall)
    n = 0
    for bid, (blk, calls) in groups.items():
        edges = set()
        pairs = set()
        for pcall in calls:
            for d_ in [y_ for a_ in call_args(pcall) for y_ in _chain_through_ranges(fn, a_)]:
                for x in walk(d_):
                    if x.get("k") == "CXXMemberCallExpr" and x.get("callee") == "cell::get_edge":
                        pr = frozenset(render(a_).replace(" ", "") for a_ in call_args(x))
                        pairs.add(pr)
                        edges.add(pr)
        if not edges:
            continue
        n += 1
        nodes = set().union(*pairs) if pairs else set()
        if len(edges) == 3 and len(pairs) == 3 and len(nodes) == 3:
            rep.ok("C12.flood-fill-complete", prog, fn, calls[0], "the neighbours across the three edges %s are queued" % sorted(tuple(sorted(p_)) for p_ in pairs))
        else:
            rep.violation("C12.flood-fill-complete", prog, fn, calls[0], "flood fill queues the neighbours of %d of the 3 edges" % len(edges),
                          "check_face_normal_orientation queues %d neighbour(s) of a face but they lie across only %d distinct edge(s) (%s): the face across the remaining edge is never queued from here, so parts of the surface may never be reached by the flood fill and a wrongly wound input triangle there keeps its winding - the cell is handed over with some normals pointing inward" % (len(calls), len(edges), sorted(tuple(sorted(p_)) for p_ in pairs)))
    if n == 0:
        raise AnalysisBroken("check_face_normal_orientation: the flood fill (queueing of the neighbours across the edges) was not found")


def area_sum(rep, prog):
    fn = prog.fn("cell::compute_area")
    fi = prog.index(fn)
    lam = [n for n in walk(fn["body"]) if n.get("k") == "LambdaExpr"]
    acc = [n for n in walk(fn["body"]) if n.get("k") == "CallExpr" and n.get("callee") == "std::accumulate"]
    ok = False
    site = acc[0] if acc else None
    if len(lam) == 1 and acc:
        rets = [n for n in walk(lam[0]["body"]) if n.get("k") == "ReturnStmt"]
        if len(rets) == 1:
            e = strip(rets[0]["value"])
            p0 = lam[0]["params"][0]["name"]
            if e.get("k") == "BinaryOperator" and e.get("op") == "+" and render(e["c"][0]).split("#")[0] == p0:
                r = strip(e["c"][1])
                if r.get("k") == "ConditionalOperator" and strip(r["c"][0]).get("callee") == "face::is_used" and strip(r["c"][1]).get("callee") == "face::get_area" and strip(r["c"][2]).get("k") in ("FloatingLiteral", "IntegerLiteral") and float(strip(r["c"][2])["v"]) == 0.0:
                    init = strip(call_args(acc[0])[2])
                    from ..model import expand_text as _et3
                    b_txt = _et3(fn, call_args(acc[0])[0]).replace("this->", "").replace(" ", "")
                    e_txt = _et3(fn, call_args(acc[0])[1]).replace("this->", "").replace(" ", "")
                    whole = "face_lst_.begin()" in b_txt and "+" not in b_txt and "face_lst_.end()" in e_txt and "-" not in e_txt
                    ok = init.get("k") in ("FloatingLiteral",) and float(init["v"]) == 0.0 and whole
                    if not whole:
                        rep.violation("C12.area-sum", prog, fn, acc[0], "area summed over part of the face slots", "compute_area accumulates over [%s, %s) instead of every slot of face_lst_: the used faces are not packed at the front of the list (after an edge merge the free slots lie in the middle), so faces stored behind that bound are left out of area_ - and of the normalisation of compute_centroid() - until the next rebase()" % (b_txt[:50], e_txt[:60]))
                        return
    else:
        # loop form: total = 0; for every slot of face_lst_: if used: total += area of that face; return total
        try:
            ev, ret = _havoc_exec_until_return(prog, fn)
            ret = sp.sympify(ret)
        except S.Decline as ex:
            raise AnalysisBroken("cell::compute_area: %s" % ex)
        if ret.is_Symbol and _atom_did(ret)[1] is not None:
            did = _atom_did(ret)[1]
            adds = [n for n in walk(fn["body"]) if n.get("k") == "CompoundAssignOperator" and n.get("op") == "+=" and strip(n["c"][0]).get("k") == "DeclRefExpr" and strip(n["c"][0])["ref"].get("did") == did]
            decl = [n for n in walk(fn["body"]) if n.get("k") == "Var" and n.get("did") == did and isinstance(n.get("init"), dict)]
            zero = bool(decl) and strip(decl[0]["init"]).get("k") in ("FloatingLiteral", "IntegerLiteral") and float(strip(decl[0]["init"])["v"]) == 0.0
            if len(adds) == 1 and zero:
                site = adds[0]
                r = strip(adds[0]["c"][1])
                is_area = (r.get("k") == "CXXMemberCallExpr" and r.get("callee") == "face::get_area") or (r.get("k") == "MemberExpr" and r["ref"].get("qn") == "face::area_")
                ok = is_area and _used_guard(fi, adds[0]) and _whole_face_list(fn, fi, adds[0])
    if ok:
        rep.ok("C12.area-sum", prog, fn, site, "cell area = sum over every slot of face_lst_ of (is_used ? area : 0), starting from 0")
    else:
        rep.violation("C12.area-sum", prog, fn, site, "cell area is not the sum of the used faces' areas", "compute_area must return the sum of f.get_area() over the used faces of face_lst_, starting from 0.")


def aabb(rep, prog):
    fn = prog.fn("cell::get_aabb")
    fi = prog.index(fn)
    # axis of the structured bindings of to_array()
    axis = {}
    for n in walk(fn["body"]):
        if n.get("k") == "Decomposition" and "to_array" in render(n.get("init") or {}):
            for i, b in enumerate(n.get("bindings", [])):
                axis[b["did"]] = "xyz"[i]
    role = {}   # did of running local -> (kind, axis)
    from .. import lints
    def is_used_only(gs):
        used = other = False
        for cc, pol in gs:
            c_ = strip(cc)
            while c_.get("k") == "UnaryOperator" and c_.get("op") == "!":
                pol = not pol
                c_ = strip(c_["c"][0])
            if c_.get("k") == "CXXMemberCallExpr" and c_.get("callee") == "node::is_used" and pol:
                used = True
            else:
                other = True
        return used, other
    for n, tgt, val, kind in lints.extremum_updates(fn):
        t_, v_ = strip(tgt), strip(val)
        if t_.get("k") != "DeclRefExpr":
            continue
        ax = axis.get(v_["ref"]["did"]) if v_.get("k") == "DeclRefExpr" else None
        if ax is None and v_.get("k") == "CXXMemberCallExpr" and v_.get("callee") in ("vec3::dx", "vec3::dy", "vec3::dz"):
            ax = v_["callee"][-1]
        if ax is None:
            continue
        gs = [(cc, pol) for cc, pol in fi.guards(n)]
        used, other = is_used_only(gs)
        if used and other:
            rep.violation("C12.aabb", prog, fn, n, "aabb update of %s_%s is conditional on another test" % (kind, ax),
                          "%s is only evaluated under an additional condition: each of the six running extrema must be updated for every used node independently (e.g. an 'else if' chain skips the maximum test for the node that sets the minimum, so the box is not tight for some node orders)" % short(n, 60))
            role[t_["ref"]["did"]] = (kind, ax)
        elif used:
            role[t_["ref"]["did"]] = (kind, ax)
            rep.ok("C12.aabb", prog, fn, n, "running %s of axis %s over used nodes" % (kind, ax))
        else:
            rep.violation("C12.aabb", prog, fn, n, "aabb update not restricted to the used nodes", "%s: the running %s of axis %s is not taken under n.is_used(): free node slots (position reset to the origin) enter the box" % (short(n, 60), kind, ax))
    rets = [n for n in walk(fn["body"]) if n.get("k") == "ReturnStmt"]
    items = [x for x in walk(rets[0]["value"]) if x.get("k") == "DeclRefExpr" and x["ref"].get("dk") == "Var"] if rets else []
    got = [role.get(x["ref"]["did"]) for x in items]
    want = [("min", "x"), ("min", "y"), ("min", "z"), ("max", "x"), ("max", "y"), ("max", "z")]
    inits_ok = True
    for did, (kind, ax) in role.items():
        d = [v for v in walk(fn["body"]) if v.get("k") == "Var" and v.get("did") == did][0]
        txt = render(d.get("init") or {})
        if not isinstance(d.get("init"), dict):
            # declared without a value: the starting value is the first unconditional assignment (e.g. a .fill(v) of the array
            # the scalar was an element of)
            firsts = [a for a in walk(fn["body"]) if a.get("k") == "BinaryOperator" and a.get("op") == "=" and strip(a["c"][0]).get("k") == "DeclRefExpr" and strip(a["c"][0])["ref"].get("did") == did]
            firsts.sort(key=lambda a: fi.order[id(a)])
            if firsts and fi.enclosing(firsts[0], ("IfStmt", "ForStmt", "WhileStmt", "CXXForRangeStmt", "DoStmt")) is None:
                txt = render(firsts[0]["c"][1])
        neg = txt.startswith("-")
        if "infinity" not in txt or (kind == "min" and neg) or (kind == "max" and not neg):
            inits_ok = False
    if not rets or len(got) != 6 or any(g is None for g in got):
        # an extremum algorithm over the whole node list cannot skip the free slots (their position is reset to the origin)
        for a_ in walk(fn["body"]):
            if a_.get("k") == "CallExpr" and a_.get("callee") in ("std::minmax_element", "std::min_element", "std::max_element"):
                ar = call_args(a_)
                rng = render(ar[0]).replace(" ", "") + render(ar[1]).replace(" ", "") if len(ar) >= 2 else ""
                filt = any(x.get("k") == "CXXMemberCallExpr" and x.get("callee") == "node::is_used" for x in walk(a_))
                if "node_lst_.begin()" in rng and "node_lst_.end()" in rng and not filt:
                    rep.violation("C12.aabb", prog, fn, a_, "extremum taken over every node slot, used or not",
                                  "get_aabb takes %s over node_lst_.begin()..end(): the list also holds free slots, whose position is reset to the origin, and the comparison does not look at is_used(); after an edge merge (or for input meshes with unreferenced points) the origin enters the box whenever it lies outside the cell" % a_["callee"])
                    return
        raise AnalysisBroken("get_aabb: the six returned values are not all running extrema of a node coordinate recognised by this checker (%s): the layout of the box is not decided" % got)
    if got == want and inits_ok:
        rep.ok("C12.aabb", prog, fn, rets[0], "returns (min_x,min_y,min_z,max_x,max_y,max_z); minima start at +inf, maxima at -inf")
    else:
        rep.violation("C12.aabb", prog, fn, rets[0] if rets else None, "aabb returned in the wrong order or badly initialised", "get_aabb returns %s (expected %s); initial values +/-infinity ok: %s" % (got, want, inits_ok))


def covariance(rep, prog):
    fn = prog.fn("cell::get_cell_longest_axis")
    fi = prog.index(fn)
    accs = accumulations(fn)
    found = {}
    for t, n in accs:
        m = re.match(r"^cov_([xyz])([xyz])", t)
        ev = S.SymEval(prog, fn, lazy_scalars=False)
        try:
            e = sp.expand(sp.sympify(ev.ev(n["c"][1])))
        except S.Decline as ex:
            if not m:
                continue
            raise AnalysisBroken("%s: %s" % (prog.loc(fn, n), ex))
        if not m:
            # the role of an accumulator is what it accumulates, whatever its name
            axes_ = sorted({s_.name[-2] for s_ in e.free_symbols if re.search(r"\[\*n\]\.pos_\.d[xyz]_$", s_.name)})
            if len(axes_) == 1:
                m = re.match(r"^cov_([xyz])([xyz])", "cov_%s%s" % (axes_[0], axes_[0]))
            elif len(axes_) == 2:
                m = re.match(r"^cov_([xyz])([xyz])", "cov_%s%s" % (axes_[0], axes_[1]))
            else:
                continue
        a, b = m.group(1), m.group(2)
        # expected: (p_a - c_a)(p_b - c_b) with p the loop node position, c the centroid local
        ps = {s_.name[-2]: s_ for s_ in e.free_symbols if re.search(r"\[\*n\]\.pos_\.d[xyz]_$", s_.name)}
        cs = {s_.name[-2]: s_ for s_ in e.free_symbols if s_ not in ps.values()}
        ok = False
        if a in ps and b in ps:
            ca = [s_ for s_ in e.free_symbols if s_ not in ps.values() and s_.name.endswith("d%s_" % a)]
            cb = [s_ for s_ in e.free_symbols if s_ not in ps.values() and s_.name.endswith("d%s_" % b)]
            if ca and cb and sp.expand(e - (ps[a] - ca[0]) * (ps[b] - cb[0])) == 0:
                ok = True
        did = strip(n["c"][0])["ref"]["did"]
        found[(a, b)] = did
        if ok:
            rep.ok("C12.covariance", prog, fn, n, "cov_%s%s += (p_%s - c_%s)(p_%s - c_%s)" % (a, b, a, a, b, b))
        else:
            rep.violation("C12.covariance", prog, fn, n, "cov_%s%s accumulates the wrong product" % (a, b), "%s does not accumulate (p_%s - c_%s)*(p_%s - c_%s)" % (short(n, 80), a, a, b, b))
    mats = [n for n in walk(fn["body"]) if n.get("k") in ("CXXConstructExpr", "CXXTemporaryObjectExpr") and n.get("cls") == "mat33"]
    good = False
    # a scalar that is written exactly once, unconditionally, as a copy of an accumulator after that accumulator's last update
    # (the mirrored lower triangle of an array-based matrix) stands for that accumulator
    alias = {}
    writes = {}
    for a_ in walk(fn["body"]):
        if a_.get("k") in ("BinaryOperator", "CompoundAssignOperator") and (a_.get("op") == "=" or a_.get("k") == "CompoundAssignOperator"):
            t_ = strip(a_["c"][0])
            if t_.get("k") == "DeclRefExpr":
                writes.setdefault(t_["ref"].get("did"), []).append(a_)
    for did_, ws in writes.items():
        if did_ in found.values() or len(ws) != 1 or ws[0].get("op") != "=" or ws[0].get("k") != "BinaryOperator":
            continue
        src = strip(ws[0]["c"][1])
        if src.get("k") == "DeclRefExpr" and src["ref"].get("did") in found.values() and fi.enclosing(ws[0], ("IfStmt", "ForStmt", "WhileStmt", "CXXForRangeStmt", "DoStmt")) is None \
                and all(fi.order[id(w)] < fi.order[id(ws[0])] for w in writes.get(src["ref"]["did"], [])):
            alias[did_] = src["ref"]["did"]
    for v_ in walk(fn["body"]):
        if v_.get("k") == "Var" and v_.get("did") not in found.values() and v_.get("did") not in writes and isinstance(v_.get("init"), dict):
            src = strip(v_["init"])
            if src.get("k") == "DeclRefExpr" and src["ref"].get("did") in found.values() and fi.enclosing(v_, ("IfStmt", "ForStmt", "WhileStmt", "CXXForRangeStmt", "DoStmt")) is None \
                    and all(fi.order[id(w)] < fi.order[id(v_)] for w in writes.get(src["ref"]["did"], [])):
                alias[v_["did"]] = src["ref"]["did"]
    for m in mats:
        refs = [x["ref"]["did"] for x in walk(m) if x.get("k") == "DeclRefExpr" and x["ref"].get("dk") == "Var"]
        if any(fi.order[id(w)] > fi.order[id(m)] for r_ in refs if r_ in alias for w in writes.get(r_, [])):
            continue
        refs = [alias.get(r_, r_) for r_ in refs]
        if len(refs) == 9:
            idx = "xyz"
            want = []
            for i in range(3):
                for j in range(3):
                    key = (idx[min(i, j)], idx[max(i, j)])
                    want.append(found.get(key))
            if refs == want:
                good = True
                rep.ok("C12.covariance", prog, fn, m, "covariance matrix is symmetric with entry (a,b) = cov_ab")
    if not good and (len(found) != 6 or not any(len([x for x in walk(m_) if x.get("k") == "DeclRefExpr" and x["ref"].get("dk") == "Var"]) == 9 for m_ in mats)):
        raise AnalysisBroken("get_cell_longest_axis: the six covariance accumulators / the nine entries of the matrix handed to the eigen solver are not in a form this checker decides (%d accumulators recognised)" % len(found))
    if not good:
        rep.violation("C12.covariance", prog, fn, mats[0] if mats else None, "covariance matrix entries misplaced", "the 3x3 matrix handed to the eigen solver is not [[xx,xy,xz],[xy,yy,yz],[xz,yz,zz]]")


# ---- eigen layout: a 3x3 index interpreter ---------------------------------------------------------------
def _row_idx(txt):
    m = re.match(r"^(?:(\w+)\.)?row_([123])_\[(\d)\]$", txt.replace(" ", "").strip("()"))
    return (m.group(1), int(m.group(2)) - 1, int(m.group(3))) if m else None


def eigen_layout(rep, prog):
    ed = prog.fn("mat33::eigen_decomposition")
    # (a) constructor: row_k_ <- k-th parameter
    for ctor in [f for f in prog.fns("mat33::mat33") if f["key"].count("std::array<double, 3>") == 3]:
        got = {}
        for n in walk(ctor["body"]):
            if n.get("k") in ("BinaryOperator", "CXXOperatorCallExpr") and n.get("op") == "=":
                l, r = render(n["c"][-2]).replace(" ", ""), render(n["c"][-1]).replace(" ", "")
                m = re.match(r"^(?:this->)?row_([123])_$", l.strip("()"))
                m2 = re.search(r"row_([123])\b", r)
                if m and m2:
                    got[int(m.group(1))] = int(m2.group(1))
        pnames = [p_["name"] for p_ in ctor["params"]]
        if got != {1: 1, 2: 2, 3: 3} or pnames != ["row_1", "row_2", "row_3"]:
            rep.violation("C12.eigen-layout", prog, ctor, None, "mat33 constructor does not store its k-th argument as row k", "mat33::mat33(row_1,row_2,row_3) must store its arguments as the rows in order; found %s" % got)
            return
    # (b) transpose: result(R,C) <- this(X,Y)
    tr = prog.fn("mat33::transpose")
    perm = {}
    for n in walk(tr["body"]):
        if n.get("k") == "BinaryOperator" and n.get("op") == "=":
            l, r = _row_idx(render(n["c"][0])), _row_idx(render(n["c"][1]))
            if l and r and l[0] is not None and r[0] is None:
                perm[(l[1], l[2])] = (r[1], r[2])
    if len(perm) != 9:
        raise AnalysisBroken("mat33::transpose: %d element assignments recognised" % len(perm))
    if any(perm[(r, c)] != (c, r) for r in range(3) for c in range(3)):
        rep.violation("C12.eigen-layout", prog, tr, None, "mat33::transpose is not the transpose", "mat33::transpose must set result(r,c) = this(c,r); found %s" % sorted(perm.items()))
        return
    rep.ok("C12.eigen-layout", prog, tr, None, "transpose: result(r,c) = this(c,r) for the nine entries; constructor stores argument k as row k")
    # (c) get_col(k) -> (M[0][k], M[1][k], M[2][k])
    gc = prog.fn("mat33::get_col")
    cols = {}
    for r in walk(gc["body"]):
        if r.get("k") == "ReturnStmt":
            args = [x for x in walk(r) if x.get("k") in ("CXXConstructExpr", "CXXTemporaryObjectExpr") and x.get("cls") == "vec3" and len(x.get("c", [])) == 3]
            if args:
                tri = [_row_idx(render(a)) for a in args[0]["c"]]
                if all(tri) and [t[1] for t in tri] == [0, 1, 2] and len({t[2] for t in tri}) == 1:
                    cols[len(cols)] = tri[0][2]
    fi = prog.index(gc)
    # the k-th return is guarded by i == k (if / else-if / else chain in order)
    if cols != {0: 0, 1: 1, 2: 2}:
        rep.violation("C12.eigen-layout", prog, gc, None, "get_col(k) does not return column k", "mat33::get_col must return (row_1_[k], row_2_[k], row_3_[k]) for k = 0,1,2 in its three branches; found %s" % cols)
        return
    conds = [render(x["cond"]).replace(" ", "").strip("()") for x in walk(gc["body"]) if x.get("k") == "IfStmt"]
    if conds != ["i==0", "i==1"]:
        raise AnalysisBroken("mat33::get_col: branch conditions %s" % conds)
    rep.ok("C12.eigen-layout", prog, gc, None, "get_col(k) = (row_1_[k], row_2_[k], row_3_[k])")
    # (d) eigen_decomposition: M(r,c) = evec[i][j] after the constructor and the transposes
    T = None
    mvar = None
    vals = None
    for st in ed["body"]["c"]:
        for n in walk(st):
            if n.get("k") == "Var" and n.get("t", "").replace("const ", "") == "mat33" and isinstance(n.get("init"), dict):
                cells = re.findall(r"eigen_vectors\[(\d)\]\[(\d)\]", render(n["init"]))
                if len(cells) == 9:
                    T = {(i // 3, i % 3): (int(a), int(b)) for i, (a, b) in enumerate(cells)}
                    mvar = n["name"]
            if n.get("k") == "Var" and n.get("t", "").replace("const ", "") == "vec3" and isinstance(n.get("init"), dict):
                v = re.findall(r"eigen_values\[(\d)\]", render(n["init"]))
                if len(v) == 3:
                    vals = [int(x) for x in v]
        if T is not None and st.get("k") != "DeclStmt":
            txt = render(st).replace(" ", "")
            if txt.startswith("(") and txt.endswith(")"):
                txt = txt[1:-1]
            if txt == "%s=%s.transpose()" % (mvar, mvar):
                T = {(r, c): T[(c, r)] for r in range(3) for c in range(3)}
            elif mvar in txt and st.get("k") != "ReturnStmt":
                raise AnalysisBroken("eigen_decomposition: unrecognised statement on %s: %s" % (mvar, txt[:80]))
    ret = [render(r.get("value") or {}) for r in walk(ed["body"]) if r.get("k") == "ReturnStmt"]
    if T is None or vals is None or not ret or mvar not in ret[0]:
        raise AnalysisBroken("eigen_decomposition: matrix / eigenvalue vector construction not recognised")
    # (e) consumer: interpret the selection logic of get_cell_longest_axis for every weak ordering of (|l0|,|l1|,|l2|)
    import itertools
    la = prog.fn("cell::get_cell_longest_axis")
    comp = {"vec3::dx": 0, "vec3::dy": 1, "vec3::dz": 2}
    # the structured binding (eigen_values, eigen_vectors) of the decomposition
    evals_did = evecs_did = None
    for n in walk(la["body"]):
        if n.get("k") == "Decomposition" and "eigen_decomposition" in render(n.get("init") or {}):
            b = n.get("bindings", [])
            if len(b) == 2:
                evals_did, evecs_did = b[0]["did"], b[1]["did"]
    if evals_did is None:
        raise AnalysisBroken("get_cell_longest_axis: result of eigen_decomposition is not bound by a structured binding")

    class _Ret(Exception):
        def __init__(self, v):
            self.v = v

    def ev_(e, env, ranks):
        e = strip(e)
        k = e.get("k")
        if k in ("ParenExpr", "ExprWithCleanups", "MaterializeTemporaryExpr", "CXXBindTemporaryExpr") or (k in ("ImplicitCastExpr", "CXXStaticCastExpr", "CXXFunctionalCastExpr") and e.get("c")):
            return ev_(e["c"][0], env, ranks)
        if k == "IntegerLiteral":
            return int(e["v"])
        if k == "CXXBoolLiteralExpr":
            return bool(e["v"])
        if k == "DeclRefExpr":
            return env.get(e["ref"].get("did"))
        if k == "CallExpr" and e.get("callee") in ("std::abs", "abs", "std::fabs", "fabs"):
            return ev_(call_args(e)[0], env, ranks)
        if k == "CXXMemberCallExpr" and e.get("callee") in comp:
            o = strip(call_obj(e))
            if o.get("k") == "DeclRefExpr" and o["ref"].get("did") == evals_did:
                return ranks[comp[e["callee"]]]
            return None
        if k == "CXXMemberCallExpr" and e.get("callee") == "mat33::get_col":
            o = strip(call_obj(e))
            if o.get("k") == "DeclRefExpr" and o["ref"].get("did") == evecs_did:
                kk = ev_(call_args(e)[0], env, ranks)
                return ("col", kk)
            return None
        if k == "CXXMemberCallExpr" and e.get("callee") == "vec3::normalize":
            return ev_(call_obj(e), env, ranks)
        if k in ("CXXConstructExpr",) and len(e.get("c", [])) == 1:
            return ev_(e["c"][0], env, ranks)
        if k == "UnaryOperator" and e.get("op") == "!":
            v = ev_(e["c"][0], env, ranks)
            return None if v is None else (not v)
        if k == "ConditionalOperator":
            c = ev_(e["c"][0], env, ranks)
            return None if c is None else ev_(e["c"][1] if c else e["c"][2], env, ranks)
        if k == "BinaryOperator":
            op = e.get("op")
            a, b = ev_(e["c"][0], env, ranks), ev_(e["c"][1], env, ranks)
            if op == "&&":
                return False if (a is False or b is False) else (None if a is None or b is None else True)
            if op == "||":
                return True if (a is True or b is True) else (None if a is None or b is None else False)
            if a is None or b is None:
                return None
            try:
                return {">": a > b, "<": a < b, ">=": a >= b, "<=": a <= b, "==": a == b, "!=": a != b}.get(op)
            except TypeError:
                return None
        return None

    def run_(st, env, ranks):
        k = st.get("k")
        if k == "CompoundStmt":
            for c in st.get("c", []):
                run_(c, env, ranks)
        elif k == "DeclStmt":
            for d in st.get("decls", []):
                if d.get("k") == "Var" and isinstance(d.get("init"), dict):
                    env[d["did"]] = ev_(d["init"], env, ranks)
        elif k == "IfStmt":
            c = ev_(st["cond"], env, ranks)
            if c is None:
                raise S.Decline("condition %s cannot be interpreted" % short(st["cond"], 50))
            if c:
                run_(st["then"], env, ranks)
            elif isinstance(st.get("else"), dict):
                run_(st["else"], env, ranks)
        elif k == "ReturnStmt":
            raise _Ret(ev_(st["value"], env, ranks))
        else:
            e = strip(st)
            if e.get("k") in ("BinaryOperator", "CXXOperatorCallExpr") and e.get("op") == "=":
                l = strip(e["c"][0] if e["k"] == "BinaryOperator" else e["c"][1])
                r = e["c"][1] if e["k"] == "BinaryOperator" else e["c"][2]
                if l.get("k") == "DeclRefExpr":
                    env[l["ref"]["did"]] = ev_(r, env, ranks)

    body = la["body"].get("c", [])
    start = 0
    for i_, st in enumerate(body):
        if any(x.get("k") == "Decomposition" and x.get("bindings") and x["bindings"][0]["did"] == evals_did for x in walk(st)):
            start = i_ + 1
    n_ok = 0
    bad = None
    for ranks in itertools.product(range(3), repeat=3):
        mx = max(ranks)
        if list(ranks).count(mx) != 1:
            continue      # no unique dominant eigenvalue: any axis of the dominant eigenspace is acceptable
        dom = list(ranks).index(mx)
        env = {}
        try:
            for st in body[start:]:
                run_(st, env, ranks)
            raise S.Decline("no return reached")
        except _Ret as r_:
            res = r_.v
        except S.Decline as ex:
            raise AnalysisBroken("get_cell_longest_axis: %s" % ex)
        if not (isinstance(res, tuple) and res[0] == "col" and res[1] in (0, 1, 2)):
            raise AnalysisBroken("get_cell_longest_axis: the returned axis is not a column of the eigenvector matrix (%s)" % (res,))
        kcol = res[1]
        vec = [T[(r, kcol)] for r in range(3)]
        want = [(vals[dom], j) for j in range(3)]
        if vec == want:
            n_ok += 1
        elif bad is None:
            bad = (ranks, dom, kcol, vec)
    site = [n for n in walk(la["body"]) if is_call(n) and n.get("callee") == "mat33::get_col"]
    if bad is None and n_ok:
        for d_ in range(3):
            rep.ok("C12.eigen-layout", prog, la, site[min(d_, len(site) - 1)] if site else None, "when |eigenvalue %d| dominates, the returned axis is the eigenvector (evec[%d][0..2]) of that eigenvalue (all %d orderings with a unique maximum interpreted)" % (d_, vals[d_], n_ok))
    else:
        ranks, dom, kcol, vec = bad
        rep.violation("C12.eigen-layout", prog, la, site[0] if site else None, "axis for eigenvalue %d is not eigenvector %d" % (vals[dom], vals[dom]),
                      "get_cell_longest_axis: when eval[%d] dominates (ordering %s of the magnitudes), get_col(%d) of the matrix built by eigen_decomposition is (%s), not the eigenvector (evec[%d][0..2]) of that eigenvalue: constructor/transpose/get_col conventions no longer agree, the longest axis does not follow the cell"
                      % (vals[dom], ranks, kcol, ", ".join("evec[%d][%d]" % v for v in vec), vals[dom]))
