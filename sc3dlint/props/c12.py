"""C12 - volume, area, centroid, bounding box, normals: exact formula clauses (algebraic)."""
import re

import sympy as sp

from ..model import walk, strip, is_call, call_obj, call_args, render, short, AnalysisBroken
from .. import sym as S
from .c07 import cross
from . import c02

EXPLANATION = ("LF engine on cell.cpp: (1) the integrand accumulated by compute_volume is the scalar triple product x1.(x2 x x3) of the face's "
               "own three nodes (polynomial identity), followed by /6 and abs; the signed-volume loop of check_face_normal_orientation "
               "accumulates the same polynomial (sibling) and flips the faces (by reference) when it is negative; (2) update_face_normal_and_"
               "area sets area = |(x2-x1)x(x3-x1)|/2 and normal = that cross product normalised; (3) compute_centroid accumulates "
               "(x1+x2+x3)/3 * area(f) per used face and divides by area_; (4) compute_area sums get_area() over used faces only; (5) get_aabb "
               "keeps running minima/maxima per axis over used nodes, starting at +/-infinity, and returns (min xyz, max xyz) in that order; "
               "(6) get_cell_longest_axis accumulates (p_a - c_a)(p_b - c_b) into cov_ab for the matching axis pair, divides each by the "
               "number of live nodes and builds a symmetric matrix with matching indices; (7) index bookkeeping of the eigenvector matrix: with the "
               "solver's convention evec[k] = eigenvector of eval[k], the mat33 constructor (rows), transpose() (read from its nine assignments) "
               "and get_col(k) (read from its returns) compose so that the axis returned when eval[k] dominates is (evec[k][0..2]). Not decided: frame/permutation independence as such, "
               "correctness of the flood-fill orientation repair, eigen-solver accuracy.")
ASSUMPTIONS = ["gte::SymmetricEigensolver3x3 returns evec[k] as the eigenvector of eval[k] (its documented convention)", "loops are not executed: the per-iteration contribution is checked, the accumulation itself (+=) is matched structurally"]


def declare(rep):
    rep.rule("C12.volume-integrand", "compute_volume / signed volume accumulate x1.(x2 x x3) of the face's nodes; volume = |sum|/6", floor=3)
    rep.rule("C12.area-normal", "update_face_normal_and_area: area = |(x2-x1)x(x3-x1)|/2, normal = normalised cross product", floor=2)
    rep.rule("C12.centroid", "compute_centroid: sum over used faces of (x1+x2+x3)/3*area, divided by area_", floor=2)
    rep.rule("C12.area-sum", "compute_area: sum of get_area() over used faces only", floor=1)
    rep.rule("C12.aabb", "get_aabb: running min/max per axis over used nodes from +/-infinity, returned as (min xyz, max xyz)", floor=7)
    rep.rule("C12.eigen-layout", "the axis returned for eigenvalue k is (evec[k][0], evec[k][1], evec[k][2]): index bookkeeping through the mat33 constructor, transpose and get_col agrees between eigen_decomposition and get_cell_longest_axis", floor=3)
    rep.rule("C12.covariance", "get_cell_longest_axis: cov_ab accumulates (p_a-c_a)(p_b-c_b), normalised by the live node count, symmetric matrix", floor=7)


def accumulations(fn):
    """(target render, node) of 'X += E' statements inside loops"""
    out = []
    for n in walk(fn["body"]):
        if n.get("k") == "CompoundAssignOperator" and n.get("op") == "+=":
            out.append((render(n["c"][0]), n))
    return out


def face_nodes_positions(ev, face_path):
    x = []
    for k in (1, 2, 3):
        x.append([ev.sym("this.node_lst_[%s.n%d_id_].pos_.%s" % (face_path, k, c)) for c in ("dx_", "dy_", "dz_")])
    return x


def run(rep, prog, tier):
    if not rep.rules:
        declare(rep)
    volume(rep, prog)
    area_normal(rep, prog)
    centroid(rep, prog)
    area_sum(rep, prog)
    aabb(rep, prog)
    covariance(rep, prog)
    eigen_layout(rep, prog)


def triple(x):
    c = cross(x[1], x[2])
    return sp.expand(sum(x[0][i] * c[i] for i in range(3)))


def orientation_order(rep, prog, rule="C12.volume-integrand"):
    """check_face_normal_orientation decides 'inside-out' from the sign of the signed volume; that sign is the orientation of the
    surface only if it is summed over faces whose winding has already been made mutually consistent by the flood fill."""
    fn = prog.fn("cell::check_face_normal_orientation")
    fi = prog.index(fn)
    flips = [n for n in walk(fn["body"]) if n.get("k") == "CXXMemberCallExpr" and n.get("callee") == "face::swap_nodes"]
    var = None
    for f in flips:
        for cond, pol in fi.guards(f):
            c = strip(cond)
            if c.get("k") == "BinaryOperator" and c.get("op") in ("<", ">") and strip(c["c"][0]).get("k") == "DeclRefExpr":
                var = strip(c["c"][0])["ref"]
    if var is None:
        return None
    accs = [n for n in walk(fn["body"]) if n.get("k") == "CompoundAssignOperator" and n.get("op") in ("+=", "-=") and strip(n["c"][0]).get("k") == "DeclRefExpr" and strip(n["c"][0])["ref"].get("did") == var["did"]]
    winds = [n for n in walk(fn["body"]) if n.get("k") == "CXXMemberCallExpr" and n.get("callee") == "cell::check_face_winding_order"]
    if not accs or not winds:
        return var
    last = 0
    for w in winds:
        top = w
        for p_, slot, ch in fi.ancestors(w):
            if p_.get("k") in ("WhileStmt", "ForStmt", "CXXForRangeStmt", "DoStmt"):
                top = p_
        last = max(last, max(fi.order[id(x)] for x in walk(top)))
    early = [a for a in accs if fi.order[id(a)] < last]
    if early:
        rep.violation(rule, prog, fn, early[0], "signed volume summed before the windings are consistent",
                      "check_face_normal_orientation adds the contribution of a face to '%s' (line %s) before the flood fill (check_face_winding_order, up to line %s) has made the winding of all faces mutually consistent: "
                      "the sum mixes inward and outward wound triangles, its sign is not the orientation of the surface and changes with the position of the cell, so a correctly or wrongly wound input is flipped depending on where it lies"
                      % (var["name"], early[0].get("l"), max(w.get("l", 0) for w in winds)))
        return "violated"
    rep.ok(rule, prog, fn, accs[0], "the signed volume is summed after the flood fill has made all windings consistent")
    return var


def volume(rep, prog):
    ov = orientation_order(rep, prog)
    for qn, var in (("cell::compute_volume", "vol"), ("cell::check_face_normal_orientation", "signed_volume")):
        if qn.endswith("orientation") and ov == "violated":
            continue
        if qn.endswith("orientation") and isinstance(ov, dict):
            var = ov["name"]
        fn = prog.fn(qn)
        acc = [(t, n) for t, n in accumulations(fn) if t.split("#")[0] == var]
        if len(acc) != 1:
            raise AnalysisBroken("%s: accumulation into %s not found" % (qn, var))
        n = acc[0][1]
        ev = S.SymEval(prog, fn)
        try:
            e = sp.expand(sp.sympify(ev.ev(n["c"][1])))
        except S.Decline as ex:
            raise AnalysisBroken("%s: %s" % (prog.loc(fn, n), ex))
        # the face whose nodes are used
        faces = {m.group(1) for s_ in e.free_symbols for m in [re.match(r"^this\.node_lst_\[(.*)\.n[123]_id_\]\.pos_\.d[xyz]_$", s_.name)] if m}
        if len(faces) != 1:
            rep.violation("C12.volume-integrand", prog, fn, n, "%s: integrand mixes nodes of %d faces" % (var, len(faces)), "%s accumulates a term that is not built from the three nodes of one face" % qn)
            continue
        x = face_nodes_positions(ev, faces.pop())
        if sp.expand(e - triple(x)) == 0:
            rep.ok("C12.volume-integrand", prog, fn, n, "%s += x1.(x2 x x3) of the loop's own face" % var)
        else:
            rep.violation("C12.volume-integrand", prog, fn, n, "%s integrand is not the triple product" % var,
                          "%s accumulates %s, which differs from the scalar triple product x1.(x2 x x3) of the face's nodes by %s" % (qn, short(n["c"][1], 60), str(sp.expand(e - triple(x)))[:120].replace("this.node_lst_", "")))
    fn = prog.fn("cell::compute_volume")
    fi = prog.index(fn)
    loop = [n for n in walk(fn["body"]) if n.get("k") == "CXXForRangeStmt"][0]
    after = [s for s in fn["body"]["c"] if fi.order[id(s)] > max(fi.order[id(x)] for x in walk(loop))]
    div6 = [s for s in after if strip(s).get("k") == "CompoundAssignOperator" and strip(s).get("op") == "/=" and strip(strip(s)["c"][1]).get("v") in ("6", "6.0", "6.")]
    absd = [s for s in after if strip(s).get("k") == "BinaryOperator" and strip(s).get("op") == "=" and strip(strip(s)["c"][1]).get("callee") in ("std::abs", "abs", "std::fabs", "fabs")]
    ret = [s for s in after if s.get("k") == "ReturnStmt"]
    if div6 and absd and ret and render(strip(ret[0]["value"])) == render(strip(div6[0])["c"][0]):
        rep.ok("C12.volume-integrand", prog, fn, div6[0], "volume = |sum|/6")
    else:
        rep.violation("C12.volume-integrand", prog, fn, None, "volume is not |sum of triple products|/6", "compute_volume must divide the accumulated sum by 6 and take the absolute value before returning it")
    # orientation repair: flips by reference when the signed volume is negative
    fn = prog.fn("cell::check_face_normal_orientation")
    fi = prog.index(fn)
    flips = [n for n in walk(fn["body"]) if n.get("k") == "CXXMemberCallExpr" and n.get("callee") == "face::swap_nodes"]
    good = False
    for f in flips:
        loop = fi.enclosing(f, ("CXXForRangeStmt",))
        if loop is None or not loop["var"].get("t", "").endswith("&"):
            continue
        for cond, pol in fi.guards(f):
            c = strip(cond)
            if c.get("k") == "BinaryOperator" and c.get("op") == "<" and pol and render(c["c"][0]).split("#")[0] == "signed_volume" and float(strip(c["c"][1]).get("v", "1")) == 0.0:
                good = True
    if good:
        rep.ok("C12.volume-integrand", prog, fn, None, "if the signed volume is negative every used face is flipped (through a reference)")
    else:
        rep.violation("C12.volume-integrand", prog, fn, None, "inside-out cells are not flipped", "check_face_normal_orientation must, when the signed volume is negative, call swap_nodes() on every used face through a reference to the stored face")


def area_normal(rep, prog):
    try:
        try:
            nev = c02.face_normal_area(prog)
        except c02.NormalGuard as g:
            rep.violation("C12.area-normal", prog, g.fn, g.node, "face normal dropped under an absolute threshold", g.msg)
            rep.ok("C12.area-normal", prog, g.fn, None, "(area formula not evaluated)")
            return
        ev = S.SymEval(prog, prog.fn("cell::compute_volume"))
        code = c02.normal_substitution(ev, nev, "F")
        x = face_nodes_positions(ev, "F")
        n = cross([x[1][i] - x[0][i] for i in range(3)], [x[2][i] - x[0][i] for i in range(3)])
        nn = sp.expand(sum(c_ ** 2 for c_ in n))
        fn = [f for f in prog.fns("cell::update_face_normal_and_area") if f["params"][0]["t"].startswith("face")][0]
        ca = code[ev.sym("F.area_")]
        if sp.simplify(ca ** 2 - nn / 4) == 0 and sp.simplify(ca - sp.sqrt(nn) / 2) == 0:
            rep.ok("C12.area-normal", prog, fn, None, "area = |(x2-x1)x(x3-x1)|/2")
        else:
            rep.violation("C12.area-normal", prog, fn, None, "face area is not |cross|/2", "update_face_normal_and_area sets the area to %s" % str(ca)[:120])
        okn = True
        for i, c in enumerate(("dx_", "dy_", "dz_")):
            cn = code[ev.sym("F.normal_." + c)]
            if sp.simplify(cn * sp.sqrt(nn) - n[i]) != 0:
                okn = False
        if okn:
            rep.ok("C12.area-normal", prog, fn, None, "normal = (x2-x1)x(x3-x1)/|...| (winding order of the face)")
        else:
            rep.violation("C12.area-normal", prog, fn, None, "face normal is not the normalised cross product", "update_face_normal_and_area does not set the normal to the normalised (x2-x1)x(x3-x1): the cached normal no longer points to the side given by the winding")
    except S.Decline as e:
        raise AnalysisBroken("update_face_normal_and_area: %s" % e)


def centroid(rep, prog):
    fn = prog.fn("cell::compute_centroid")
    fi = prog.index(fn)
    tr = [n for n in walk(fn["body"]) if n.get("k") == "CXXMemberCallExpr" and n.get("callee") == "vec3::translate"]
    if len(tr) != 1:
        raise AnalysisBroken("compute_centroid: accumulation not found")
    ev = S.SymEval(prog, fn)
    try:
        v = [sp.sympify(c) for c in ev.record_of(ev.ev(call_args(tr[0])[0])).f.values()]
    except S.Decline as e:
        raise AnalysisBroken("%s: %s" % (prog.loc(fn, tr[0]), e))
    faces = {m.group(1) for c in v for s_ in c.free_symbols for m in [re.match(r"^this\.node_lst_\[(.*)\.n[123]_id_\]\.pos_\.d[xyz]_$", s_.name)] if m}
    if len(faces) == 1:
        fp = faces.pop()
        x = face_nodes_positions(ev, fp)
        A = ev.sym(fp + ".area_")
        if all(sp.expand(v[i] - (x[0][i] + x[1][i] + x[2][i]) / 3 * A) == 0 for i in range(3)):
            guarded = any(strip(c).get("callee") == "face::is_used" and pol for c, pol in fi.guards(tr[0]))
            if guarded:
                rep.ok("C12.centroid", prog, fn, tr[0], "per used face: centroid += (x1+x2+x3)/3 * area(f)")
            else:
                rep.violation("C12.centroid", prog, fn, tr[0], "unused faces contribute to the centroid", "the accumulation is not guarded by f.is_used()")
        else:
            rep.violation("C12.centroid", prog, fn, tr[0], "centroid contribution is not (x1+x2+x3)/3*area", "compute_centroid accumulates %s" % short(call_args(tr[0])[0], 80))
    else:
        rep.violation("C12.centroid", prog, fn, tr[0], "centroid contribution mixes faces", "the contribution is not built from one face")
    loop = [n for n in walk(fn["body"]) if n.get("k") == "CXXForRangeStmt"][0]
    after = [s for s in fn["body"]["c"] if fi.order[id(s)] > max(fi.order[id(x)] for x in walk(loop))]
    div = [s for s in after if "area_" in render(strip(s)) and "/" in render(strip(s))]
    if div and any(s.get("k") == "ReturnStmt" for s in after):
        rep.ok("C12.centroid", prog, fn, div[0], "divided by the total area area_")
    else:
        rep.violation("C12.centroid", prog, fn, None, "centroid not normalised by area_", "compute_centroid must divide the accumulated sum by area_")


def area_sum(rep, prog):
    fn = prog.fn("cell::compute_area")
    lam = [n for n in walk(fn["body"]) if n.get("k") == "LambdaExpr"]
    acc = [n for n in walk(fn["body"]) if n.get("k") == "CallExpr" and n.get("callee") == "std::accumulate"]
    ok = False
    if len(lam) == 1 and acc:
        rets = [n for n in walk(lam[0]["body"]) if n.get("k") == "ReturnStmt"]
        if len(rets) == 1:
            e = strip(rets[0]["value"])
            txt = render(e)
            p0 = lam[0]["params"][0]["name"]
            if e.get("k") == "BinaryOperator" and e.get("op") == "+" and render(e["c"][0]).split("#")[0] == p0:
                r = strip(e["c"][1])
                if r.get("k") == "ConditionalOperator" and strip(r["c"][0]).get("callee") == "face::is_used" and strip(r["c"][1]).get("callee") == "face::get_area" and strip(r["c"][2]).get("k") in ("FloatingLiteral", "IntegerLiteral") and float(strip(r["c"][2])["v"]) == 0.0:
                    init = strip(call_args(acc[0])[2])
                    ok = init.get("k") in ("FloatingLiteral",) and float(init["v"]) == 0.0 and "face_lst_" in render(call_args(acc[0])[0])
    if ok:
        rep.ok("C12.area-sum", prog, fn, acc[0], "accumulate over face_lst_ from 0.: sum + (is_used ? get_area : 0)")
    else:
        rep.violation("C12.area-sum", prog, fn, acc[0] if acc else None, "cell area is not the sum of the used faces' areas", "compute_area must return the sum of f.get_area() over the used faces of face_lst_, starting from 0.")


def aabb(rep, prog):
    fn = prog.fn("cell::get_aabb")
    fi = prog.index(fn)
    # axis of the structured bindings of to_array()
    axis = {}
    for n in walk(fn["body"]):
        if n.get("k") == "Decomposition" and "to_array" in render(n.get("init") or {}):
            for i, b in enumerate(n.get("bindings", [])):
                axis[b["did"]] = "xyz"[i]
    role = {}   # did of running local -> (kind, axis)
    for n in walk(fn["body"]):
        if n.get("k") != "IfStmt":
            continue
        c = strip(n["cond"])
        th = n["then"]
        sts = th.get("c", []) if th.get("k") == "CompoundStmt" else [th]
        if c.get("k") != "BinaryOperator" or c.get("op") not in ("<", ">") or len(sts) != 1:
            continue
        a = strip(sts[0])
        l, r = strip(c["c"][0]), strip(c["c"][1])
        if a.get("k") == "BinaryOperator" and a.get("op") == "=" and l.get("k") == "DeclRefExpr" and r.get("k") == "DeclRefExpr" and l["ref"]["did"] in axis:
            tl, tr_ = strip(a["c"][0]), strip(a["c"][1])
            kind = "min" if c["op"] == "<" else "max"
            good = tl.get("k") == "DeclRefExpr" and tl["ref"]["did"] == r["ref"]["did"] and tr_.get("k") == "DeclRefExpr" and tr_["ref"]["did"] == l["ref"]["did"]
            gs = fi.guards(n)
            used = any(strip(cc).get("callee") == "node::is_used" and pol for cc, pol in gs)
            only_used = all(strip(cc).get("callee") == "node::is_used" and pol for cc, pol in gs)
            if good and used and not only_used:
                rep.violation("C12.aabb", prog, fn, n, "aabb update of %s_%s is conditional on another test" % (kind, axis[l["ref"]["did"]]),
                              "%s is only evaluated when %s: each of the six running extrema must be updated for every used node independently (e.g. an 'else if' chain skips the maximum test for the node that sets the minimum, so the box is not tight for some node orders)" % (short(n["cond"], 50), "; ".join(("not " if not pol else "") + short(cc, 40) for cc, pol in gs if strip(cc).get("callee") != "node::is_used")))
                role[r["ref"]["did"]] = (kind, axis[l["ref"]["did"]])
            elif good and used:
                role[r["ref"]["did"]] = (kind, axis[l["ref"]["did"]])
                rep.ok("C12.aabb", prog, fn, n, "running %s of axis %s over used nodes" % (kind, axis[l["ref"]["did"]]))
            else:
                rep.violation("C12.aabb", prog, fn, n, "aabb update is not a running min/max of one axis", "%s: expected 'if(coord < m) m = coord' (or >) on the same variables, under n.is_used()" % short(n["cond"], 60))
    rets = [n for n in walk(fn["body"]) if n.get("k") == "ReturnStmt"]
    items = [x for x in walk(rets[0]["value"]) if x.get("k") == "DeclRefExpr" and x["ref"].get("dk") == "Var"] if rets else []
    got = [role.get(x["ref"]["did"]) for x in items]
    want = [("min", "x"), ("min", "y"), ("min", "z"), ("max", "x"), ("max", "y"), ("max", "z")]
    inits_ok = True
    for did, (kind, ax) in role.items():
        d = [v for v in walk(fn["body"]) if v.get("k") == "Var" and v.get("did") == did][0]
        txt = render(d.get("init") or {})
        neg = txt.startswith("-")
        if "infinity" not in txt or (kind == "min" and neg) or (kind == "max" and not neg):
            inits_ok = False
    if got == want and inits_ok:
        rep.ok("C12.aabb", prog, fn, rets[0], "returns (min_x,min_y,min_z,max_x,max_y,max_z); minima start at +inf, maxima at -inf")
    else:
        rep.violation("C12.aabb", prog, fn, rets[0] if rets else None, "aabb returned in the wrong order or badly initialised", "get_aabb returns %s (expected %s); initial values +/-infinity ok: %s" % (got, want, inits_ok))


def covariance(rep, prog):
    fn = prog.fn("cell::get_cell_longest_axis")
    fi = prog.index(fn)
    accs = accumulations(fn)
    found = {}
    for t, n in accs:
        m = re.match(r"^cov_([xyz])([xyz])", t)
        if not m:
            continue
        a, b = m.group(1), m.group(2)
        ev = S.SymEval(prog, fn, lazy_scalars=False)
        try:
            e = sp.expand(sp.sympify(ev.ev(n["c"][1])))
        except S.Decline as ex:
            raise AnalysisBroken("%s: %s" % (prog.loc(fn, n), ex))
        # expected: (p_a - c_a)(p_b - c_b) with p the loop node position, c the centroid local
        ps = {s_.name[-2]: s_ for s_ in e.free_symbols if re.search(r"\[\*n\]\.pos_\.d[xyz]_$", s_.name)}
        cs = {s_.name[-2]: s_ for s_ in e.free_symbols if s_ not in ps.values()}
        ok = False
        if a in ps and b in ps:
            ca = [s_ for s_ in e.free_symbols if s_ not in ps.values() and s_.name.endswith("d%s_" % a)]
            cb = [s_ for s_ in e.free_symbols if s_ not in ps.values() and s_.name.endswith("d%s_" % b)]
            if ca and cb and sp.expand(e - (ps[a] - ca[0]) * (ps[b] - cb[0])) == 0:
                ok = True
        did = strip(n["c"][0])["ref"]["did"]
        found[(a, b)] = did
        if ok:
            rep.ok("C12.covariance", prog, fn, n, "cov_%s%s += (p_%s - c_%s)(p_%s - c_%s)" % (a, b, a, a, b, b))
        else:
            rep.violation("C12.covariance", prog, fn, n, "cov_%s%s accumulates the wrong product" % (a, b), "%s does not accumulate (p_%s - c_%s)*(p_%s - c_%s)" % (short(n, 80), a, a, b, b))
    mats = [n for n in walk(fn["body"]) if n.get("k") in ("CXXConstructExpr", "CXXTemporaryObjectExpr") and n.get("cls") == "mat33"]
    good = False
    for m in mats:
        refs = [x["ref"]["did"] for x in walk(m) if x.get("k") == "DeclRefExpr" and x["ref"].get("dk") == "Var"]
        if len(refs) == 9:
            idx = "xyz"
            want = []
            for i in range(3):
                for j in range(3):
                    key = (idx[min(i, j)], idx[max(i, j)])
                    want.append(found.get(key))
            if refs == want:
                good = True
                rep.ok("C12.covariance", prog, fn, m, "covariance matrix is symmetric with entry (a,b) = cov_ab")
    if not good:
        rep.violation("C12.covariance", prog, fn, mats[0] if mats else None, "covariance matrix entries misplaced", "the 3x3 matrix handed to the eigen solver is not [[xx,xy,xz],[xy,yy,yz],[xz,yz,zz]]")


# ---- eigen layout: a 3x3 index interpreter ---------------------------------------------------------------
def _row_idx(txt):
    m = re.match(r"^(?:(\w+)\.)?row_([123])_\[(\d)\]$", txt.replace(" ", "").strip("()"))
    return (m.group(1), int(m.group(2)) - 1, int(m.group(3))) if m else None


def eigen_layout(rep, prog):
    ed = prog.fn("mat33::eigen_decomposition")
    # (a) constructor: row_k_ <- k-th parameter
    for ctor in [f for f in prog.fns("mat33::mat33") if f["key"].count("std::array<double, 3>") == 3]:
        got = {}
        for n in walk(ctor["body"]):
            if n.get("k") in ("BinaryOperator", "CXXOperatorCallExpr") and n.get("op") == "=":
                l, r = render(n["c"][-2]).replace(" ", ""), render(n["c"][-1]).replace(" ", "")
                m = re.match(r"^(?:this->)?row_([123])_$", l.strip("()"))
                m2 = re.search(r"row_([123])\b", r)
                if m and m2:
                    got[int(m.group(1))] = int(m2.group(1))
        pnames = [p_["name"] for p_ in ctor["params"]]
        if got != {1: 1, 2: 2, 3: 3} or pnames != ["row_1", "row_2", "row_3"]:
            rep.violation("C12.eigen-layout", prog, ctor, None, "mat33 constructor does not store its k-th argument as row k", "mat33::mat33(row_1,row_2,row_3) must store its arguments as the rows in order; found %s" % got)
            return
    # (b) transpose: result(R,C) <- this(X,Y)
    tr = prog.fn("mat33::transpose")
    perm = {}
    for n in walk(tr["body"]):
        if n.get("k") == "BinaryOperator" and n.get("op") == "=":
            l, r = _row_idx(render(n["c"][0])), _row_idx(render(n["c"][1]))
            if l and r and l[0] is not None and r[0] is None:
                perm[(l[1], l[2])] = (r[1], r[2])
    if len(perm) != 9:
        raise AnalysisBroken("mat33::transpose: %d element assignments recognised" % len(perm))
    if any(perm[(r, c)] != (c, r) for r in range(3) for c in range(3)):
        rep.violation("C12.eigen-layout", prog, tr, None, "mat33::transpose is not the transpose", "mat33::transpose must set result(r,c) = this(c,r); found %s" % sorted(perm.items()))
        return
    rep.ok("C12.eigen-layout", prog, tr, None, "transpose: result(r,c) = this(c,r) for the nine entries; constructor stores argument k as row k")
    # (c) get_col(k) -> (M[0][k], M[1][k], M[2][k])
    gc = prog.fn("mat33::get_col")
    cols = {}
    for r in walk(gc["body"]):
        if r.get("k") == "ReturnStmt":
            args = [x for x in walk(r) if x.get("k") in ("CXXConstructExpr", "CXXTemporaryObjectExpr") and x.get("cls") == "vec3" and len(x.get("c", [])) == 3]
            if args:
                tri = [_row_idx(render(a)) for a in args[0]["c"]]
                if all(tri) and [t[1] for t in tri] == [0, 1, 2] and len({t[2] for t in tri}) == 1:
                    cols[len(cols)] = tri[0][2]
    fi = prog.index(gc)
    # the k-th return is guarded by i == k (if / else-if / else chain in order)
    if cols != {0: 0, 1: 1, 2: 2}:
        rep.violation("C12.eigen-layout", prog, gc, None, "get_col(k) does not return column k", "mat33::get_col must return (row_1_[k], row_2_[k], row_3_[k]) for k = 0,1,2 in its three branches; found %s" % cols)
        return
    conds = [render(x["cond"]).replace(" ", "").strip("()") for x in walk(gc["body"]) if x.get("k") == "IfStmt"]
    if conds != ["i==0", "i==1"]:
        raise AnalysisBroken("mat33::get_col: branch conditions %s" % conds)
    rep.ok("C12.eigen-layout", prog, gc, None, "get_col(k) = (row_1_[k], row_2_[k], row_3_[k])")
    # (d) eigen_decomposition: M(r,c) = evec[i][j] after the constructor and the transposes
    T = None
    mvar = None
    vals = None
    for st in ed["body"]["c"]:
        for n in walk(st):
            if n.get("k") == "Var" and n.get("t", "").replace("const ", "") == "mat33" and isinstance(n.get("init"), dict):
                cells = re.findall(r"eigen_vectors\[(\d)\]\[(\d)\]", render(n["init"]))
                if len(cells) == 9:
                    T = {(i // 3, i % 3): (int(a), int(b)) for i, (a, b) in enumerate(cells)}
                    mvar = n["name"]
            if n.get("k") == "Var" and n.get("t", "").replace("const ", "") == "vec3" and isinstance(n.get("init"), dict):
                v = re.findall(r"eigen_values\[(\d)\]", render(n["init"]))
                if len(v) == 3:
                    vals = [int(x) for x in v]
        if T is not None and st.get("k") != "DeclStmt":
            txt = render(st).replace(" ", "")
            if txt.startswith("(") and txt.endswith(")"):
                txt = txt[1:-1]
            if txt == "%s=%s.transpose()" % (mvar, mvar):
                T = {(r, c): T[(c, r)] for r in range(3) for c in range(3)}
            elif mvar in txt and st.get("k") != "ReturnStmt":
                raise AnalysisBroken("eigen_decomposition: unrecognised statement on %s: %s" % (mvar, txt[:80]))
    ret = [render(r.get("value") or {}) for r in walk(ed["body"]) if r.get("k") == "ReturnStmt"]
    if T is None or vals is None or not ret or mvar not in ret[0]:
        raise AnalysisBroken("eigen_decomposition: matrix / eigenvalue vector construction not recognised")
    # (e) consumer
    la = prog.fn("cell::get_cell_longest_axis")
    uses = []
    for n in walk(la["body"]):
        if is_call(n) and n.get("callee") == "mat33::get_col":
            k = strip(call_args(n)[0]).get("v")
            uses.append((n, int(k) if k is not None and str(k).isdigit() else None))
    if len(uses) != 3:
        raise AnalysisBroken("get_cell_longest_axis: %d get_col calls" % len(uses))
    fi = prog.index(la)
    comp = {"dx": 0, "dy": 1, "dz": 2}
    seen = []
    for n, k in uses:
        # dominant component of the guard: the accessor on the left of every '>' of the enclosing if's condition
        iff = None
        for p_, slot, ch in fi.ancestors(n):
            if p_.get("k") == "IfStmt":
                iff, sl = p_, slot
                break
        dom = None
        if iff is not None and sl == "then":
            lefts = set(re.findall(r"abs\(eigen_values\.(d[xyz])\(\)\)>", render(iff["cond"]).replace(" ", "").replace("std::", "")))
            rights = set(re.findall(r">abs\(eigen_values\.(d[xyz])\(\)\)", render(iff["cond"]).replace(" ", "").replace("std::", "")))
            if len(lefts) == 1 and len(rights) == 2 and not (lefts & rights):
                dom = comp[next(iter(lefts))]
        elif iff is not None and sl == "else":
            rest = [c_ for c_ in range(3) if c_ not in seen]
            dom = rest[0] if len(rest) == 1 else None
        if dom is None or k is None:
            raise AnalysisBroken("get_cell_longest_axis: guard of get_col(%s) not recognised" % k)
        seen.append(dom)
        ev_index = vals[dom]
        vec = [T[(r, k)] for r in range(3)]
        want = [(ev_index, j) for j in range(3)]
        if vec == want:
            rep.ok("C12.eigen-layout", prog, la, n, "largest |eigenvalue| in component %d (= eval[%d]) -> get_col(%d) = (evec[%d][0], evec[%d][1], evec[%d][2])" % (dom, ev_index, k, ev_index, ev_index, ev_index))
        else:
            rep.violation("C12.eigen-layout", prog, la, n, "axis for eigenvalue %d is not eigenvector %d" % (ev_index, ev_index),
                          "get_cell_longest_axis: when eval[%d] dominates, get_col(%d) of the matrix built by eigen_decomposition is (%s), not the eigenvector (evec[%d][0..2]) of that eigenvalue: constructor/transpose/get_col conventions no longer agree, the longest axis does not follow the cell" % (ev_index, k, ", ".join("evec[%d][%d]" % v for v in vec), ev_index))
