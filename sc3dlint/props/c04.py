"""C04 - growth, pressure, division trigger and removal follow the cell-cycle law (structural/algebraic clauses)."""
import re

import sympy as sp

from ..model import walk, strip, is_call, call_obj, call_args, render, short, always_exits, AnalysisBroken
from .. import sym as S
from .c10 import product_fns

EXPLANATION = ("LF engine + flow rules: (1) update_target_volume is V_t += dt*growth_rate_ followed by the clamp 'if(V_t < min_vol_) V_t = min_vol_' "
               "of the cell's own type; (2) update_pressure is pressure_ = -bulk_modulus_*log(volume_/target_volume_) followed by the clamp-above on "
               "max_pressure_; (3) apply_internal_forces (and every override that applies forces) refreshes normals/areas, area_, volume_ = "
               "compute_volume(), then target volume, then pressure, then the force routines, in this order; (4) is_ready_to_divide is overridden only "
               "by epithelial_cell as volume_ >= division_volume_ and the base returns false; (5) in initialize_random_properties each drawn "
               "variable is clamped to [mean - 3*std, mean + 3*std] of ITS OWN distribution; (6) the removal predicate is volume_ < min_vol_, applied "
               "to the population after the position update at the end of run_iteration, removed cells are cleared, and the only insertions into "
               "the population are the daughters appended by cell_divider::run; (7) the initial target volume is V*exp(p0/K) followed by "
               "update_pressure. Not decided: behaviour over volume trajectories; NaN/infinity cases of the logarithm.")
ASSUMPTIONS = ["branch conditions are matched as clamp idioms (if(x < b) x = b), not interpreted"]


def declare(rep):
    rep.rule("C04.growth-law", "update_target_volume: V_t += dt*growth_rate_; then clamped below by the type's min_vol_", floor=2)
    rep.rule("C04.pressure-law", "update_pressure: pressure_ = -K*log(V/V_t); then clamped above by the type's max_pressure_", floor=2)
    rep.rule("C04.update-order", "apply_internal_forces: geometry, area, volume, target volume, pressure, then forces", floor=1)
    rep.rule("C04.division-trigger", "is_ready_to_divide: base false; overridden only by epithelial_cell as volume_ >= division_volume_", floor=2)
    rep.rule("C04.three-sigma", "each drawn property is clamped to mean +/- 3*std of its own distribution", floor=4)
    rep.rule("C04.removal", "cells with volume_ < min_vol_ are removed at the end of run_iteration (after integration) and cleared; only daughters are ever inserted", floor=3)
    rep.rule("C04.initial-target", "initial target volume = V*exp(p0/K), then update_pressure", floor=1)


def clamp_of(ev, stmt):
    """(target path-ish render, op, bound value) for 'if(X op B) X = B'"""
    if stmt.get("k") != "IfStmt" or isinstance(stmt.get("else"), dict):
        return None
    c = strip(stmt["cond"])
    if c.get("k") != "BinaryOperator" or c.get("op") not in ("<", ">", "<=", ">="):
        return None
    th = stmt["then"]
    sts = th.get("c", []) if th.get("k") == "CompoundStmt" else [th]
    if len(sts) != 1:
        return None
    a = strip(sts[0])
    if not (a.get("k") == "BinaryOperator" and a.get("op") == "="):
        return None
    if render(a["c"][0]) != render(c["c"][0]):
        return None
    try:
        b1, b2 = ev.ev(c["c"][1]), ev.ev(a["c"][1])
    except S.Decline:
        return None
    if not ev.same(b1, b2):
        return ("mismatch", render(c["c"][0]), c["op"], b1, b2)
    return ("clamp", render(c["c"][0]), c["op"], b1, b2)


def run(rep, prog, tier):
    if not rep.rules:
        declare(rep)
    growth(rep, prog)
    pressure(rep, prog)
    order(rep, prog)
    trigger(rep, prog)
    three_sigma(rep, prog)
    removal(rep, prog)
    initial(rep, prog)


def growth(rep, prog):
    fn = prog.fn("cell::update_target_volume")
    ev = S.SymEval(prog, fn)
    stmts = [s for s in fn["body"]["c"] if strip(s).get("k") not in ("CXXStaticCastExpr",) and s.get("k") != "NullStmt"]
    stmts = [s for s in stmts if not (strip(s).get("k") == "CXXStaticCastExpr")]
    body = [s for s in fn["body"]["c"] if any(True for x in walk(s) if x.get("k") in ("BinaryOperator", "CompoundAssignOperator", "IfStmt") or s.get("k") == "IfStmt")]
    try:
        first = [s for s in fn["body"]["c"] if strip(s).get("k") in ("CompoundAssignOperator", "BinaryOperator")]
        if not first:
            raise S.Decline("no assignment")
        ev.exec_stmt(first[0])
        vt = ev.store.get("this.target_volume_")
        dt = sp.Symbol(fn["params"][0]["name"], real=True)
        exp = ev.sym("this.target_volume_") + dt * ev.sym("this.growth_rate_")
        if vt is not None and S.zero(sp.sympify(vt) - exp):
            rep.ok("C04.growth-law", prog, fn, first[0], "target_volume_ <- target_volume_ + time_step*growth_rate_")
        else:
            rep.violation("C04.growth-law", prog, fn, first[0], "target volume increment is not dt*growth_rate_", "update_target_volume sets target_volume_ to %s, expected target_volume_ + time_step*growth_rate_" % vt)
        ifs = [s for s in fn["body"]["c"] if s.get("k") == "IfStmt"]
        cl = clamp_of(S.SymEval(prog, fn), ifs[0]) if len(ifs) == 1 else None
        mv = S.SymEval(prog, fn).sym("this.cell_type_.min_vol_")
        fi = prog.index(fn)
        after = ifs and fi.order[id(ifs[0])] > fi.order[id(first[0])]
        if cl and cl[0] == "clamp" and cl[1] == "target_volume_" and cl[2] in ("<", "<=") and sp.sympify(cl[3]) == mv and after:
            rep.ok("C04.growth-law", prog, fn, ifs[0], "then: if(target_volume_ < min_vol_) target_volume_ = min_vol_")
        else:
            rep.violation("C04.growth-law", prog, fn, ifs[0] if ifs else None, "target volume not clamped below by min_vol_", "after the increment the target volume must be clamped: if(target_volume_ < cell_type_->min_vol_) target_volume_ = cell_type_->min_vol_ (found %s)" % (cl,))
    except S.Decline as e:
        raise AnalysisBroken("%s: %s" % (prog.loc(fn), e))


def pressure(rep, prog):
    fn = prog.fn("cell::update_pressure")
    ev = S.SymEval(prog, fn)
    try:
        assigns = [s for s in fn["body"]["c"] if strip(s).get("k") == "BinaryOperator" and strip(s).get("op") == "=" and render(strip(s)["c"][0]) == "pressure_"]
        if not assigns:
            raise S.Decline("pressure_ is never assigned")
        ev.exec_stmt(assigns[0])
        p = ev.store.get("this.pressure_")
        K, V, Vt = ev.sym("this.cell_type_.bulk_modulus_"), ev.sym("this.volume_"), ev.sym("this.target_volume_")
        if p is not None and sp.simplify(sp.sympify(p) + K * sp.log(V / Vt)) == 0:
            rep.ok("C04.pressure-law", prog, fn, assigns[0], "pressure_ = -bulk_modulus_*log(volume_/target_volume_)")
        else:
            rep.violation("C04.pressure-law", prog, fn, assigns[0], "pressure is not -K*log(V/V_target)", "update_pressure computes %s, expected -bulk_modulus_*log(volume_/target_volume_)" % p)
        ifs = [s for s in fn["body"]["c"] if s.get("k") == "IfStmt"]
        fi = prog.index(fn)
        good = False
        for i_ in ifs:
            cl = clamp_of(S.SymEval(prog, fn), i_)
            if cl and cl[0] == "clamp" and cl[1] == "pressure_" and cl[2] in (">", ">=") and sp.sympify(cl[3]) == ev.sym("this.cell_type_.max_pressure_") and fi.order[id(i_)] > fi.order[id(assigns[0])]:
                good = True
                rep.ok("C04.pressure-law", prog, fn, i_, "then: if(pressure_ > max_pressure_) pressure_ = max_pressure_")
        if not good:
            rep.violation("C04.pressure-law", prog, fn, None, "pressure not capped by max_pressure_", "after the logarithmic law the pressure must be capped: if(pressure_ > cell_type_->max_pressure_) pressure_ = cell_type_->max_pressure_")
    except S.Decline as e:
        raise AnalysisBroken("%s: %s" % (prog.loc(fn), e))


FORCE_FNS = ["cell::apply_pressure_on_surface", "cell::apply_surface_tension_and_membrane_elasticity", "cell::apply_bending_forces"]


def order(rep, prog):
    fn = prog.fn("cell::apply_internal_forces")
    fi = prog.index(fn)
    seq = []
    for s in fn["body"]["c"]:
        e = strip(s)
        if fi.enclosing(e, ("IfStmt", "ForStmt")) is not None:
            continue
        if e.get("k") == "BinaryOperator" and e.get("op") == "=":
            r = strip(e["c"][1])
            if is_call(r) and r.get("callee") in ("cell::compute_area", "cell::compute_volume"):
                seq.append((render(e["c"][0]) + "=" + r["callee"].split("::")[1], e))
        elif is_call(e) and e.get("callee", "").startswith("cell::"):
            seq.append((e["callee"].split("::")[1], e))
    names = [n for n, _ in seq]
    want = ["update_all_face_normals_and_areas", "area_=compute_area", "volume_=compute_volume", "update_target_volume", "update_pressure", "apply_pressure_on_surface"]
    pos = [names.index(w) if w in names else -1 for w in want]
    if -1 not in pos and pos == sorted(pos):
        rep.ok("C04.update-order", prog, fn, None, "order: %s" % " -> ".join(names))
    else:
        rep.violation("C04.update-order", prog, fn, None, "apply_internal_forces updates quantities out of order",
                      "apply_internal_forces must refresh face geometry, area_, volume_ = compute_volume(), then the target volume, then the pressure, and only then apply the pressure forces; found: %s" % " -> ".join(names))
    # the time step handed to update_target_volume is the one of apply_internal_forces
    for n, e in seq:
        if n == "update_target_volume":
            a = strip(call_args(e)[0])
            if not (a.get("k") == "DeclRefExpr" and a["ref"]["did"] == fn["params"][0]["did"]):
                rep.violation("C04.update-order", prog, fn, e, "update_target_volume not given the time step", "%s must pass apply_internal_forces' time_step" % short(e, 60))


def trigger(rep, prog):
    base = prog.fn("cell::is_ready_to_divide")
    rets = [n for n in walk(base["body"]) if n.get("k") == "ReturnStmt"]
    v = strip(rets[0]["value"]) if rets else {}
    if len(rets) == 1 and v.get("k") == "CXXBoolLiteralExpr" and not v.get("v"):
        rep.ok("C04.division-trigger", prog, base, rets[0], "cell::is_ready_to_divide returns false")
    else:
        rep.violation("C04.division-trigger", prog, base, None, "base is_ready_to_divide is not 'false'", "only epithelial cells divide: cell::is_ready_to_divide must return false")
    ovs = [f for f in prog.repo_functions() if f["name"] == "is_ready_to_divide" and f.get("cls") != "cell"]
    for f in ovs:
        if f.get("cls") != "epithelial_cell":
            rep.violation("C04.division-trigger", prog, f, None, "%s overrides is_ready_to_divide" % f.get("cls"), "only epithelial_cell may override is_ready_to_divide")
            continue
        rets = [n for n in walk(f["body"]) if n.get("k") == "ReturnStmt"]
        c = strip(rets[0]["value"]) if len(rets) == 1 else {}
        if c.get("k") == "BinaryOperator" and c.get("op") == ">=" and render(c["c"][0]) == "volume_" and render(c["c"][1]) == "division_volume_":
            rep.ok("C04.division-trigger", prog, f, rets[0], "epithelial_cell: volume_ >= division_volume_")
        else:
            rep.violation("C04.division-trigger", prog, f, rets[0] if rets else None, "division trigger is not volume_ >= division_volume_", "epithelial_cell::is_ready_to_divide returns %s; a cell is eligible exactly when its volume has reached its division volume" % (short(rets[0]["value"], 60) if rets else "?"))
    if not any(f.get("cls") == "epithelial_cell" for f in ovs):
        rep.violation("C04.division-trigger", prog, None, None, "epithelial_cell does not override is_ready_to_divide", "epithelial cells would never divide")


def three_sigma(rep, prog):
    fn = prog.fn("cell::initialize_random_properties")
    fi = prog.index(fn)
    for var, avg, std in (("growth_rate_", "avg_growth_rate_", "std_growth_rate_"), ("division_volume_", "avg_division_vol_", "std_division_vol_")):
        ev = S.SymEval(prog, fn)
        A, Sd = ev.sym("this.cell_type_." + avg), ev.sym("this.cell_type_." + std)
        found = {"<": None, ">": None}
        for n in walk(fn["body"]):
            if n.get("k") == "IfStmt":
                cl = clamp_of(S.SymEval(prog, fn), n)
                if cl and cl[1] == var:
                    found[cl[2][0]] = (cl, n)
        for op, exp, nm in ((">", A + 3 * Sd, "upper"), ("<", A - 3 * Sd, "lower")):
            got = found[op]
            if got and got[0][0] == "clamp" and S.zero(sp.sympify(got[0][3]) - exp):
                rep.ok("C04.three-sigma", prog, fn, got[1], "%s: %s bound = %s %s 3*%s" % (var, nm, avg, "+" if op == ">" else "-", std))
            else:
                rep.violation("C04.three-sigma", prog, fn, got[1] if got else None, "%s %s clamp is not mean %s 3 sigma of its own distribution" % (var, nm, "+" if op == ">" else "-"),
                              "the drawn %s must be clamped to %s %s 3*%s; found %s" % (var, avg, "+" if op == ">" else "-", std, re.sub(r"this\.cell_type_\.", "", str(got[0][3:]) if got else "no clamp")))
        # the distribution is built from the same mean / std
        dists = [n for n in walk(fn["body"]) if n.get("k") == "Var" and "normal_distribution" in n.get("t", "")]
        for d in dists:
            loopvars = [x for x in walk(fn["body"]) if x.get("k") == "BinaryOperator" and x.get("op") == "=" and render(x["c"][0]) == var and any(y.get("k") == "DeclRefExpr" and y["ref"]["did"] == d["did"] for y in walk(x["c"][1]))]
            if loopvars:
                args = [render(a) for a in call_args(strip(d["init"]))] if is_call(strip(d["init"])) else []
                if not (len(args) == 2 and args[0].endswith(avg) and args[1].endswith(std)):
                    rep.violation("C04.three-sigma", prog, fn, d, "%s drawn from a distribution with other parameters" % var, "%s is drawn from normal_distribution(%s), expected (%s, %s)" % (var, ", ".join(args), avg, std))


def removal(rep, prog):
    pred = prog.fn("cell::is_below_min_vol")
    rets = [n for n in walk(pred["body"]) if n.get("k") == "ReturnStmt"]
    c = strip(rets[0]["value"]) if len(rets) == 1 else {}
    if c.get("k") == "BinaryOperator" and c.get("op") == "<" and render(c["c"][0]) == "volume_" and render(c["c"][1]).endswith("min_vol_"):
        rep.ok("C04.removal", prog, pred, rets[0], "is_below_min_vol: volume_ < cell_type_->min_vol_")
    else:
        rep.violation("C04.removal", prog, pred, None, "removal predicate is not volume_ < min_vol_", "cell::is_below_min_vol returns %s" % (short(rets[0]["value"], 60) if rets else "?"))
    it = prog.fn("solver::run_iteration")
    fi = prog.index(it)
    erases = [n for n in walk(it["body"]) if n.get("k") == "CXXMemberCallExpr" and n.get("callee", "").endswith("::erase") and render(call_obj(n)).endswith("cell_lst_")]
    integ = [n for n in walk(it["body"]) if n.get("k") == "CXXMemberCallExpr" and n.get("callee") == "time_integration_scheme::update_nodes_positions"]
    ok = False
    if len(erases) == 1 and integ:
        e = erases[0]
        lam = [x for x in walk(e) if x.get("k") == "LambdaExpr"]
        rm = [x for x in walk(e) if x.get("k") == "CallExpr" and x.get("callee") == "std::remove_if"]
        if lam and rm and fi.order[id(e)] > fi.order[id(integ[0])] and fi.enclosing(e, ("IfStmt", "ForStmt")) is None:
            lrets = [x for x in walk(lam[0]["body"]) if x.get("k") == "ReturnStmt"]
            pred_ok = len(lrets) == 1 and strip(lrets[0]["value"]).get("callee") == "cell::is_below_min_vol"
            clears = [x for x in walk(lam[0]["body"]) if x.get("k") == "CXXMemberCallExpr" and x.get("callee") == "cell::clear_data"]
            li = fi
            clear_ok = bool(clears) and any(strip(cnd).get("callee") == "cell::is_below_min_vol" and pol for cnd, pol in fi.guards(clears[0]))
            ends = [render(a) for a in call_args(e)]
            if pred_ok and clear_ok:
                ok = True
    if ok:
        rep.ok("C04.removal", prog, it, erases[0], "after update_nodes_positions: cell_lst_.erase(remove_if(is_below_min_vol -> clear_data), end)")
    else:
        rep.violation("C04.removal", prog, it, erases[0] if erases else None, "small cells are not removed at the end of the iteration", "run_iteration must, after the position update, erase exactly the cells for which is_below_min_vol() holds (clearing their data); found %d erase call(s)" % len(erases))
    # insertions into the population
    ins = []
    for g in product_fns(prog):
        if not isinstance(g.get("body"), dict):
            continue
        for n in walk(g["body"]):
            if n.get("k") == "CXXMemberCallExpr" and n.get("callee", "").split("::")[-1] in ("push_back", "insert", "emplace_back") and "shared_ptr<cell>" in n.get("callee", ""):
                tgt = render(call_obj(n))
                if g["qn"] in ("solver::run_iteration", "solver::run", "cell_divider::run") or tgt.endswith("cell_lst_"):
                    ins.append((g["qn"], tgt))
    bad = [i for i in ins if i[0] not in ("cell_divider::run",)]
    if not bad:
        rep.ok("C04.removal", prog, None, None, "the population only grows through cell_divider::run (%d insertion sites)" % len(ins))
    else:
        rep.violation("C04.removal", prog, None, None, "population grows outside cell_divider::run", "cells are inserted into the population by %s: a removed cell could reappear" % bad)


def initial(rep, prog):
    ctor = [f for f in prog.fns("solver::solver") if f.get("ctor") and len(f.get("params", [])) >= 2][0]
    fi = prog.index(ctor)
    calls = [n for n in walk(ctor["body"]) if n.get("k") == "CXXMemberCallExpr" and n.get("callee") == "cell::set_target_volume"]
    if len(calls) != 1:
        rep.violation("C04.initial-target", prog, ctor, None, "%d set_target_volume calls in the solver constructor" % len(calls), "the solver constructor must set each cell's initial target volume once")
        return
    ev = S.SymEval(prog, ctor)
    try:
        v = sp.sympify(ev.ev(call_args(calls[0])[0]))
    except S.Decline as e:
        raise AnalysisBroken("%s: %s" % (prog.loc(ctor, calls[0]), e))
    syms = {s_.name: s_ for s_ in v.free_symbols}
    vol = [s_ for n_, s_ in syms.items() if n_.endswith("volume_") or "get_volume" in n_]
    p0 = [s_ for n_, s_ in syms.items() if n_.endswith("initial_pressure_")]
    K = [s_ for n_, s_ in syms.items() if n_.endswith("bulk_modulus_")]
    nxt = [n for n in walk(ctor["body"]) if n.get("k") == "CXXMemberCallExpr" and n.get("callee") == "cell::update_pressure" and fi.order[id(n)] > fi.order[id(calls[0])]]
    if len(vol) == 1 and len(p0) == 1 and len(K) == 1 and sp.simplify(v - vol[0] * sp.exp(p0[0] / K[0])) == 0 and nxt:
        rep.ok("C04.initial-target", prog, ctor, calls[0], "target volume = V*exp(initial_pressure_/bulk_modulus_), then update_pressure()")
    else:
        rep.violation("C04.initial-target", prog, ctor, calls[0], "initial target volume is not V*exp(p0/K)", "the solver constructor sets the target volume to %s; expected volume*exp(initial_pressure_/bulk_modulus_) followed by update_pressure()" % re.sub(r"#\d+", "", str(v))[:140])
