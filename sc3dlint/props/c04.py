"""C04 - growth, pressure, division trigger and removal follow the cell-cycle law (structural/algebraic clauses)."""
import re

import sympy as sp

from ..model import walk, strip, is_call, call_obj, call_args, render, short, always_exits, AnalysisBroken
from .. import sym as S
from .c10 import product_fns

EXPLANATION = ("LF engine + flow rules: (1) update_target_volume is V_t += dt*growth_rate_ followed by the clamp 'if(V_t < min_vol_) V_t = min_vol_' "
               "of the cell's own type; (2) update_pressure is pressure_ = -bulk_modulus_*log(volume_/target_volume_) followed by the clamp-above on "
               "max_pressure_; (3) apply_internal_forces (and every override that applies forces) refreshes normals/areas, area_, volume_ = "
               "compute_volume(), then target volume, then pressure, then the force routines, in this order; (4) is_ready_to_divide is overridden only "
               "by epithelial_cell as volume_ >= division_volume_ and the base returns false; (5) in initialize_random_properties each drawn "
               "variable is clamped to [mean - 3*std, mean + 3*std] of ITS OWN distribution; (6) the removal predicate is volume_ < min_vol_, applied "
               "to the population after the position update at the end of run_iteration, removed cells are cleared, and the only insertions into "
               "the population are the daughters appended by cell_divider::run; (7) the initial target volume is V*exp(p0/K) followed by "
               "update_pressure. Not decided: behaviour over volume trajectories; NaN/infinity cases of the logarithm.")
ASSUMPTIONS = ["branch conditions are matched as clamp idioms (if(x < b) x = b), not interpreted"]


def declare(rep):
    rep.rule("C04.growth-law", "update_target_volume: V_t += dt*growth_rate_; then clamped below by the type's min_vol_", floor=2)
    rep.rule("C04.pressure-law", "update_pressure: pressure_ = -K*log(V/V_t); then clamped above by the type's max_pressure_", floor=2)
    rep.rule("C04.update-order", "apply_internal_forces: geometry, area, volume, target volume, pressure, then forces", floor=1)
    rep.rule("C04.division-trigger", "is_ready_to_divide: base false; overridden only by epithelial_cell as volume_ >= division_volume_", floor=2)
    rep.rule("C04.three-sigma", "each drawn property is clamped to mean +/- 3*std of its own distribution", floor=4)
    rep.rule("C04.removal", "cells with volume_ < min_vol_ are removed at the end of run_iteration (after integration) and cleared; only daughters are ever inserted", floor=3)
    rep.rule("C04.initial-target", "initial target volume = V*exp(p0/K), then update_pressure", floor=1)


def clamp_of(ev, stmt):
    """(target path-ish render, op, bound value) for 'if(X op B) X = B'"""
    if stmt.get("k") != "IfStmt" or isinstance(stmt.get("else"), dict):
        return None
    c = strip(stmt["cond"])
    if c.get("k") != "BinaryOperator" or c.get("op") not in ("<", ">", "<=", ">="):
        return None
    th = stmt["then"]
    sts = th.get("c", []) if th.get("k") == "CompoundStmt" else [th]
    if len(sts) != 1:
        return None
    a = strip(sts[0])
    if not (a.get("k") == "BinaryOperator" and a.get("op") == "="):
        return None
    if render(a["c"][0]) != render(c["c"][0]):
        return None
    try:
        b1, b2 = ev.ev(c["c"][1]), ev.ev(a["c"][1])
    except S.Decline:
        return None
    if not ev.same(b1, b2):
        return ("mismatch", render(c["c"][0]), c["op"], b1, b2)
    return ("clamp", render(c["c"][0]), c["op"], b1, b2)


def run(rep, prog, tier):
    if not rep.rules:
        declare(rep)
    growth(rep, prog)
    pressure(rep, prog)
    order(rep, prog)
    trigger(rep, prog)
    three_sigma(rep, prog)
    removal(rep, prog)
    initial(rep, prog)


def _final_store(prog, fn):
    ev = S.SymEval(prog, fn)
    for st_ in fn["body"].get("c", []):
        r = ev.exec_tolerant(st_)
        if r is not None:
            break
    return ev


def _early_exit_stores(prog, fn):
    """(if statement, evaluator) for every top-level 'if(c) return;' of fn: the state in which that path leaves the function"""
    from ..model import always_exits
    out = []
    top = fn["body"].get("c", [])
    for i, st_ in enumerate(top):
        if st_.get("k") == "IfStmt" and (always_exits(st_["then"]) or (isinstance(st_.get("else"), dict) and always_exits(st_["else"]))) and i < len(top) - 1:
            ev = S.SymEval(prog, fn)
            for prev in top[:i]:
                ev.exec_tolerant(prev)
            br = st_["then"] if always_exits(st_["then"]) else st_["else"]
            ev.exec_tolerant(br)
            out.append((st_, ev))
    return out


def growth(rep, prog):
    """update_target_volume(dt): the value the function leaves in target_volume_, as a symbolic expression, must be
    max(target_volume_ + dt*growth_rate_, min_vol_) - whatever the statement forms (+=, clamping if, std::max, locals)."""
    fn = prog.fn("cell::update_target_volume", required=False)
    if fn is None:
        # the helper was merged into its caller: the growth law is decided where target_volume_ is advanced now
        cands = [f for f in prog.repo_functions() if f.get("cls") == "cell" and isinstance(f.get("body"), dict) and f["name"] not in ("cell",) and f.get("params")
                 and any(x.get("k") in ("CompoundAssignOperator", "BinaryOperator") and x.get("op") in ("+=", "=") and render(x["c"][0]).replace("this->", "") == "target_volume_"
                         and any(y.get("k") == "MemberExpr" and (y.get("ref") or {}).get("name") == "growth_rate_" for y in walk(x["c"][1])) for x in walk(f["body"]))]
        if len(cands) != 1:
            raise AnalysisBroken("anchor function cell::update_target_volume not found and the growth of target_volume_ is not in exactly one other cell method (%d)" % len(cands))
        fn = cands[0]
        rep.note("C04.growth-law: cell::update_target_volume no longer exists; the law is decided in %s, where target_volume_ is advanced" % fn["qn"])
        # only the statements that write target_volume_ (the increment and its floor), on a fresh state
        ev = S.SymEval(prog, fn)
        for st_ in fn["body"].get("c", []):
            if any(x.get("k") in ("CompoundAssignOperator", "BinaryOperator") and (x.get("op") == "=" or x.get("k") == "CompoundAssignOperator") and render(x["c"][0]).replace("this->", "") == "target_volume_" for x in walk(st_)):
                ev.exec_tolerant(st_)
        merged = True
    else:
        merged = False
        ev = _final_store(prog, fn)
    vt = ev.store.get("this.target_volume_")
    dt = sp.Symbol(fn["params"][0]["name"], real=True)
    V0, g, mv = ev.sym("this.target_volume_"), ev.sym("this.growth_rate_"), ev.sym("this.cell_type_.min_vol_")
    inc = V0 + dt * g
    if vt is None:
        rep.violation("C04.growth-law", prog, fn, None, "target volume is not updated", "update_target_volume does not assign target_volume_")
        return
    v = sp.sympify(vt)
    # the un-clamped part
    core = v
    if isinstance(v, sp.Max) and len(v.args) == 2:
        rest = [a for a in v.args if sp.simplify(a - mv) != 0]
        core = rest[0] if len(rest) == 1 else v
    if S.zero(sp.expand(core - inc)):
        rep.ok("C04.growth-law", prog, fn, None, "target_volume_ <- target_volume_ + time_step*growth_rate_")
    else:
        rep.violation("C04.growth-law", prog, fn, None, "target volume increment is not dt*growth_rate_", "update_target_volume sets target_volume_ to %s, expected target_volume_ + time_step*growth_rate_ (then clamped below by min_vol_)" % re.sub(r"this\.|cell_type_\.", "", str(v)))
    early = []
    for ifs, ev2 in ([] if merged else _early_exit_stores(prog, fn)):
        w = ev2.store.get("this.target_volume_")
        w = sp.sympify(w) if w is not None else V0
        if not (isinstance(w, sp.Max) and any(sp.simplify(a - mv) == 0 for a in w.args)):
            early.append((ifs, w))
    if early:
        ifs, w = early[0]
        rep.violation("C04.growth-law", prog, fn, ifs, "a path leaves update_target_volume without the min_vol_ floor",
                      "when '%s' holds the function returns with target_volume_ = %s: the increment and the floor 'target volume never drops below the type's minimum volume' are skipped on that path "
                      "(e.g. a target volume set below min_vol_ by the initial-pressure formula or by a division is never corrected)" % (short(ifs["cond"], 60), re.sub(r"this\.|cell_type_\.", "", str(w))))
    elif isinstance(v, sp.Max) and any(sp.simplify(a - mv) == 0 for a in v.args) and len(v.args) == 2:
        rep.ok("C04.growth-law", prog, fn, None, "then clamped below: target_volume_ = max(..., min_vol_)")
    else:
        rep.violation("C04.growth-law", prog, fn, None, "target volume not clamped below by min_vol_", "after the increment the target volume must be clamped below by cell_type_->min_vol_ on every path; update_target_volume leaves %s" % re.sub(r"this\.|cell_type_\.", "", str(v)))


def pressure(rep, prog):
    """update_pressure: the value left in pressure_ must be min(-K*log(V/Vt), max_pressure_)."""
    fn = prog.fn("cell::update_pressure")
    ev = _final_store(prog, fn)
    p = ev.store.get("this.pressure_")
    K, V, Vt, pm = ev.sym("this.cell_type_.bulk_modulus_"), ev.sym("this.volume_"), ev.sym("this.target_volume_"), ev.sym("this.cell_type_.max_pressure_")
    if p is None:
        rep.violation("C04.pressure-law", prog, fn, None, "pressure is not updated", "update_pressure does not assign pressure_")
        return
    v = sp.sympify(p)
    # locals kept lazily (e.g. const double log_ratio = log(V/Vt)) are expanded
    for _ in range(4):
        v2, ch = ev.expand_once(v)
        if not ch:
            break
        v = v2
    core = v
    if isinstance(v, sp.Min) and len(v.args) == 2:
        rest = [a for a in v.args if sp.simplify(a - pm) != 0]
        core = rest[0] if len(rest) == 1 else v
    law = -K * sp.log(V / Vt)
    if sp.simplify(sp.expand_log(core - law, force=True)) == 0 or sp.simplify(core - law) == 0:
        rep.ok("C04.pressure-law", prog, fn, None, "pressure_ = -bulk_modulus_*log(volume_/target_volume_)")
    else:
        rep.violation("C04.pressure-law", prog, fn, None, "pressure is not -K*log(V/V_target)", "update_pressure computes %s, expected -bulk_modulus_*log(volume_/target_volume_)" % re.sub(r"this\.|cell_type_\.", "", str(core)))
    if isinstance(v, sp.Min) and len(v.args) == 2 and any(sp.simplify(a - pm) == 0 for a in v.args):
        rep.ok("C04.pressure-law", prog, fn, None, "then capped above: pressure_ = min(..., max_pressure_)")
    else:
        rep.violation("C04.pressure-law", prog, fn, None, "pressure not capped by max_pressure_ (only from above)", "after the logarithmic law the pressure must be capped from above by cell_type_->max_pressure_ and by nothing else; update_pressure leaves %s" % re.sub(r"this\.|cell_type_\.", "", str(v)))


FORCE_FNS = ["cell::apply_pressure_on_surface", "cell::apply_surface_tension_and_membrane_elasticity", "cell::apply_bending_forces"]


def order(rep, prog):
    fn = prog.fn("cell::apply_internal_forces")
    fi = prog.index(fn)
    seq = []
    def flat(b):
        for s_ in b.get("c", []):
            if s_.get("k") == "CompoundStmt":
                yield from flat(s_)         # a plain nested block (e.g. a helper inlined by the normaliser)
            else:
                yield s_
    for s in flat(fn["body"]):
        e = strip(s)
        if fi.enclosing(e, ("IfStmt", "ForStmt")) is not None:
            continue
        if e.get("k") == "BinaryOperator" and e.get("op") == "=":
            r = strip(e["c"][1])
            if is_call(r) and r.get("callee") in ("cell::compute_area", "cell::compute_volume"):
                seq.append((render(e["c"][0]) + "=" + r["callee"].split("::")[1], e))
        elif is_call(e) and e.get("callee", "").startswith("cell::"):
            seq.append((e["callee"].split("::")[1], e))
        elif e.get("k") == "CompoundAssignOperator" and render(e["c"][0]).replace("this->", "") == "target_volume_" and not any(n_ == "update_target_volume" for n_, _ in seq):
            seq.append(("update_target_volume", e))      # the helper's body merged into this function
    names = [n for n, _ in seq]
    want = ["update_all_face_normals_and_areas", "area_=compute_area", "volume_=compute_volume", "update_target_volume", "update_pressure", "apply_pressure_on_surface"]
    pos = [names.index(w) if w in names else -1 for w in want]
    # the data dependencies between the steps (a partial order: area_ and volume_, e.g., do not depend on each other)
    deps = [("update_all_face_normals_and_areas", "area_=compute_area"), ("volume_=compute_volume", "update_pressure"), ("update_target_volume", "update_pressure"),
            ("update_pressure", "apply_pressure_on_surface"), ("update_all_face_normals_and_areas", "apply_pressure_on_surface"), ("area_=compute_area", "apply_pressure_on_surface")]
    if -1 not in pos and all(names.index(a) < names.index(b) for a, b in deps):
        rep.ok("C04.update-order", prog, fn, None, "order: %s" % " -> ".join(names))
    else:
        rep.violation("C04.update-order", prog, fn, None, "apply_internal_forces updates quantities out of order",
                      "apply_internal_forces must refresh face geometry, area_, volume_ = compute_volume(), then the target volume, then the pressure, and only then apply the pressure forces; found: %s" % " -> ".join(names))
    # the time step handed to update_target_volume is the one of apply_internal_forces
    for n, e in seq:
        if n == "update_target_volume" and is_call(e):
            from ..model import expand
            a = strip(expand(fn, call_args(e)[0]))
            while a.get("k") == "ParenExpr" and a.get("c"):
                a = strip(a["c"][0])
            if not (a.get("k") == "DeclRefExpr" and a["ref"]["did"] == fn["params"][0]["did"]):
                rep.violation("C04.update-order", prog, fn, e, "update_target_volume not given the time step", "%s must pass apply_internal_forces' time_step" % short(e, 60))


def trigger(rep, prog):
    base = prog.fn("cell::is_ready_to_divide")
    rets = [n for n in walk(base["body"]) if n.get("k") == "ReturnStmt"]
    v = strip(rets[0]["value"]) if rets else {}
    if len(rets) == 1 and v.get("k") == "CXXBoolLiteralExpr" and not v.get("v"):
        rep.ok("C04.division-trigger", prog, base, rets[0], "cell::is_ready_to_divide returns false")
    else:
        rep.violation("C04.division-trigger", prog, base, None, "base is_ready_to_divide is not 'false'", "only epithelial cells divide: cell::is_ready_to_divide must return false")
    ovs = [f for f in prog.repo_functions() if f["name"] == "is_ready_to_divide" and f.get("cls") != "cell"]
    for f in ovs:
        if f.get("cls") != "epithelial_cell":
            rep.violation("C04.division-trigger", prog, f, None, "%s overrides is_ready_to_divide" % f.get("cls"), "only epithelial_cell may override is_ready_to_divide")
            continue
        rets = [n for n in walk(f["body"]) if n.get("k") == "ReturnStmt"]
        # the function's own logic interpreted for each way the two volumes can compare (below / equal / above / unordered = NaN)
        from .. import finite
        table = {}
        wrong = set()
        for order in ("lt", "eq", "gt", "un"):
            def atom(e, it, order=order):
                if e.get("k") == "BinaryOperator" and e.get("op") in ("<", "<=", ">", ">=", "==", "!="):
                    l, r = render(e["c"][0]).replace("this->", ""), render(e["c"][1]).replace("this->", "")
                    if {l, r} == {"volume_", "division_volume_"}:
                        o = order if l == "volume_" else {"lt": "gt", "gt": "lt"}.get(order, order)
                        return {"<": o == "lt", "<=": o in ("lt", "eq"), ">": o == "gt", ">=": o in ("gt", "eq"), "==": o == "eq", "!=": o != "eq"}[e["op"]]
                    if "division_volume_" in (l, r) and re.match(r"^\w+_$", l if r == "division_volume_" else r):
                        wrong.add(l if r == "division_volume_" else r)
                return NotImplemented
            try:
                table[order] = finite.Interp(atom).call(f)
            except finite.Unknown as u:
                raise AnalysisBroken("epithelial_cell::is_ready_to_divide: %s cannot be interpreted" % u)
        if wrong:
            rep.violation("C04.division-trigger", prog, f, rets[0] if rets else None, "division trigger compares %s with division_volume_" % ", ".join(sorted(wrong)),
                          "epithelial_cell::is_ready_to_divide compares %s (not the cell's current volume_) with division_volume_: a cell is eligible exactly when its volume has reached its division volume; with the target volume the cell divides while its real volume still lags behind (pressure cap, confinement)" % ", ".join(sorted(wrong)))
            continue
        if any(v is None for v in table.values()):
            raise AnalysisBroken("epithelial_cell::is_ready_to_divide: the returned value is not a function of how volume_ compares with division_volume_ that this checker can interpret (%s)" % table)
        if table == {"lt": False, "eq": True, "gt": True, "un": False}:
            rep.ok("C04.division-trigger", prog, f, rets[0], "epithelial_cell: ready exactly when volume_ >= division_volume_ (interpreted for below / equal / above / NaN)")
        else:
            rep.violation("C04.division-trigger", prog, f, rets[0] if rets else None, "division trigger is not volume_ >= division_volume_", "epithelial_cell::is_ready_to_divide returns %s for volume_ below / equal to / above / unordered with division_volume_; a cell is eligible exactly when its volume has reached its division volume (false, true, true, false)" % ([table[o_] for o_ in ("lt", "eq", "gt", "un")],))
    if not any(f.get("cls") == "epithelial_cell" for f in ovs):
        rep.violation("C04.division-trigger", prog, None, None, "epithelial_cell does not override is_ready_to_divide", "epithelial cells would never divide")


def three_sigma(rep, prog):
    """The value stored by the random branch, as a symbolic expression over the drawn sample: it must be
    max(mean - 3 sigma, min(sample, mean + 3 sigma)) with the mean and sigma of the field's OWN distribution, and the sample must
    come from normal_distribution(mean, sigma) of the same two parameters. Decided on the value, not on the statement forms
    (clamping ifs, std::min/max, a helper lambda)."""
    fn = prog.fn("cell::initialize_random_properties")
    top = fn["body"].get("c", [])
    for var, avg, std in (("growth_rate_", "avg_growth_rate_", "std_growth_rate_"), ("division_volume_", "avg_division_vol_", "std_division_vol_")):
        # the if statement whose two branches assign the field
        site = None
        for n in top:
            if n.get("k") == "IfStmt" and isinstance(n.get("else"), dict):
                def assigns(b):
                    return any(x.get("k") == "BinaryOperator" and x.get("op") == "=" and strip(x["c"][0]).get("k") == "MemberExpr" and strip(x["c"][0])["ref"].get("name") == var for x in walk(b))
                if assigns(n["then"]) and assigns(n["else"]):
                    site = n
        if site is None:
            raise AnalysisBroken("initialize_random_properties: the random / fixed branches of %s were not found" % var)
        vals = {}
        for br in ("then", "else"):
            ev = S.SymEval(prog, fn)
            for st_ in top:
                if st_ is site:
                    break
                if st_.get("k") != "IfStmt":
                    ev.exec_tolerant(st_)
            ev.exec_tolerant(site[br])
            vals[br] = (ev, ev.store.get("this." + var))
        A, Sd = vals["then"][0].sym("this.cell_type_." + avg), vals["then"][0].sym("this.cell_type_." + std)
        # which branch is the random one: the one whose value is not simply the mean
        rnd = "then" if vals["else"][1] is not None and S.zero(sp.sympify(vals["else"][1]) - A) else ("else" if vals["then"][1] is not None and S.zero(sp.sympify(vals["then"][1]) - A) else None)
        if rnd is None:
            rep.violation("C04.three-sigma", prog, fn, site, "%s: the non-random branch does not store the mean" % var, "when the standard deviation is zero %s must be %s; found %s / %s" % (var, avg, vals["then"][1], vals["else"][1]))
            continue
        v = sp.sympify(vals[rnd][1]) if vals[rnd][1] is not None else None
        lo, hi = A - 3 * Sd, A + 3 * Sd
        ok = False
        sample = None
        if v is not None:
            unknown = [a for a in v.free_symbols if a not in (A, Sd)]
            if len(unknown) == 1:
                sample = unknown[0]
                want = sp.Max(lo, sp.Min(sample, hi))
                # compare as functions of the sample on the three regimes (below, inside, above), sigma > 0
                ok = all(sp.simplify(v.subs(sample, p_) - want.subs(sample, p_)).subs(Sd, sp.Symbol("_s", positive=True)).simplify() == 0
                         for p_ in (lo - 1, A, hi + 1))
                ok = ok and v.has(sp.Min) and v.has(sp.Max)
        if ok:
            rep.ok("C04.three-sigma", prog, fn, site, "%s = max(%s - 3*%s, min(sample, %s + 3*%s))" % (var, avg, std, avg, std))
            rep.ok("C04.three-sigma", prog, fn, site, "%s: both bounds belong to the field's own distribution" % var)
        else:
            rep.violation("C04.three-sigma", prog, fn, site, "%s is not clamped to mean +/- 3 sigma of its own distribution" % var,
                          "the drawn %s must end as max(%s - 3*%s, min(sample, %s + 3*%s)); the random branch stores %s" % (var, avg, std, avg, std, re.sub(r"this\.cell_type_\.|#\d+|@\d+", "", str(v))[:200]))
        # the distribution the sample is drawn from
        dists = [n for n in walk(site[rnd]) if n.get("k") == "Var" and "normal_distribution" in n.get("t", "")]
        if len(dists) != 1:
            raise AnalysisBroken("initialize_random_properties: normal_distribution of %s not found in its random branch" % var)
        d = dists[0]
        init = strip(d["init"]) if isinstance(d.get("init"), dict) else {}
        args = call_args(init) if is_call(init) else []
        evd = S.SymEval(prog, fn)
        for st_ in top:
            if st_ is site:
                break
            if st_.get("k") != "IfStmt":
                evd.exec_tolerant(st_)
        good = False
        if len(args) == 2:
            # parameters of an inlined helper are locals initialised with the arguments: execute up to the declaration
            def run_until(b):
                for st_ in (b.get("c", []) if b.get("k") == "CompoundStmt" else [b]):
                    if any(x is d for x in walk(st_)):
                        if st_.get("k") == "CompoundStmt":
                            return run_until(st_)
                        return True
                    evd.exec_tolerant(st_)
                return False
            run_until(site[rnd])
            try:
                a0, a1 = sp.sympify(evd.ev(args[0])), sp.sympify(evd.ev(args[1]))
                good = S.zero(a0 - A) and S.zero(a1 - Sd)
            except S.Decline:
                good = False
        if good:
            rep.ok("C04.three-sigma", prog, fn, d, "%s is drawn from normal_distribution(%s, %s)" % (var, avg, std))
        else:
            rep.violation("C04.three-sigma", prog, fn, d, "%s drawn from a distribution with other parameters" % var, "%s is drawn from normal_distribution(%s), expected (%s, %s)" % (var, ", ".join(render(a) for a in args), avg, std))


def removal(rep, prog):
    pred = prog.fn("cell::is_below_min_vol")
    rets = [n for n in walk(pred["body"]) if n.get("k") == "ReturnStmt"]
    c = strip(rets[0]["value"]) if len(rets) == 1 else {}
    if c.get("k") == "BinaryOperator" and c.get("op") == "<" and render(c["c"][0]) == "volume_" and render(c["c"][1]).endswith("min_vol_"):
        rep.ok("C04.removal", prog, pred, rets[0], "is_below_min_vol: volume_ < cell_type_->min_vol_")
    else:
        rep.violation("C04.removal", prog, pred, None, "removal predicate is not volume_ < min_vol_", "cell::is_below_min_vol returns %s" % (short(rets[0]["value"], 60) if rets else "?"))
    it = prog.fn("solver::run_iteration")
    fi = prog.index(it)
    from ..model import expand
    erases = [n for n in walk(it["body"]) if n.get("k") == "CXXMemberCallExpr" and n.get("callee", "").endswith("::erase") and render(call_obj(n)).endswith("cell_lst_")]
    integ = [n for n in walk(it["body"]) if n.get("k") == "CXXMemberCallExpr" and n.get("callee") == "time_integration_scheme::update_nodes_positions"]
    ok = False
    why = "found %d erase call(s) on cell_lst_" % len(erases)
    if len(erases) == 1 and integ:
        e = erases[0]
        a = call_args(e)
        from ..model import def_chain
        rm = [x for d_ in def_chain(it, a[0]) for x in walk(d_) if x.get("k") == "CallExpr" and x.get("callee") == "std::remove_if"] if a else []      # original nodes (indexed)
        uncond = all(p_.get("k") not in ("IfStmt", "ForStmt", "WhileStmt", "CXXForRangeStmt") for p_, _s, _c in fi.ancestors(e))
        if not rm:
            # erase(begin() + i) inside `for(i...; ...; i++)`: the element that follows slides into slot i; unless i is taken back
            # (or not advanced) in the erasing iteration, that element is never tested
            loop = fi.enclosing(e, ("ForStmt",))
            if loop is not None and isinstance(loop.get("init"), dict) and loop["init"].get("decls") and a:
                iv = loop["init"]["decls"][0]
                at_i = any(x.get("k") == "DeclRefExpr" and (x.get("ref") or {}).get("did") == iv.get("did") for x in walk(a[0])) and "begin" in render(a[0])
                inc = loop.get("inc")
                advances = isinstance(inc, dict) and any(x.get("k") == "UnaryOperator" and "++" in x.get("op", "") and strip(x["c"][0]).get("k") == "DeclRefExpr" and strip(x["c"][0])["ref"].get("did") == iv.get("did") for x in walk(inc))
                blk = fi.enclosing(e, ("CompoundStmt",))
                taken_back = blk is not None and any((x.get("k") == "UnaryOperator" and "--" in x.get("op", "") or x.get("k") == "CompoundAssignOperator" and x.get("op") == "-=") and strip(x["c"][0]).get("k") == "DeclRefExpr" and strip(x["c"][0])["ref"].get("did") == iv.get("did") and fi.order[id(x)] > fi.order[id(e)] for x in walk(blk))
                tests_pred = any(x.get("k") == "CXXMemberCallExpr" and x.get("callee") == "cell::is_below_min_vol" for c_, p_ in fi.guards(e) if p_ for x in walk(c_))
                if at_i and advances and not taken_back and tests_pred:
                    rep.violation("C04.removal", prog, it, e, "the cell behind an erased cell is never tested",
                                  "solver::run_iteration erases cell_lst_[%s] inside 'for(...; %s++)' and still advances %s in that iteration: the cell that slides into the freed slot is skipped, so of two neighbouring cells that fall below their minimum volume in the same iteration the second one stays in the population (with a volume below the minimum) until a later iteration" % (iv.get("name"), iv.get("name"), iv.get("name")))
                    return
            if any(x.get("k") == "CXXMemberCallExpr" and x.get("callee") == "cell::is_below_min_vol" for x in walk(it["body"])):
                raise AnalysisBroken("solver::run_iteration: the cells below the minimum volume are removed by a hand-written loop (erase without std::remove_if): which cells it erases is not decided by this checker")
            why = "the erased range does not start at std::remove_if(...)"
        elif not (fi.order[id(e)] > fi.order[id(integ[0])] and uncond):
            why = "the removal does not run unconditionally after update_nodes_positions"
        else:
            ra = call_args(rm[0])
            whole = len(ra) == 3 and render(ra[0]).replace(" ", "").endswith("cell_lst_.begin()}") | render(ra[0]).replace(" ", "").endswith("cell_lst_.begin()") and "cell_lst_.end()" in render(ra[1]) and len(a) == 2 and "cell_lst_.end()" in render(a[1])
            pred = strip(ra[2]) if len(ra) == 3 else {}
            while pred.get("k") in ("CXXConstructExpr", "MaterializeTemporaryExpr", "CXXBindTemporaryExpr", "ImplicitCastExpr") and pred.get("c"):
                pred = strip(pred["c"][0])
            pbody = pparam = None
            pfn = it
            if pred.get("k") == "LambdaExpr":
                pbody, pparam = pred["body"], (pred["params"][0]["did"] if pred.get("params") else None)
            elif pred.get("k") == "DeclRefExpr" and pred["ref"].get("dk") == "Var":
                for v_ in walk(it["body"]):
                    if v_.get("k") == "Var" and v_.get("did") == pred["ref"]["did"] and isinstance(v_.get("init"), dict) and strip(v_["init"]).get("k") == "LambdaExpr":
                        lam_ = strip(v_["init"])
                        pbody, pparam = lam_["body"], (lam_["params"][0]["did"] if lam_.get("params") else None)
            elif pred.get("k") == "DeclRefExpr" and pred["ref"].get("dk") == "Function":
                cands = [f for f in prog.fns(pred["ref"].get("qn") or pred["ref"]["name"]) if isinstance(f.get("body"), dict)]
                if len(cands) == 1:
                    pfn = cands[0]
                    pbody, pparam = pfn["body"], (pfn["params"][0]["did"] if pfn.get("params") else None)
            if not whole:
                why = "remove_if / erase do not range over the whole population"
            elif pbody is None:
                why = "the predicate handed to remove_if is neither a lambda nor a function of this program"
            else:
                pi = prog.index(pfn)
                def is_below(x, pol=True):
                    x = strip(x)
                    while x.get("k") == "UnaryOperator" and x.get("op") == "!":
                        pol = not pol
                        x = strip(x["c"][0])
                    if x.get("k") == "CXXMemberCallExpr" and x.get("callee") == "cell::is_below_min_vol":
                        return pol
                    return None
                rets = [r for r in walk(pbody, into_lambdas=False) if r.get("k") == "ReturnStmt" and isinstance(r.get("value"), dict)]
                good = bool(rets)
                for r in rets:
                    v = strip(r["value"])
                    if is_below(v) is True:
                        continue
                    if v.get("k") == "CXXBoolLiteralExpr":
                        implied = [is_below(c_, pol) for c_, pol in pi.guards(r)]
                        if (bool(v.get("v")) is True and True in implied) or (bool(v.get("v")) is False and False in implied):
                            continue
                    good = False
                clears = [x for x in walk(pbody) if x.get("k") == "CXXMemberCallExpr" and x.get("callee") == "cell::clear_data"]
                clear_ok = bool(clears) and any(is_below(c_, pol) is True for c_, pol in pi.guards(clears[0]))
                if good and clear_ok:
                    ok = True
                else:
                    why = "the predicate of remove_if does not return is_below_min_vol() on every path" if not good else "clear_data() is not called exactly for the cells below the minimum volume"
    if ok:
        rep.ok("C04.removal", prog, it, erases[0], "after update_nodes_positions: cell_lst_.erase(remove_if(is_below_min_vol -> clear_data), end)")
    else:
        rep.violation("C04.removal", prog, it, erases[0] if erases else None, "small cells are not removed at the end of the iteration", "run_iteration must, after the position update, erase exactly the cells for which is_below_min_vol() holds (clearing their data): %s" % why)
    # insertions into the population
    ins = []
    for g in product_fns(prog):
        if not isinstance(g.get("body"), dict):
            continue
        for n in walk(g["body"]):
            if n.get("k") == "CXXMemberCallExpr" and n.get("callee", "").split("::")[-1] in ("push_back", "insert", "emplace_back") and "shared_ptr<cell>" in n.get("callee", ""):
                tgt = render(call_obj(n))
                if g["qn"] in ("solver::run_iteration", "solver::run", "cell_divider::run") or tgt.endswith("cell_lst_"):
                    ins.append((g["qn"], tgt))
    bad = [i for i in ins if i[0] not in ("cell_divider::run",)]
    if not bad:
        rep.ok("C04.removal", prog, None, None, "the population only grows through cell_divider::run (%d insertion sites)" % len(ins))
    else:
        rep.violation("C04.removal", prog, None, None, "population grows outside cell_divider::run", "cells are inserted into the population by %s: a removed cell could reappear" % bad)


def initial(rep, prog):
    ctor = [f for f in prog.fns("solver::solver") if f.get("ctor") and len(f.get("params", [])) >= 2][0]
    fi = prog.index(ctor)
    calls = [n for n in walk(ctor["body"]) if n.get("k") == "CXXMemberCallExpr" and n.get("callee") == "cell::set_target_volume"]
    if len(calls) != 1:
        rep.violation("C04.initial-target", prog, ctor, None, "%d set_target_volume calls in the solver constructor" % len(calls), "the solver constructor must set each cell's initial target volume once")
        return
    ev = S.SymEval(prog, ctor)
    try:
        v = sp.sympify(ev.ev(call_args(calls[0])[0]))
    except S.Decline as e:
        raise AnalysisBroken("%s: %s" % (prog.loc(ctor, calls[0]), e))
    syms = {s_.name: s_ for s_ in v.free_symbols}
    vol = [s_ for n_, s_ in syms.items() if n_.endswith("volume_") or "get_volume" in n_]
    p0 = [s_ for n_, s_ in syms.items() if n_.endswith("initial_pressure_")]
    K = [s_ for n_, s_ in syms.items() if n_.endswith("bulk_modulus_")]
    nxt = [n for n in walk(ctor["body"]) if n.get("k") == "CXXMemberCallExpr" and n.get("callee") == "cell::update_pressure" and fi.order[id(n)] > fi.order[id(calls[0])]]
    if len(vol) == 1 and len(p0) == 1 and len(K) == 1 and sp.simplify(v - vol[0] * sp.exp(p0[0] / K[0])) == 0 and nxt:
        rep.ok("C04.initial-target", prog, ctor, calls[0], "target volume = V*exp(initial_pressure_/bulk_modulus_), then update_pressure()")
    else:
        rep.violation("C04.initial-target", prog, ctor, calls[0], "initial target volume is not V*exp(p0/K)", "the solver constructor sets the target volume to %s; expected volume*exp(initial_pressure_/bulk_modulus_) followed by update_pressure()" % re.sub(r"#\d+", "", str(v))[:140])
