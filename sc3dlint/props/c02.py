"""C02 - internal cell forces conserve momentum and derive from the stated energies (algebraic clauses)."""
import re

import sympy as sp

from ..model import walk, strip, is_call, call_obj, call_args, render, short, AnalysisBroken
from .. import sym as S
from .. import lints
from .c07 import force_blocks, cross

EXPLANATION = ("LF engine on cell.cpp's force routines, for all operand values: (1) tension/elasticity: the three add_force arguments of a "
               "face sum to zero, their torque sum(x_k x F_k) is zero, and each equals (-(surface tension of THIS face's type) + elasticity "
               "factor) * dA/dx_k where A = |(x2-x1)x(x3-x1)|/2 and the cached normal is the normalised cross product as computed by "
               "cell::update_face_normal_and_area (opened); (2) pressure: each of the three nodes of a face receives normal*pressure_*area/3 "
               "of that face; (3) angle regularisation: the three gradients returned by get_angle_gradient sum to zero (identity on its "
               "return expression), each node receives from each of the three calls the slot whose argument is that node's position, and "
               "the three forces sum to zero; (4) bending: in every term of the four hinge-angle gradients the normal, angle and area "
               "belong to the same face of the hinge (side tags from the data: f1/f2 of the edge), each of the four hinge nodes receives the "
               "gradient of its own slot; (5) every add_force argument of the five routines is invariant under a common translation. Not "
               "decided: zero net force/torque of the pressure and bending terms over a closed surface (global geometric identities), "
               "agreement of the pressure force with dV/dx beyond the per-face form, rotation equivariance.")
ASSUMPTIONS = ["the cached face normal/area are those computed by update_face_normal_and_area from the current node positions (apply_internal_forces refreshes them first)",
               "opaque geometric scalars (angles) are functions of coordinate differences only if their arguments are (checked)"]

ROUTINES = ["cell::apply_pressure_on_surface", "cell::apply_surface_tension_and_membrane_elasticity", "cell::apply_bending_forces", "cell::regularize_face_angles"]


def declare(rep):
    rep.rule("C02.normal-guard", "update_face_normal_and_area skips the normalisation only for an exactly zero norm (no absolute tolerance)", floor=1)
    rep.rule("C02.tension-ledger", "tension/elasticity: forces of a face sum to zero and have zero torque", floor=2)
    rep.rule("C02.tension-gradient", "tension/elasticity: force_k == (-tension(this face type) + elasticity factor) * dA/dx_k", floor=3)
    rep.rule("C02.pressure-form", "pressure: each node of a face receives normal*pressure_*area/3 of that face", floor=3)
    rep.rule("C02.angle-gradient-sum", "get_angle_gradient: the three returned gradients sum to zero", floor=1)
    rep.rule("C02.angle-slots", "angle regularisation: each node receives the gradient slot whose argument is its own position; forces sum to zero", floor=9)
    rep.rule("C02.bending-sides", "bending: in each term of the hinge-angle gradients normal, angle and area belong to the same face of the hinge", floor=4)
    rep.rule("C02.ledger-all-or-none", "the forces of one zero-sum ledger (all add_force calls of one face / hinge) are applied under the same conditions", floor=4)
    rep.rule("C02.slot-loop-bound", "no routine of class cell visits the node/face slots [0, live count): used elements behind a free slot would get no force", floor=3)
    rep.rule("C02.bending-stiffness", "bending: the forces on the four nodes of a hinge carry one common stiffness factor (their sum cannot vanish otherwise)", floor=1)
    rep.rule("C02.bending-receivers", "bending: the four hinge nodes (edge nodes, opposite nodes of f1 and f2) receive the gradients of their own slots", floor=4)
    rep.rule("C02.force-coverage", "tension/elasticity and pressure forces are applied to every used face: a condition under which a face is skipped must make that face's force vanish identically (e.g. a degenerate face), otherwise the formula does not hold for the skipped parameter values (zero tension with non-zero elasticity, ...)", floor=2)
    rep.rule("C02.angle-range", "vec3::get_angle_with returns the angle in [0, pi]: acos of the normalised dot product (or atan2(|a x b|, a.b)); an inverse function whose range ends at pi/2 (asin, one-argument atan) folds obtuse angles onto acute ones and breaks the cotangent identities the bending and angle-regularisation forces rest on", floor=2)
    rep.rule("C02.force-on-copy", "no force routine applies a force to a by-value copy of a node (`node& a = .., b = ..;` declares b as a copy): the force is lost and the forces of the face no longer cancel", floor=4)
    rep.rule("C02.translation", "every internal force is invariant under a common translation of the node positions", floor=10)


def vec(ev, v):
    return [sp.sympify(x) for x in ev.record_of(v).f.values()]


def is_pos_atom(name):
    return bool(re.search(r"\.pos_\.d[xyz]_$", name))


def run(rep, prog, tier):
    if not rep.rules:
        declare(rep)
    try:
        face_normal_area(prog)
        fnn = [f for f in prog.fns("cell::update_face_normal_and_area") if f["params"][0]["t"].startswith("face")][0]
        rep.ok("C02.normal-guard", prog, fnn, None, "the face normal is left un-normalised only for an exactly zero norm")
    except NormalGuard as g:
        rep.violation("C02.normal-guard", prog, g.fn, g.node, "face normal dropped under an absolute threshold", g.msg)
        rep.note("tension identities not evaluated: they depend on the normal computed by update_face_normal_and_area")
    else:
        tension(rep, prog)
    if not ledger_guards(rep, prog):
        return
    lints.check_slot_loops(rep, prog, "C02.slot-loop-bound", lambda cls, fn: cls == "cell")
    for qn in ROUTINES:
        for fn in prog.fns(qn):
            if not isinstance(fn.get("body"), dict):
                continue
            lost = list(lints.lost_update_on_local_copy(prog, fn))
            for v, m in lost:
                rep.violation("C02.force-on-copy", prog, fn, m, "'%s' is a copy of a node" % v.get("name"),
                              "%s declares '%s' (line %s) as a %s by value - a copy of the element it is initialised from - and then calls %s on it: the force goes to the temporary and is discarded, the other nodes of the face still receive theirs, so the internal forces of the face no longer sum to zero (a net force and torque appear on every face)" % (fn["qn"], v.get("name"), v.get("l"), v.get("t"), m.get("callee", "").split("::")[-1]))
            if not lost:
                rep.ok("C02.force-on-copy", prog, fn, None, "%s: every node / face that receives a force or is modified is a reference into the mesh" % fn["qn"])
    pressure(rep, prog)
    angle_range(rep, prog)
    angles(rep, prog)
    bending(rep, prog)
    translation(rep, prog)


def ledger_guards(rep, prog):
    """Every routine applies, per face or per hinge, a set of forces that cancel; they cancel only if all of them are applied.
    The add_force calls of one routine that share their innermost enclosing loop (or the function body) must therefore be
    guarded by the same chain of conditions."""
    rule = "C02.ledger-all-or-none"
    good = True
    for qn in ROUTINES:
        for fn in prog.fns(qn):
            if not isinstance(fn.get("body"), dict):
                continue
            fi = prog.index(fn)
            groups = {}
            for c in walk(fn["body"]):
                if c.get("k") == "CXXMemberCallExpr" and c.get("callee") == "node::add_force":
                    chain = []
                    scope = None
                    for p, slot, ch in fi.ancestors(c):
                        if p.get("k") in ("ForStmt", "CXXForRangeStmt", "WhileStmt", "DoStmt"):
                            scope = id(p)
                            break
                        if p.get("k") == "IfStmt" and slot in ("then", "else"):
                            chain.append((id(p), slot))
                        elif p.get("k") in ("ConditionalOperator", "SwitchStmt"):
                            chain.append((id(p), slot))
                    groups.setdefault(scope, []).append((c, tuple(chain)))
            # the vectors handed to add_force are the ones that were computed to cancel: a local that holds one of them is not
            # modified on its own (vec3::cap, normalize, +=, ...) between its computation and its application
            for scope, lst in groups.items():
                for c, _ch in lst:
                    a0 = strip(call_args(c)[0]) if call_args(c) else {}
                    while a0.get("k") in ("ImplicitCastExpr", "CXXConstructExpr", "MaterializeTemporaryExpr") and len([x for x in a0.get("c", []) if isinstance(x, dict)]) == 1:
                        a0 = strip([x for x in a0["c"] if isinstance(x, dict)][0])
                    if a0.get("k") != "DeclRefExpr" or (a0.get("ref") or {}).get("dk") != "Var":
                        continue
                    did = a0["ref"]["did"]
                    for m in walk(fn["body"]):
                        tgt = None
                        if m.get("k") == "CXXMemberCallExpr" and not m.get("cconst"):
                            tgt = strip(call_obj(m) or {})
                        elif m.get("k") in ("CompoundAssignOperator",) or (m.get("k") == "CXXOperatorCallExpr" and m.get("op") in ("+=", "-=", "*=", "/=", "=")):
                            tgt = strip(m["c"][0] if m["k"] == "CompoundAssignOperator" else m["c"][1])
                        if tgt is not None and tgt.get("k") == "DeclRefExpr" and (tgt.get("ref") or {}).get("did") == did and fi.order[id(m)] < fi.order[id(c)]:
                            good = False
                            rep.violation(rule, prog, fn, m, "a force of a zero-sum set is modified on its own before it is applied",
                                          "%s changes '%s' with '%s' (line %s) after the forces of the face / hinge were computed and before node::add_force (line %s): the forces of one term cancel only as they were computed - a change applied to each vector separately (a cap on its norm, a rescaling) takes effect for some nodes and not for others, and the term then exerts a net force and torque on the cell" % (fn["qn"], a0["ref"].get("name"), short(m, 50), m.get("l"), c.get("l")))
                            break
            for scope, lst in groups.items():
                if len(lst) < 2:
                    continue
                chains = {ch for _c, ch in lst}
                if len(chains) == 1:
                    rep.ok(rule, prog, fn, lst[0][0], "%d add_force calls under one common guard chain" % len(lst))
                else:
                    good = False
                    rep.violation(rule, prog, fn, lst[0][0], "forces of one ledger applied under different conditions",
                                  "%s: the %d add_force calls that together cancel (zero net force and torque of the term) are guarded by %d different condition chains (lines %s): "
                                  "when only some of them are applied the term exerts a net force on the cell" % (fn["qn"], len(lst), len(chains), ", ".join(str(c.get("l")) for c, _ in lst)))
    return good


class NormalGuard(Exception):
    def __init__(self, fn, node, msg):
        self.fn, self.node, self.msg = fn, node, msg


def face_normal_area(prog):
    """Symbolic (normal, area) of a face as cell::update_face_normal_and_area(face&) computes them."""
    fns = [f for f in prog.fns("cell::update_face_normal_and_area") if f["params"][0]["t"].startswith("face")]
    if len(fns) != 1:
        raise AnalysisBroken("cell::update_face_normal_and_area(face&) not found")
    fn = fns[0]
    # the only legitimate reason not to normalise is an exactly zero norm (division guard); a threshold is an
    # absolute tolerance that silently removes the normal of small faces
    for n in walk(fn["body"]):
        if n.get("k") == "ConditionalOperator":
            c = strip(n["c"][0])
            divides = any(x.get("k") == "CXXOperatorCallExpr" and x.get("op") == "/" for x in walk(n))
            if divides:
                lit = strip(c["c"][1]) if c.get("k") == "BinaryOperator" and len(c.get("c", [])) == 2 else {}
                exact = c.get("k") == "BinaryOperator" and c.get("op") in ("==", "!=") and lit.get("k") in ("FloatingLiteral", "IntegerLiteral") and float(lit["v"]) == 0.0
                if not exact:
                    raise NormalGuard(fn, n, "the normalisation of the face normal is skipped under '%s' instead of only for an exactly zero norm: faces whose (tiny but non-zero) area falls under that absolute threshold get a zero normal, so pressure and tension forces silently vanish on them (net force/torque no longer zero for small cells)" % short(c, 70))
    # same for the statement form: an if that returns early / assigns the results under a test of the norm
    stmts = []
    for st in fn["body"].get("c", []):
        if st.get("k") == "IfStmt" and any(x.get("k") == "ReturnStmt" or (x.get("k") == "CXXMemberCallExpr" and x.get("callee") in ("face::set_area", "face::set_normal")) for x in walk(st)):
            c = strip(st["cond"])
            lit = strip(c["c"][1]) if c.get("k") == "BinaryOperator" and len(c.get("c", [])) == 2 else {}
            exact = c.get("k") == "BinaryOperator" and c.get("op") == "==" and lit.get("k") in ("FloatingLiteral", "IntegerLiteral") and float(lit["v"]) == 0.0
            if not exact or st.get("else") is not None:
                raise NormalGuard(fn, st, "the face normal and area are not computed under '%s' (only an exactly zero norm is a legitimate reason): faces whose tiny but non-zero area falls under that absolute threshold get a zero area and a zero normal, "
                                          "so the cell area no longer is the sum of the triangle areas, does not scale with the square of a uniform scaling, and pressure and tension forces silently vanish on those faces" % short(c, 70))
            continue     # taken only for an exactly zero norm; the identities below are stated for a non-degenerate face (|n| > 0)
        stmts.append(st)
    ev = S.SymEval(prog, fn)
    try:
        ev.exec_block(stmts)
    except S.Decline as e:
        raise AnalysisBroken("update_face_normal_and_area cannot be opened: %s" % e)
    return ev


def reduce_L(expr, L, nn):
    """numerator of expr as a polynomial in L reduced with L^2 = nn (L = |n| > 0)"""
    num = sp.numer(sp.together(expr))
    num = sp.expand(num)
    poly = sp.Poly(num, L)
    out = 0
    for (p,), c in zip(poly.monoms(), poly.coeffs()):
        out += c * nn ** (p // 2) * L ** (p % 2)
    return sp.expand(out)


def force_coverage(rep, prog, fn, ev, calls, forces, what):
    """every condition that dominates the force block: is_used(), a test of the face's own area against zero (degenerate face: the
    gradient vanishes), or an (in)equality `X != c` whose negation X = c makes every force component identically zero"""
    from ..model import facts_at
    fi = prog.index(fn)
    n_extra = 0
    for atom, truth in facts_at(fn, fi, calls[0]):
        txt = render(atom).replace(" ", "")
        if atom.get("k") == "CXXMemberCallExpr" and atom.get("callee", "").endswith("::is_used"):
            if truth:
                continue
        if re.search(r"get_area\(\)|\.area_|->area_", txt) and atom.get("k") == "BinaryOperator" and strip(atom["c"][1]).get("k") in ("FloatingLiteral", "IntegerLiteral") and float(strip(atom["c"][1]).get("v", "1")) == 0.0:
            continue        # zero-area face: its area gradient is the zero vector
        if atom.get("k") == "CXXMemberCallExpr" and "isfinite" in txt:
            continue
        n_extra += 1
        neutral = None
        if atom.get("k") == "BinaryOperator" and atom.get("op") in ("==", "!=") and ((atom["op"] == "!=") == truth):
            # the block runs only when X != c: the skipped case is X == c
            for a_, b_ in ((atom["c"][0], atom["c"][1]), (atom["c"][1], atom["c"][0])):
                lit = strip(b_)
                if lit.get("k") in ("FloatingLiteral", "IntegerLiteral"):
                    try:
                        x_ = sp.sympify(ev.ev(a_))
                    except S.Decline:
                        x_ = None
                    if x_ is not None and x_.is_Symbol:
                        val = sp.nsimplify(float(lit["v"]))
                        neutral = all(ev.prove_zero(sp.sympify(c_).subs(x_, val)) for f_ in forces for c_ in f_)
        if neutral is None and atom.get("k") == "BinaryOperator" and atom.get("op") in ("<", "<=", ">", ">="):
            # the block is skipped for a whole range of values of X: the force would have to vanish on that range, which a force
            # that depends on X (polynomially) cannot do
            for a_, b_ in ((atom["c"][0], atom["c"][1]), (atom["c"][1], atom["c"][0])):
                if strip(b_).get("k") in ("FloatingLiteral", "IntegerLiteral"):
                    try:
                        x_ = sp.sympify(ev.ev(a_))
                    except S.Decline:
                        x_ = None
                    if x_ is not None and x_.is_Symbol:
                        dep = False
                        for f_ in forces:
                            for c_ in f_:
                                e_ = sp.sympify(c_)
                                for _ in range(4):
                                    e_, ch_ = ev.expand_once(e_)
                                    if not ch_:
                                        break
                                if x_ in e_.free_symbols:
                                    dep = True
                        if dep:
                            neutral = False
        if neutral:
            rep.ok("C02.force-coverage", prog, fn, atom, "%s: faces skipped by '%s' have an identically zero force" % (what, short(atom, 50)))
        elif neutral is False:
            rep.violation("C02.force-coverage", prog, fn, atom, "%s skipped for faces where it does not vanish" % what,
                          "%s applies the %s forces only when %s%s: for the faces it skips the force (%s) is not zero, so the force is no longer minus the derivative of the energy for those parameter values" % (fn["qn"], what, "" if truth else "not ", short(atom, 60), "the remaining terms of the force factor"))
        else:
            raise AnalysisBroken("%s: the %s forces are applied under the condition '%s%s' whose effect on the formula is not decided" % (prog.loc(fn, atom), what, "" if truth else "not ", short(atom, 60)))
    if n_extra == 0:
        rep.ok("C02.force-coverage", prog, fn, calls[0], "%s: the force block runs for every used (non-degenerate) face" % what)


def angle_range(rep, prog):
    fns = [f for f in prog.fns("vec3::get_angle_with") if isinstance(f.get("body"), dict)]
    if not fns:
        raise AnalysisBroken("vec3::get_angle_with not found")
    for fn in fns:
        inv = [x for x in walk(fn["body"]) if x.get("k") == "CallExpr" and x.get("callee") in ("std::acos", "std::asin", "std::atan", "std::atan2", "acos", "asin", "atan", "atan2")]
        if len(inv) != 1:
            raise AnalysisBroken("%s: %d inverse trigonometric calls; the range of the returned angle is not decided" % (fn["key"], len(inv)))
        c = inv[0]
        name = c["callee"].split("::")[-1]
        if name in ("asin", "atan"):
            rep.violation("C02.angle-range", prog, fn, c, "angle computed with %s (range ends at pi/2)" % name,
                          "%s computes the angle between two vectors as %s: the range of %s is [-pi/2, pi/2], so an obtuse angle theta is returned as pi - theta (or its negative); the hinge / corner angles of stretched or flattened triangles are wrong and the bending and regularisation forces no longer sum to zero" % (fn["key"], short(c, 70), name))
            continue
        try:
            ev = S.SymEval(prog, fn, lazy_scalars=False)
            a = [ev.sym("this.%s" % k_) for k_ in ("dx_", "dy_", "dz_")]
            pn = fn["params"][0]["name"]
            b = [ev.sym("%s.%s" % (pn, k_)) for k_ in ("dx_", "dy_", "dz_")]
            dot_ = sum(x * y for x, y in zip(a, b))
            na, nb = sp.sqrt(sum(x * x for x in a)), sp.sqrt(sum(x * x for x in b))
            args = [sp.sympify(ev.ev(x)) for x in call_args(c)]
            if name == "acos":
                good = ev.prove_zero(args[0] * na * nb - dot_)
            else:
                cr = cross(a, b)
                good = ev.prove_zero(args[1] - dot_) and ev.prove_zero(args[0] ** 2 - sum(x * x for x in cr))
        except S.Decline as e:
            raise AnalysisBroken("%s: %s" % (prog.loc(fn, c), e))
        if good:
            rep.ok("C02.angle-range", prog, fn, c, "%s: %s of the normalised dot product: range [0, pi]" % (fn["key"], name))
        else:
            rep.violation("C02.angle-range", prog, fn, c, "angle is not %s of the normalised dot product" % name, "%s: %s is not the angle between the two vectors (%s)" % (fn["key"], short(c, 70), getattr(ev, "last_witness", "")))


def tension(rep, prog):
    fn = prog.fn("cell::apply_surface_tension_and_membrane_elasticity")
    blocks = force_blocks(fn)
    if len(blocks) != 1:
        raise AnalysisBroken("tension routine: expected one force block, found %d" % len(blocks))
    blk, calls = blocks[0]
    try:
        ev = S.SymEval(prog, fn)
        recv, forces, poss = [], [], []
        for c in calls:
            o = ev.ev(call_obj(c))
            recv.append(o.path)
            forces.append(vec(ev, ev.ev(call_args(c)[0])))
            poss.append(vec(ev, ev.field(o, "pos_", "vec3")))
        tot = [sum(f[i] for f in forces) for i in range(3)]
        ok_sum = len(set(recv)) == 3 and all(ev.prove_zero(t) for t in tot)
        force_coverage(rep, prog, fn, ev, calls, forces, "tension / elasticity")
        fpath = face_path(recv[0])
        nodes = order_nodes(recv, fpath)
        x = [[ev.sym("%s.pos_.%s" % (r, c)) for c in ("dx_", "dy_", "dz_")] for r in nodes]
        n = cross([x[1][i] - x[0][i] for i in range(3)], [x[2][i] - x[0][i] for i in range(3)])
        nn = sp.expand(sum(c_ ** 2 for c_ in n))
        L = sp.Symbol("_L", positive=True)      # |n|, with L^2 = n.n
        # (a) the cached normal / area are n/|n| and |n|/2 as computed by update_face_normal_and_area (opened)
        nev = face_normal_area(prog)
        code = normal_substitution(ev, nev, fpath)
        for i, c in enumerate(("dx_", "dy_", "dz_")):
            cn = code[ev.sym("%s.normal_.%s" % (fpath, c))]
            if sp.simplify(cn * sp.sqrt(nn) - n[i]) != 0 and sp.simplify(sp.expand(cn ** 2 * nn - n[i] ** 2)) != 0:
                raise S.Decline("update_face_normal_and_area does not compute normal = (x2-x1)x(x3-x1)/|...| (component %s: %s)" % (c, cn))
        ca = code[ev.sym("%s.area_" % fpath)]
        if sp.simplify(ca ** 2 - nn / 4) != 0:
            raise S.Decline("update_face_normal_and_area does not compute area = |(x2-x1)x(x3-x1)|/2")
        sub = {ev.sym("%s.normal_.%s" % (fpath, c)): n[i] / L for i, c in enumerate(("dx_", "dy_", "dz_"))}
        sub[ev.sym("%s.area_" % fpath)] = L / 2
        # (b) torque
        tq = [0, 0, 0]
        for p_, f_ in zip(poss, forces):
            cr = cross(p_, f_)
            tq = [tq[i] + cr[i] for i in range(3)]
        ok_tq = all(reduce_L(t.subs(sub, simultaneous=True), L, nn) == 0 for t in tq)
        if ok_sum and ok_tq:
            rep.ok("C02.tension-ledger", prog, fn, blk, "forces on the three nodes of the face sum to zero; torque zero with normal = normalised (x2-x1)x(x3-x1)")
            rep.ok("C02.tension-ledger", prog, fn, blk, "receivers are the three distinct nodes %s" % ", ".join(re.sub(r"#\d+", "", r) for r in recv))
        else:
            rep.violation("C02.tension-ledger", prog, fn, blk, "tension forces of a face do not balance (%s)" % ("sum" if not ok_sum else "torque"),
                          "the three add_force arguments of apply_surface_tension_and_membrane_elasticity %s: the surface tension term adds net %s to the cell (%s)"
                          % ("do not sum to zero" if not ok_sum else "have a non-zero torque", "force" if not ok_sum else "torque", getattr(ev, "last_witness", "")))
        # (c) gradient form: force_k == K * dA/dx_k, dK/dgamma == -1, K common to the three nodes
        gamma = ev.sym("this.cell_type_.face_types_[%s.type_id_].surface_tension_" % fpath)
        Ks = []
        for k, (r, f_) in enumerate(zip(recv, forces)):
            idx = nodes.index(r)
            f_sub = [c_.subs(sub, simultaneous=True) for c_ in f_]
            dA = [sp.diff(nn, x[idx][i]) / (4 * L) for i in range(3)]     # d(|n|/2)/dx = d(nn)/dx / (4|n|)
            good = True
            K = None
            for i in range(3):
                dfg = sp.diff(f_sub[i], gamma)
                if reduce_L(dfg + dA[i], L, nn) != 0:
                    good = False
                    break
            if good:
                rests = [sp.expand(f_sub[i] - sp.diff(f_sub[i], gamma) * gamma) for i in range(3)]
                if any(gamma in r_.free_symbols for r_ in rests):
                    good = False
                else:
                    good = all(reduce_L(rests[i] * dA[(i + 1) % 3] - rests[(i + 1) % 3] * dA[i], L, nn) == 0 for i in range(3))
            if good:
                rep.ok("C02.tension-gradient", prog, fn, calls[k], "force on node %d == (-surface_tension_(type of this face) + elasticity factor) * dA/dx" % (idx + 1))
            else:
                rep.violation("C02.tension-gradient", prog, fn, calls[k], "force on face node %d is not -(tension)*dA/dx" % (idx + 1),
                              "%s: the force is not minus the face's own effective tension times the derivative of the triangle area with respect to that node" % short(calls[k], 60))
    except S.Decline as e:
        raise AnalysisBroken("%s: %s" % (prog.loc(fn, blk), e))


def face_path(node_path):
    m = re.match(r"^this\.node_lst_\[(.*)\.n[123]_id_\]$", node_path)
    if not m:
        raise S.Decline("receiver %s is not node_lst_[f.n*_id_]" % node_path)
    return m.group(1)


def order_nodes(recv, fpath):
    out = []
    for k in (1, 2, 3):
        nm = "this.node_lst_[%s.n%d_id_]" % (fpath, k)
        if nm not in recv:
            raise S.Decline("node %d of the face is not among the receivers" % k)
        out.append(nm)
    return out


def normal_substitution(ev, nev, fpath):
    """{f.normal_.d*_: formula in the positions of f's nodes, f.area_: formula}"""
    sub = {}
    st = nev.store
    ren = {}
    for a_name, a in list(nev.atoms.items()):
        m = re.match(r"^this\.node_lst_\[f\.n([123])_id_\]\.pos_\.(d[xyz]_)$", a_name)
        if m:
            ren[a] = ev.sym("this.node_lst_[%s.n%s_id_].pos_.%s" % (fpath, m.group(1), m.group(2)))
    for c in ("dx_", "dy_", "dz_"):
        v = st.get("f.normal_." + c)
        if v is None:
            raise S.Decline("update_face_normal_and_area does not set the normal")
        sub[ev.sym("%s.normal_.%s" % (fpath, c))] = sp.sympify(v).subs(ren, simultaneous=True)
    a = st.get("f.area_")
    if a is None:
        raise S.Decline("update_face_normal_and_area does not set the area")
    sub[ev.sym("%s.area_" % fpath)] = sp.sympify(a).subs(ren, simultaneous=True)
    return sub


def pressure(rep, prog):
    fn = prog.fn("cell::apply_pressure_on_surface")
    blocks = force_blocks(fn)
    if len(blocks) != 1:
        raise AnalysisBroken("pressure routine: expected one force block")
    blk, calls = blocks[0]
    try:
        ev = S.SymEval(prog, fn)
        recv = [ev.ev(call_obj(c)).path for c in calls]
        fpath = face_path(recv[0])
        order_nodes(recv, fpath)
        p = ev.sym("this.pressure_")
        force_coverage(rep, prog, fn, ev, calls, [vec(ev, ev.ev(call_args(c_)[0])) for c_ in calls], "pressure")
        for c in calls:
            f_ = vec(ev, ev.ev(call_args(c)[0]))
            exp = [ev.sym("%s.normal_.%s" % (fpath, k)) * p * ev.sym("%s.area_" % fpath) / 3 for k in ("dx_", "dy_", "dz_")]
            if all(S.zero(f_[i] - exp[i]) for i in range(3)):
                rep.ok("C02.pressure-form", prog, fn, c, "%s receives normal*pressure_*area/3 of its face" % re.sub(r"#\d+", "", render(call_obj(c))))
            else:
                rep.violation("C02.pressure-form", prog, fn, c, "pressure force is not normal*pressure_*area/3",
                              "%s applies %s instead of (face normal)*(cell pressure)*(face area)/3 of the same face" % (short(c, 60), re.sub(r"#\d+", "", str(f_[0]))[:100]))
    except S.Decline as e:
        raise AnalysisBroken("%s: %s" % (prog.loc(fn, blk), e))


def angles(rep, prog):
    g = prog.fn("cell::get_angle_gradient")
    rets = [n for n in walk(g["body"]) if n.get("k") == "ReturnStmt" and isinstance(n.get("value"), dict)]
    final = rets[-1]
    try:
        ev = S.SymEval(prog, g, lazy_scalars=True)
        v = ev.ev(final["value"])
        if not (isinstance(v, S.Tup) and len(v.items) == 3):
            raise S.Decline("get_angle_gradient does not return three vectors")
        gs = [vec(ev, x) for x in v.items]
        tot = [sum(gk[i] for gk in gs) for i in range(3)]
        if all(ev.prove_zero(t) for t in tot):
            rep.ok("C02.angle-gradient-sum", prog, g, final, "grad_i + grad_j + grad_k == 0 (component identity)")
        else:
            rep.violation("C02.angle-gradient-sum", prog, g, final, "angle gradients do not sum to zero", "the three gradients returned by get_angle_gradient do not sum to the zero vector (%s): the regularisation forces add net force to the cell" % getattr(ev, "last_witness", ""))
    except S.Decline as e:
        raise AnalysisBroken("%s: %s" % (prog.loc(g, final), e))
    fn = prog.fn("cell::regularize_face_angles")
    blocks = force_blocks(fn)
    if len(blocks) != 1:
        raise AnalysisBroken("regularize_face_angles: expected one force block")
    blk, calls = blocks[0]
    # the regularisation is proportional to angle_regularization_factor_: it may be skipped for a factor of exactly zero only
    from ..model import facts_at
    fi_ = prog.index(fn)
    n_f = 0
    for atom, truth in facts_at(fn, fi_, calls[0]):
        if "angle_regularization_factor_" not in render(atom):
            continue
        n_f += 1
        a = strip(atom)
        exact = a.get("k") == "BinaryOperator" and a.get("op") in ("==", "!=") and any(strip(c_).get("k") in ("FloatingLiteral", "IntegerLiteral") and float(strip(c_).get("v", "1")) == 0.0 for c_ in a["c"]) and ((a["op"] == "!=") == truth)
        if exact:
            rep.ok("C02.force-coverage", prog, fn, atom, "angle regularisation: skipped only for a factor of exactly zero (the force is proportional to the factor)")
        else:
            rep.violation("C02.force-coverage", prog, fn, atom, "angle regularisation switched off for a range of the factor",
                          "cell::regularize_face_angles applies its forces only when %s'%s': the force is proportional to angle_regularization_factor_, so it vanishes for a factor of exactly zero only - every other value the test excludes (the shipped parameter files use factors of 1e-16 and below) is read from the file and silently has no effect" % ("" if truth else "not ", short(atom, 70)))
    if n_f == 0:
        rep.ok("C02.force-coverage", prog, fn, calls[0], "angle regularisation: no condition on angle_regularization_factor_ around the force block")
    # bindings of the three calls
    binding = {}
    for n in walk(fn["body"]):
        if n.get("k") == "Decomposition" and isinstance(n.get("init"), dict):
            ci = strip(n["init"])
            if is_call(ci) and ci.get("callee") == "cell::get_angle_gradient":
                for i, b in enumerate(n.get("bindings", [])):
                    binding[b["did"]] = (ci, i, b["name"])
    try:
        ev = S.SymEval(prog, fn)
        total = [0, 0, 0]
        for c in calls:
            R = ev.ev(call_obj(c))
            rpos = ev.key_of(ev.field(R, "pos_", "vec3"))
            arg = call_args(c)[0]
            # follow the const local force_nK to its definition
            refs = []
            stack = [arg]
            seen = set()
            while stack:
                e = stack.pop()
                for x in walk(e):
                    if x.get("k") == "DeclRefExpr":
                        did = x["ref"]["did"]
                        if did in binding:
                            refs.append(did)
                        elif did not in seen:
                            seen.add(did)
                            d = ev._var_decl(did)
                            if isinstance(d, dict) and isinstance(d.get("init"), dict):
                                stack.append(d["init"])
            calls_used = {}
            for did in refs:
                ci, slot, name = binding[did]
                a = ev.ev(call_args(ci)[slot])
                ok = ev.key_of(a) == rpos
                calls_used.setdefault(id(ci), []).append((name, ok))
                if ok:
                    rep.ok("C02.angle-slots", prog, fn, c, "%s receives %s = gradient w.r.t. its own position" % (re.sub(r"#\d+", "", render(call_obj(c))), name))
                else:
                    rep.violation("C02.angle-slots", prog, fn, c, "%s receives %s, the gradient with respect to another node" % (re.sub(r"#\d+", "", render(call_obj(c))), name),
                                  "%s: '%s' is the gradient of the angle with respect to the position passed as argument %d of that get_angle_gradient call, which is not this node's position" % (short(c, 50), name, slot + 1))
            if len(calls_used) != 3:
                rep.violation("C02.angle-slots", prog, fn, c, "node receives gradients of %d of the 3 angles" % len(calls_used), "each node must receive one gradient from each of the three angle calls")
            f_ = vec(ev, ev.ev(arg))
            total = [total[i] + f_[i] for i in range(3)]
        # lemma: third = -first - second for every call atom
        sub = {}
        for t in total:
            for a in sp.sympify(t).free_symbols:
                m = re.match(r"^(cell::get_angle_gradient\(.*\))\.third\.(d[xyz]_)$", a.name)
                if m:
                    sub[a] = -ev.sym(m.group(1) + ".first." + m.group(2)) - ev.sym(m.group(1) + ".second." + m.group(2))
        tot = [sp.sympify(t).subs(sub, simultaneous=True) for t in total]
        if all(ev.prove_zero(t) for t in tot):
            rep.ok("C02.angle-slots", prog, fn, blk, "the three regularisation forces sum to zero (given grad_i+grad_j+grad_k = 0 per call)")
        else:
            rep.violation("C02.angle-slots", prog, fn, blk, "angle regularisation forces do not sum to zero", "the three add_force arguments of regularize_face_angles do not cancel (%s)" % getattr(ev, "last_witness", ""))
    except S.Decline as e:
        raise AnalysisBroken("%s: %s" % (prog.loc(fn, blk), e))


def side_of(name):
    s = set()
    if "f1_id_" in name:
        s.add(1)
    if "f2_id_" in name:
        s.add(2)
    return s


def bending(rep, prog):
    fn = prog.fn("cell::apply_bending_forces")
    blocks = force_blocks(fn)
    if len(blocks) != 1:
        raise AnalysisBroken("bending routine: expected one force block")
    blk, calls = blocks[0]
    grads = {}
    for n in walk(fn["body"]):
        if n.get("k") == "Var" and re.match(r"^grad_x[0-3]_theta$", n.get("name", "")):
            grads[n["name"]] = n
    if len(grads) != 4:
        raise AnalysisBroken("apply_bending_forces: the four hinge-angle gradients were not found")
    try:
        ev = S.SymEval(prog, fn)
        for name in sorted(grads):
            v = vec(ev, ev.ev(grads[name]["init"]))
            bad = None
            nterms = 0
            for comp in v:
                for term in sp.Add.make_args(sp.expand(comp)):
                    sides = set()
                    has_normal = False
                    for a in term.free_symbols:
                        sd = side_of(a.name)
                        # position atoms of the edge nodes carry no side
                        if re.search(r"\.normal_\.d[xyz]_$", a.name):
                            has_normal = True
                        if len(sd) == 2:
                            # an angle between the shared edge and an opposite node: its side is the opposite node's
                            pass
                        sides |= atom_side(a.name)
                    if term == 0:
                        continue
                    nterms += 1
                    if len(sides) > 1:
                        bad = (term, sides)
            if bad is None and nterms:
                rep.ok("C02.bending-sides", prog, fn, grads[name], "%s: every term combines the normal, angles and area of one face of the hinge" % name)
            else:
                rep.violation("C02.bending-sides", prog, fn, grads[name], "%s mixes the two faces of the hinge in one term" % name,
                              "%s contains the term %s, which multiplies a quantity of face f1 with a quantity of face f2 (normal of one face with the cotangent / area of the other): the four hinge gradients no longer sum to zero, so bending adds a net force (|e|/(2A)(n2-n1) per hinge) to the cell"
                              % (name, re.sub(r"#\d+", "", str(bad[0]))[:160] if bad else "?"))
        # receivers: n1,n2 edge nodes get x0,x1; n3 (opposite in f1) gets x2; n4 gets x3
        want = {0: "edge node 1", 1: "edge node 2", 2: "opposite node of f1", 3: "opposite node of f2"}
        for c in calls:
            R = ev.ev(call_obj(c)).path
            a = strip(call_args(c)[0])
            slot = None
            if a.get("k") == "DeclRefExpr":
                m = re.match(r"^f_bend_x([0-3])$", a["ref"]["name"])
                if m:
                    d = ev._var_decl(a["ref"]["did"])
                    uses = {x["ref"]["name"] for x in walk(d["init"]) if x.get("k") == "DeclRefExpr" and x["ref"]["name"].startswith("grad_x")}
                    ks = {int(u[6]) for u in uses}
                    if len(ks) == 1:
                        slot = ks.pop()
            role = None
            if re.search(r"node_lst_\[.*\.n1_id_\]$", R):
                role = 0
            elif re.search(r"node_lst_\[.*\.n2_id_\]$", R):
                role = 1
            elif "get_opposite_node" in R:
                role = 2 if side_of(R) == {1} else (3 if side_of(R) == {2} else None)
            if slot is not None and role == slot:
                rep.ok("C02.bending-receivers", prog, fn, c, "%s receives the gradients of slot x%d" % (want[role], slot))
            else:
                rep.violation("C02.bending-receivers", prog, fn, c, "hinge node receives the gradient of another slot", "%s: %s receives the force assembled from slot %s" % (short(c, 60), want.get(role, R), slot))
        bending_stiffness(rep, prog, fn, blk, calls)
        bending_coverage(rep, prog, fn, ev, calls)
    except S.Decline as e:
        raise AnalysisBroken("%s: %s" % (prog.loc(fn, blk), e))


def bending_coverage(rep, prog, fn, ev, calls):
    """a hinge is skipped because of a bending modulus only if the stiffness the forces carry vanishes for the skipped values"""
    from ..model import facts_at
    fi = prog.index(fn)
    # the stiffness: the scalar local that combines the bending moduli of the two faces
    stiff = None
    for v in walk(fn["body"]):
        if v.get("k") == "Var" and isinstance(v.get("init"), dict) and (v.get("t") or "").replace("const ", "").strip() in ("double", "float"):
            try:
                e = sp.sympify(ev.ev(v["init"]))
            except S.Decline:
                continue
            for _ in range(4):
                e, ch = ev.expand_once(e)
                if not ch:
                    break
            mods = [a for a in e.free_symbols if a.name.endswith("bending_modulus_")]
            if len(mods) >= 2:
                stiff = (v, e, mods)
    if stiff is None:
        return
    v, S_, mods = stiff
    found = False
    for atom, truth in facts_at(fn, fi, calls[0]):
        if atom.get("k") != "BinaryOperator" or atom.get("op") not in ("==", "!=") or ((atom["op"] == "!=") != truth):
            continue
        for a_, b_ in ((atom["c"][0], atom["c"][1]), (atom["c"][1], atom["c"][0])):
            lit = strip(b_)
            if lit.get("k") not in ("FloatingLiteral", "IntegerLiteral"):
                continue
            try:
                x_ = sp.sympify(ev.ev(a_))
            except S.Decline:
                continue
            if x_.is_Symbol and x_ in mods:
                found = True
                rest = sp.simplify(S_.subs(x_, sp.nsimplify(float(lit["v"]))))
                if rest == 0:
                    rep.ok("C02.force-coverage", prog, fn, atom, "bending: hinges skipped by '%s' have zero stiffness" % short(atom, 50))
                else:
                    rep.violation("C02.force-coverage", prog, fn, atom, "bending skipped for hinges whose stiffness does not vanish",
                                  "apply_bending_forces applies the hinge forces only when %s%s, but the stiffness they carry is %s = %s, which for the skipped value is %s: a hinge between a face type with a bending modulus and one without gets no force instead of half the modulus" % ("" if truth else "not ", short(atom, 60), v.get("name"), re.sub(r"this\.cell_type_\.face_types_\[[^\]]*\]\.", "", str(S_))[:80], re.sub(r"this\.cell_type_\.face_types_\[[^\]]*\]\.", "", str(rest))[:60]))
    if not found:
        rep.ok("C02.force-coverage", prog, fn, calls[0], "bending: no hinge is skipped because of the value of a bending modulus")


def bending_stiffness(rep, prog, fn, blk, calls):
    """The four hinge gradients (of the angle and of the in-plane term) sum to zero; the forces are these gradients times
    scalar factors. sum F = 0 needs the scalars of the four nodes to agree, in particular every one of them must depend on
    the bending moduli of the two faces through the same factor. Each force argument is evaluated with the vector locals it
    is assembled from kept opaque; every scalar coefficient c then has to satisfy c / c[moduli := 1] == S for one S."""
    rule = "C02.bending-stiffness"
    factors = []
    for c in calls:
        ev = S.SymEval(prog, fn)
        a = strip(call_args(c)[0])
        init = a
        if a.get("k") == "DeclRefExpr":
            d = ev._var_decl(a["ref"]["did"])
            if isinstance(d, dict) and isinstance(d.get("init"), dict):
                init = d["init"]
        k = 0
        for x in walk(init):
            if x.get("k") == "DeclRefExpr" and x["ref"].get("dk") == "Var" and S.clean_type(x.get("t", "")) == "vec3" and x["ref"]["did"] not in ev.overrides:
                ev.overrides[x["ref"]["did"]] = ev.obj("G%d_%s" % (k, x["ref"]["name"]), "vec3")
                k += 1
        if k == 0:
            raise AnalysisBroken("%s: the force argument of %s is not assembled from vector locals" % (prog.loc(fn, c), short(c, 50)))
        v = vec(ev, ev.ev(init))
        coeffs = []
        for comp in v:
            e = sp.expand(comp)
            gs = [g for g in e.free_symbols if re.match(r"^G\d+_", g.name)]
            for g in gs:
                cg = sp.expand(e.coeff(g))
                if cg != 0:
                    coeffs.append(cg)
        mods = set()
        for cg in coeffs:
            mods |= {m for m in cg.free_symbols if m.name.endswith("bending_modulus_")}
        fs = set()
        for cg in coeffs:
            den = cg.subs({m: 1 for m in mods})
            if den == 0:
                fs.add(sp.Symbol("?"))
                continue
            fs.add(sp.simplify(cg / den))
        factors.append((c, fs))
    allf = set()
    for c, fs in factors:
        allf |= fs
    if len(allf) == 1 and any(m.name.endswith("bending_modulus_") for f in allf for m in f.free_symbols):
        rep.ok(rule, prog, fn, blk, "all four hinge forces scale with the common stiffness factor %s" % re.sub(r"#\d+", "", str(next(iter(allf))))[:160])
    else:
        per = "; ".join("%s: %s" % (short(c, 40), sorted(re.sub(r"#\d+", "", str(f))[:90] for f in fs)) for c, fs in factors)
        rep.violation(rule, prog, fn, blk, "hinge forces do not share one stiffness factor",
                      "the four forces of a hinge are its four gradients (which sum to zero) times scalar factors; their dependence on the bending moduli differs between the nodes (%s): "
                      "on a hinge between face types of different bending modulus the four forces no longer cancel and bending adds a net force and torque to the cell" % per)


def atom_side(name):
    """side (face of the hinge) an atom belongs to: normals / areas / types by the face index (f1_id_/f2_id_);
    angles by the opposite node they involve."""
    if re.search(r"(normal_\.d[xyz]_|\.area_|type_id_|bending_modulus_)", name) and "get_angle_with" not in name:
        return side_of(name)
    if "get_angle_with" in name:
        s = set()
        for m in re.finditer(r"\.f([12])_id_\]\.get_opposite_node", name):
            s.add(int(m.group(1)))
        return s
    return set()


def translation(rep, prog):
    for qn in ROUTINES:
        fn = prog.fn(qn)
        for n in walk(fn["body"]):
            if n.get("k") == "CXXMemberCallExpr" and n.get("callee") == "node::add_force":
                try:
                    ev = S.SymEval(prog, fn, lazy_scalars=True)
                    v = ev.ev(call_args(n)[0])
                    inv = S.Invariance(ev, is_pos_atom)
                    comps = vec(ev, v)
                    bad = None
                    for cmp_ in comps:
                        if not inv.scalar_weight0(cmp_):
                            bad = inv.reason
                            break
                    # opaque call atoms: their arguments must themselves be invariant vectors / scalars
                    if bad is None:
                        for path, args in ev.atom_args.items():
                            for a in args:
                                if isinstance(a, S.Rec) and len(a.f) == 3:
                                    if inv.vector_weight(a) != 0:
                                        bad = "argument of the opaque call %s is a position, not a difference of positions" % re.sub(r"#\d+", "", path)[:90]
                                elif isinstance(a, sp.Basic):
                                    if not inv.scalar_weight0(a):
                                        bad = "argument of the opaque call %s changes under translation" % path[:80]
                            if bad:
                                break
                    if bad is None:
                        rep.ok("C02.translation", prog, fn, n, "%s: translation weight 0" % short(n, 60))
                    else:
                        rep.violation("C02.translation", prog, fn, n, "internal force not translation invariant", "%s changes when the whole cell is translated: %s" % (short(n, 70), bad))
                except S.Decline as e:
                    raise AnalysisBroken("%s: %s" % (prog.loc(fn, n), e))
