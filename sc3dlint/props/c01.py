"""C01 - cell surfaces stay closed, consistently oriented 2-manifolds under remeshing (structural necessary conditions)."""
import re

from ..model import walk, strip, is_call, call_obj, call_args, render, short, always_exits, AnalysisBroken
from .c10 import product_fns

EXPLANATION = ("Structural necessary conditions only, decided on every path of the structured AST: (1) Euler ledger: on every path through "
               "split_edge, merge_edge, swap_edge the number of nodes added minus deleted (dV) and of faces added minus deleted (dF), resolved "
               "through the call graph (cell::replace_node is summarised from its own body: dV=-1, dF=0), satisfies dV - dF/2 = 0, i.e. V-E+F is "
               "preserved for a closed triangle mesh (E = 3F/2); both branches of every if agree and early exits happen before any change; "
               "(2) bookkeeping pairing inside cell: delete_face / delete_node reset the element and push its id on the matching free queue "
               "unconditionally; add_face / add_node either pop a free slot or append, and in both branches set the element's id and used "
               "flag; add_face's two branches perform the same sequence of effects (edges (n1,n2),(n2,n3),(n3,n1) emplaced, the face "
               "registered on each, normal/area refreshed, owner set); delete_face looks up the same three node pairs; (3) rebase decides "
               "before compacting whether anything will be compacted and regenerates the edge set in that case, renumbers faces and nodes "
               "and remaps the faces' node ids. Not decided: that edges stay 2-manifold after arbitrary chains of operations, winding / "
               "normal orientation, positive volume, adequacy of the link condition in can_be_merged - these are properties of the mesh "
               "data structure under histories (a separation-logic proof, not a lint).")
ASSUMPTIONS = ["the ledger counts calls; it does not prove that the calls are applied to the right elements"]

DELTA = {"cell::add_node": (1, 0), "cell::create_node": (1, 0), "cell::delete_node": (-1, 0),
         "cell::create_face": (0, 1), "cell::add_face": (0, 1), "cell::delete_face": (0, -1)}


def declare(rep):
    rep.rule("C01.euler-ledger", "every path of split/merge/swap (and replace_node) has dV - dF/2 = 0; branches agree; early exits precede changes", floor=4)
    rep.rule("C01.free-slot-pairing", "delete_*: every path resets the element and queues its slot once; add_*: every path either pops a tested-non-empty queue or appends, sets id and used flag, returns the id", floor=4)
    rep.rule("C01.add-face-siblings", "add_face: every path registers the face on the edges (n1,n2),(n2,n3),(n3,n1), refresh normal/area, set the owner; delete_face looks up the same pairs", floor=2)
    rep.rule("C01.split-winding", "split_edge: the sub-faces of (x,a,b) keep its orientation: then-branch faces are even, else-branch faces odd permutations of (x,a,b) with the midpoint in place of a or b; the test uses the cached normal of the face x belongs to", floor=2)
    rep.rule("C01.split-worklist", "split_edge: on the work-list copy of an outer edge (x,y) a face id is replaced only if the replaced parent face and the new face both contain x and y (face slots are recycled: replacing the id of a face that never bordered the edge rewrites the entry of a recycled slot)", floor=4)
    rep.rule("C01.swap-winding", "swap_edge: every new face is wound against a surviving neighbour that shares an edge with it", floor=2)
    rep.rule("C01.swap-precondition", "swap_edge: before it deletes anything it returns when the edge joining the two opposite nodes (the edge the swap creates) already exists", floor=1)
    rep.rule("C01.edge-key-width", "edge::hash (the key that orders edge_set_) multiplies node ids in arithmetic that cannot wrap for 32-bit ids: a wrapped Cantor pairing gives two edges one key and add_face registers a face on the wrong edge", floor=1)
    rep.rule("C01.normal-follows-winding", "whenever the node order of a face may change (swap_nodes, check_face_winding_order, replace_node) the cached normal/area of that face is refreshed before control leaves the mesh classes", floor=3)
    rep.rule("C01.worklist-filter", "merge_edge: an edge copy enters the work list only if it mentions none of the nodes replaced and none of the faces deleted by this merge; all insertion sites apply the same filter", floor=1)
    rep.rule("C01.edit-in-place", "the mesh operations of the refiner change the faces and nodes of the cell itself: a local of type face / node by value that is a copy of a mesh element, is changed (member call or non-const reference argument) and never read afterwards is a change that is lost - e.g. `auto f = c->get_face(id);` followed by check_face_winding_order(ref, f)", floor=3)
    rep.rule("C01.rebase", "rebase regenerates the edge set whenever a queue was non-empty; renumbers faces and nodes; remaps node ids of faces", floor=3)


class Inconsistent(Exception):
    def __init__(self, node, msg):
        self.node, self.msg = node, msg


def delta_of(prog, fn, summaries, s):
    """(dV, dF) of statement s, or raises Inconsistent."""
    k = s.get("k")
    if k == "CompoundStmt":
        tot = (0, 0)
        for c in s.get("c", []):
            if c.get("k") == "ReturnStmt" or (c.get("k") == "IfStmt" and always_exits(c["then"]) and not isinstance(c.get("else"), dict)):
                # an early exit must come before any structural change
                if c.get("k") == "IfStmt":
                    d = delta_of(prog, fn, summaries, c["then"])
                    if d != (0, 0) or tot != (0, 0):
                        raise Inconsistent(c, "an early exit leaves a partially applied operation (dV, dF so far = %s)" % (tot,))
                    continue
            d = delta_of(prog, fn, summaries, c)
            tot = (tot[0] + d[0], tot[1] + d[1])
        return tot
    if k == "IfStmt":
        a = delta_of(prog, fn, summaries, s["then"])
        b = delta_of(prog, fn, summaries, s["else"]) if isinstance(s.get("else"), dict) else (0, 0)
        c = expr_delta(prog, summaries, s["cond"])
        if a != b:
            raise Inconsistent(s, "the two branches of the test at line %s change the mesh differently: (dV,dF) = %s vs %s" % (s.get("l"), a, b))
        return (a[0] + c[0], a[1] + c[1])
    if k in ("ForStmt", "WhileStmt", "DoStmt", "CXXForRangeStmt"):
        d = delta_of(prog, fn, summaries, s["body"])
        if d != (0, 0):
            raise Inconsistent(s, "a loop adds/removes nodes or faces (%s per iteration): the ledger cannot be closed" % (d,))
        return (0, 0)
    if k == "CXXTryStmt":
        return delta_of(prog, fn, summaries, s["block"])
    if k == "ReturnStmt":
        return expr_delta(prog, summaries, s.get("value") or {})
    return expr_delta(prog, summaries, s)


_LAMBDAS = {}      # did of a local variable holding a lambda -> LambdaExpr node (filled per function by run())


def _lambda_delta(prog, summaries, lam):
    """(dV, dF) of one call of the lambda: all paths through its body (split at 'if(c){... return}') must have the same effect"""
    def paths(stmts):
        tot = (0, 0)
        for i, st in enumerate(stmts):
            if st.get("k") == "IfStmt" and always_exits(st["then"]) and not isinstance(st.get("else"), dict):
                c = expr_delta(prog, summaries, st["cond"])
                a = paths(st["then"].get("c", [st["then"]]) if st["then"].get("k") == "CompoundStmt" else [st["then"]])
                b = paths(stmts[i + 1:])
                if a != b:
                    raise Inconsistent(st, "the paths through the lambda at line %s change the mesh differently: (dV,dF) = %s vs %s" % (lam.get("l"), a, b))
                return (tot[0] + c[0] + a[0], tot[1] + c[1] + a[1])
            d = delta_of(prog, None, summaries, st)
            tot = (tot[0] + d[0], tot[1] + d[1])
        return tot
    body = lam.get("body") or {}
    return paths(body.get("c", []))


def expr_delta(prog, summaries, e):
    """(dV, dF) of evaluating expression e: the calls it makes, with the two arms of a conditional expression counted once (they
    must agree, like the two branches of an if)."""
    from ..model import children
    tot = (0, 0)
    if not isinstance(e, dict):
        return tot
    if e.get("k") == "LambdaExpr":
        return tot
    # call of a local lambda: the effect of its body (every path through it must agree)
    if e.get("k") == "CXXOperatorCallExpr" and e.get("op") == "()" and len(e.get("c", [])) >= 2:
        o = strip(e["c"][1])
        lam = _LAMBDAS.get(o["ref"].get("did")) if o.get("k") == "DeclRefExpr" and isinstance(o.get("ref"), dict) else None
        if lam is not None:
            d = _lambda_delta(prog, summaries, lam)
            for a in e["c"][2:]:
                da = expr_delta(prog, summaries, a)
                d = (d[0] + da[0], d[1] + da[1])
            return d
    if e.get("k") == "ConditionalOperator" and len(e.get("c", [])) == 3:
        c0 = expr_delta(prog, summaries, e["c"][0])
        a, b = expr_delta(prog, summaries, e["c"][1]), expr_delta(prog, summaries, e["c"][2])
        if a != b:
            raise Inconsistent(e, "the two arms of the conditional expression at line %s change the mesh differently: (dV,dF) = %s vs %s" % (e.get("l"), a, b))
        return (c0[0] + a[0], c0[1] + a[1])
    if is_call(e):
        c = e.get("callee", "")
        d = DELTA.get(c) or summaries.get(c)
        if d:
            tot = d
    for ch in children(e):
        if isinstance(ch, dict):
            d = expr_delta(prog, summaries, ch)
            tot = (tot[0] + d[0], tot[1] + d[1])
    return tot


def run(rep, prog, tier):
    if not rep.rules:
        declare(rep)
    summaries = {}
    rn = prog.fn("cell::replace_node")
    try:
        d = delta_of(prog, rn, summaries, rn["body"])
        summaries["cell::replace_node"] = d
        if d == (-1, 0):
            rep.ok("C01.euler-ledger", prog, rn, None, "replace_node: dV = -1 (the old node), dF = 0 on every path; its loop changes neither")
        else:
            rep.violation("C01.euler-ledger", prog, rn, None, "replace_node changes (dV,dF) = %s" % (d,), "cell::replace_node must delete exactly the replaced node and no face; found (dV, dF) = %s" % (d,))
    except Inconsistent as x:
        rep.violation("C01.euler-ledger", prog, rn, x.node, "replace_node: inconsistent paths", x.msg)
        summaries["cell::replace_node"] = (-1, 0)
    for qn, expect in (("local_mesh_refiner::split_edge", (1, 2)), ("local_mesh_refiner::merge_edge", (-1, -2)), ("local_mesh_refiner::swap_edge", (0, 0))):
        fn = prog.fn(qn)
        _LAMBDAS.clear()
        for v_ in walk(fn["body"]):
            if v_.get("k") == "Var" and isinstance(v_.get("init"), dict) and strip(v_["init"]).get("k") == "LambdaExpr":
                _LAMBDAS[v_["did"]] = strip(v_["init"])
        try:
            d = delta_of(prog, fn, summaries, fn["body"])
            if 2 * d[0] - d[1] == 0 and d == expect:
                rep.ok("C01.euler-ledger", prog, fn, None, "%s: (dV, dF) = %s on every path, dV - dF/2 = 0" % (qn.split("::")[1], d))
            else:
                rep.violation("C01.euler-ledger", prog, fn, None, "%s changes (dV,dF) = %s" % (qn.split("::")[1], d),
                              "%s adds/removes (dV, dF) = %s nodes/faces (expected %s): V - E + F of the closed triangle mesh is no longer 2 after this operation (a node or a face is leaked or missing)" % (qn, d, expect))
        except Inconsistent as x:
            rep.violation("C01.euler-ledger", prog, fn, x.node, "%s: paths disagree" % qn.split("::")[1], "%s: %s" % (qn, x.msg))
    normal_follows_winding(rep, prog)
    worklist_filter(rep, prog)
    split_winding(rep, prog)
    split_worklist(rep, prog)
    swap_winding(rep, prog)
    swap_precondition(rep, prog)
    edge_key_width(rep, prog)
    pairing(rep, prog)
    add_face_siblings(rep, prog)
    rebase(rep, prog)
    from .. import lints as _lints
    for qn_ in ("local_mesh_refiner::split_edge", "local_mesh_refiner::merge_edge", "local_mesh_refiner::swap_edge", "cell::replace_node"):
        for fn_ in prog.fns(qn_):
            if not isinstance(fn_.get("body"), dict):
                continue
            lost = list(_lints.lost_update_on_local_copy(prog, fn_))
            for v_, m_ in lost:
                rep.violation("C01.edit-in-place", prog, fn_, m_, "'%s' is a copy of a mesh element" % v_.get("name"),
                              "%s declares '%s' (line %s) as a %s by value - a copy of the element it is initialised from - then changes it with '%s' and never reads it again: the change (a corrected winding, a refreshed normal) is applied to the temporary, the triangle stored in the cell keeps its tentative state, and the surface is left inconsistently oriented" % (fn_["qn"], v_.get("name"), v_.get("l"), v_.get("t"), short(m_, 60)))
            if not lost:
                rep.ok("C01.edit-in-place", prog, fn_, None, "%s: every face / node that is changed is a reference into the cell" % fn_["qn"])


def top_level(fn, pred):
    """nodes satisfying pred that are not under any if/loop in fn"""
    out = []
    def rec(s, cond):
        k = s.get("k")
        if k == "CompoundStmt":
            for c in s.get("c", []):
                rec(c, cond)
        elif k in ("IfStmt", "ForStmt", "WhileStmt", "DoStmt", "CXXForRangeStmt", "SwitchStmt"):
            for key in ("then", "else", "body"):
                if isinstance(s.get(key), dict):
                    rec(s[key], True)
        else:
            for n in walk(s, into_lambdas=False):
                if pred(n):
                    out.append((n, cond))
    rec(fn["body"], False)
    return out


def _nonempty_polarity(txt, q):
    """True if the condition being true means 'queue q is not empty', False for the opposite, None if unrelated."""
    t = txt.replace(" ", "")
    while t.startswith("(") and t.endswith(")"):
        t = t[1:-1]
    if q not in t:
        return None
    if t in ("!%s.empty()" % q, "%s.size()>0" % q, "%s.size()!=0" % q, "%s.size()" % q, "0<%s.size()" % q, "0!=%s.size()" % q):
        return True
    if t in ("%s.empty()" % q, "%s.size()==0" % q, "0==%s.size()" % q, "!%s.size()" % q):
        return False
    return None


def _normal_paths(fn):
    from .. import paths as P
    try:
        ps = P.paths(fn["body"])
    except P.PathExplosion as e:
        raise AnalysisBroken("%s: %s" % (fn["qn"], e))
    return [ev for ev, done in ps if not any(e[0] == "throw" for e in ev)]


def pairing(rep, prog):
    from .. import paths as P
    for qn, reset_callee, queue_fn in (("cell::delete_face", "face::reset", "cell::add_free_face"), ("cell::delete_node", "node::reset", "cell::add_free_node")):
        fns = [f for f in prog.fns(qn) if f["params"] and "unsigned" in f["params"][0]["t"]]
        fn = fns[0]
        bad = None
        n_paths = 0
        for ev in _normal_paths(fn):
            n_paths += 1
            r, q = len(P.calls(ev, reset_callee)), len(P.calls(ev, queue_fn))
            if (r, q) != (1, 1):
                bad = (r, q)
        if bad is None and n_paths:
            rep.ok("C01.free-slot-pairing", prog, fn, None, "%s: on each of its %d paths the element is reset once and its id pushed once on the free queue" % (qn.split("::")[1], n_paths))
        else:
            rep.violation("C01.free-slot-pairing", prog, fn, None, "%s does not pair reset with the free queue" % qn.split("::")[1],
                          "%s has a path that resets the element %s time(s) and pushes its id on the free queue %s time(s): otherwise the counts (slots - free slots) and the reuse of slots go out of step with the elements marked unused" % ((qn,) + tuple(bad or ("?", "?"))))
        aq = prog.fn(queue_fn)
        pushes = [n for n in walk(aq["body"]) if n.get("k") == "CXXMemberCallExpr" and n.get("callee", "").endswith("::push_back")]
        want_q = "free_face_queue_" if "face" in queue_fn else "free_node_queue_"
        if not (len(pushes) == 1 and render(call_obj(pushes[0])) == want_q):
            rep.violation("C01.free-slot-pairing", prog, aq, None, "%s does not push on %s" % (queue_fn.split("::")[1], want_q), "%s must push the id on %s" % (queue_fn, want_q))
    for qn, lst, queue, setters in (("cell::add_node", "node_lst_", "free_node_queue_", ("node::set_local_id", "node::set_is_used")),
                                    ("cell::add_face", "face_lst_", "free_face_queue_", ("face::set_local_id", "face::set_is_used"))):
        fn = prog.fn(qn)
        why = []
        kinds = set()
        for ev in _normal_paths(fn):
            pops = [c for c in P.calls(ev) if c.get("k") == "CXXMemberCallExpr" and c.get("callee", "").endswith("::pop_back") and render(call_obj(c)) == queue]
            backs = [c for c in P.calls(ev) if c.get("k") == "CXXMemberCallExpr" and c.get("callee", "").endswith("::back") and render(call_obj(c)) == queue]
            pushes = [c for c in P.calls(ev) if c.get("k") == "CXXMemberCallExpr" and c.get("callee", "").split("::")[-1] in ("push_back", "emplace_back") and render(call_obj(c)) == lst]
            pol = [(_nonempty_polarity(render(e[1]), queue), e[2]) for e in ev if e[0] == "cond"]
            pol = [(a_, b_) for a_, b_ in pol if a_ is not None]
            nonempty = None
            if pol:
                nonempty = (pol[0][0] == pol[0][1])
            if len(pops) == 1 and len(backs) >= 1 and not pushes:
                kinds.add("reuse")
                if nonempty is not True:
                    why.append("a slot is popped from %s on a path where the queue was not tested to be non-empty" % queue)
            elif len(pushes) == 1 and not pops:
                kinds.add("append")
                if nonempty is not False:
                    why.append("the element is appended although %s was not tested to be empty (free slots would never be reused)" % queue)
            else:
                why.append("a path takes %d slot(s) from %s and appends %d element(s) to %s" % (len(pops), queue, len(pushes), lst))
            ids = P.calls(ev, setters[0])
            used = [c for c in P.calls(ev, setters[1]) if strip(call_args(c)[0]).get("v") is True]
            if not ids:
                why.append("a path returns without set_local_id on the stored element")
            if not used:
                why.append("a path returns without set_is_used(true) on the stored element")
            if not any(e[0] == "return" for e in ev):
                why.append("a path does not return the id")
        if kinds != {"reuse", "append"}:
            why.append("slot reuse and append paths found: %s" % sorted(kinds))
        if not why:
            rep.ok("C01.free-slot-pairing", prog, fn, None, "%s: a path either pops a slot of %s (tested non-empty) or appends (queue empty); every path sets the id and the used flag and returns" % (qn.split("::")[1], queue))
        else:
            w = sorted(set(why))
            rep.violation("C01.free-slot-pairing", prog, fn, None, "%s: %s" % (qn.split("::")[1], w[0][:70]), "%s: %s" % (qn, "; ".join(w)))


def edge_pairs(node, kind):
    """unordered node-field pairs used in edge constructions / emplace calls under node"""
    pairs = []
    for n in ([node] if is_call(node) or node.get("k") in ("CXXConstructExpr", "CXXTemporaryObjectExpr") else walk(node)):
        args = None
        if kind == "emplace" and n.get("k") == "CXXMemberCallExpr" and n.get("callee", "").endswith("::emplace") and "edge_set_" in render(call_obj(n)):
            args = call_args(n)
        if kind == "find" and n.get("k") in ("CXXConstructExpr", "CXXTemporaryObjectExpr") and n.get("cls") == "edge" and len(n.get("c", [])) == 2:
            args = n["c"]
        if args and len(args) >= 2:
            names = []
            for a in args[:2]:
                m = re.search(r"n([123])_id_?(\(\))?$", render(a))
                names.append(int(m.group(1)) if m else None)
            pairs.append(frozenset(names))
    return pairs


def add_face_siblings(rep, prog):
    from .. import paths as P
    fn = prog.fn("cell::add_face")
    want = sorted(map(sorted, [frozenset((1, 2)), frozenset((2, 3)), frozenset((3, 1))]))
    why = []
    n_paths = 0
    for ev in _normal_paths(fn):
        n_paths += 1
        pairs = []
        for c in P.calls(ev):
            pairs += edge_pairs(c, "emplace")
        reg = P.calls(ev, "edge::add_face")
        upd = P.calls(ev, "cell::update_face_normal_and_area")
        own = [e for e in ev if (e[0] == "assign" and render(e[1]["c"][-2]).endswith("owner_cell_")) or (e[0] == "call" and "set_owner" in e[1].get("callee", ""))]
        if sorted(map(lambda p_: sorted(x for x in p_ if x is not None), pairs)) != want:
            why.append("a path emplaces the edges %s instead of (n1,n2),(n2,n3),(n3,n1)" % [sorted(x for x in p_ if x is not None) for p_ in pairs])
        if len(reg) != 3:
            why.append("a path registers the face on %d edges" % len(reg))
        if not upd:
            why.append("a path does not refresh the normal/area of the stored face")
        if not own:
            why.append("a path does not set the owner cell of the stored face")
    if not why and n_paths >= 2:
        rep.ok("C01.add-face-siblings", prog, fn, None, "on each of the %d paths: edges (n1,n2),(n2,n3),(n3,n1) emplaced, face added to the three, normal/area refreshed, owner set" % n_paths)
    else:
        w = sorted(set(why)) or ["only %d path(s) found" % n_paths]
        rep.violation("C01.add-face-siblings", prog, fn, None, "add_face: %s" % w[0][:70],
                      "every path of cell::add_face (slot reuse and append) must emplace the edges (n1,n2),(n2,n3),(n3,n1), add the face to each of the three, refresh normal/area and set the owner: %s" % "; ".join(w))
    df = [f for f in prog.fns("cell::delete_face") if "unsigned" in f["params"][0]["t"]][0]
    pairs = edge_pairs(df, "find")
    if sorted(map(sorted, pairs)) == want:
        rep.ok("C01.add-face-siblings", prog, df, None, "delete_face looks up the edges (n1,n2),(n2,n3),(n3,n1)")
    else:
        rep.violation("C01.add-face-siblings", prog, df, None, "delete_face looks up the wrong edges", "cell::delete_face must remove the face from the edges (n1,n2),(n2,n3),(n3,n1); found %s" % [sorted(x for x in p_ if x is not None) for p_ in pairs])


def _closes_at_end(t):
    d = 0
    for i, ch in enumerate(t):
        d += ch == "("
        d -= ch == ")"
        if d == 0:
            return i == len(t) - 1
    return False


def _relabel_on_every_compaction(rep, prog, fn, fi):
    """The renumbering (set_local_id over the list, update_node_ids over the faces) runs whenever remove_index(list, queue) ran.
    A guard that lets a path skip it is accepted only when it is proven, by linear integer arithmetic on the sizes taken before
    the compaction, to state 'every free slot lies behind the elements that stay' (sorted queue, lowest free slot >= N - K):
    then remove_index only truncates the list and no element moves.  A guard that provably admits a free slot below N - K is a
    violation; any other guard is not decided."""
    import sympy as sp
    from ..model import facts_at
    for lst, queue, setter in (("face_lst_", "free_face_queue_", "face::set_local_id"), ("node_lst_", "free_node_queue_", "node::set_local_id")):
        rms = [n for n in walk(fn["body"]) if n.get("k") == "CallExpr" and n.get("callee") == "remove_index" and lst in render(call_args(n)[0])]
        sets = [n for n in walk(fn["body"]) if is_call(n) and n.get("callee") == setter]
        if not rms or not sets:
            continue        # reported by the renumbering rule above
        rm = rms[0]
        base = {(render(e).replace(" ", ""), pol) for e, pol in facts_at(fn, fi, rm)}
        sites = [(sets[0], "the renumbering of " + lst)]
        if lst == "node_lst_":
            sites += [(n, "the remapping of the node ids of the faces") for n in walk(fn["body"]) if (n.get("k") == "CXXDependentScopeMemberExpr" and n.get("member") == "update_node_ids") or (is_call(n) and n.get("callee") == "face::update_node_ids")][:1]
        for site, what in sites:
            loop = site
            for p_, _s, _c in fi.ancestors(site):
                if p_.get("k") in ("ForStmt", "CXXForRangeStmt", "WhileStmt") and lst in render(p_.get("cond") or p_.get("range") or {}):
                    loop = p_
                if p_.get("k") == "LambdaExpr":
                    loop = p_
            extra = [(e, pol) for e, pol in facts_at(fn, fi, loop) if (render(e).replace(" ", ""), pol) not in base]
            if not extra:
                rep.ok("C01.rebase", prog, fn, site, "%s runs on every path on which remove_index(%s, %s) ran" % (what, lst, queue))
                continue
            sorted_before = any(n.get("k") == "CallExpr" and n.get("callee", "").split("::")[-1] == "sort" and queue in render(n) and fi.order[id(n)] < fi.order[id(rm)] for n in walk(fn["body"]))
            for e, pol in extra:
                # the locals the guard is made of must have been evaluated before the compaction (sizes of before)
                rm_g = {id(c_) for c_, _p in fi.guards(rm)}
                late = [y for c_, _p in fi.guards(loop) if id(c_) not in rm_g for y in walk(c_) if y.get("k") == "DeclRefExpr" and (y.get("ref") or {}).get("dk") == "Var" and any(v.get("k") == "Var" and v.get("did") == y["ref"].get("did") and fi.order[id(v)] > fi.order[id(rm)] for v in walk(fn["body"]))]
                late += [y for c_, _p in fi.guards(loop) if id(c_) not in rm_g and fi.order.get(id(c_), 0) > fi.order[id(rm)] for y in walk(c_) if is_call(y) and y.get("callee", "").split("::")[-1] in ("size", "front", "back", "empty")]
                txt = render(e).replace("this->", "").replace(" ", "")
                txt = re.sub(r"\((unsigned|unsignedint|unsignedlong|size_t|std::size_t|int|long)\)", "", txt)
                while txt.startswith("(") and _closes_at_end(txt):
                    txt = txt[1:-1]
                m = re.match(r"^\(*%s\.front\(\)\)*(>=|>|==|<=|<)(.+)$" % re.escape(queue), txt)
                bound = None
                if m and not late and sorted_before:
                    rhs = m.group(2).replace(lst + ".size()", "N").replace(queue + ".size()", "K")
                    if re.fullmatch(r"[NK0-9+\-()]+", rhs):
                        try:
                            N, K = sp.symbols("N K", integer=True)
                            val = sp.sympify(rhs, locals={"N": N, "K": K})
                            op = m.group(1)
                            # the renumbering is skipped when the fact does NOT hold
                            if not pol and op in (">=", ">", "=="):
                                bound = sp.simplify(val + (1 if op == ">" else 0) - (N - K))
                            elif pol and op in ("<", "<="):
                                bound = sp.simplify(val + (1 if op == "<=" else 0) - (N - K))
                        except (sp.SympifyError, TypeError, SyntaxError):
                            bound = None
                if bound is not None and bound.is_number and bound >= 0:
                    rep.ok("C01.rebase", prog, fn, site, "%s is skipped only when the lowest free slot is >= size - #free (all free slots trail: nothing moves)" % what)
                elif bound is not None and bound.is_number and bound < 0:
                    rep.violation("C01.rebase", prog, fn, site, "%s skipped while an element moves" % what,
                                  "cell::rebase skips %s when '%s' %s, i.e. when the lowest free slot is >= size - #free %s: that admits a free slot below the new size of %s, so remove_index moves a live element to a lower position while its id (and the ids stored in the faces and edges) keep the old value - e.g. one free slot that is the last but one: the last element moves into it and keeps its old id, which now lies outside the list" % (what, short(e, 90), "does not hold" if pol else "holds", ("- %d" % -int(bound)), lst))
                else:
                    raise AnalysisBroken("cell::rebase: %s runs under the additional condition '%s' that remove_index(%s, ...) does not run under - whether every skipped compaction leaves all elements in place is not decided" % (what, short(e, 100), lst))


def rebase(rep, prog):
    fn = prog.fn("cell::rebase")
    fi = prog.index(fn)
    flag = [d for d in walk(fn["body"]) if d.get("k") == "Var" and "bool" in d.get("t", "") and isinstance(d.get("init"), dict)]
    ok = False
    if flag:
        txt = render(flag[0]["init"]).replace(" ", "")
        uses_both = "free_face_queue_.empty()" in txt and "free_node_queue_.empty()" in txt
        first_clear = min([fi.order[id(n)] for n in walk(fn["body"]) if n.get("k") == "CXXMemberCallExpr" and n.get("callee", "").endswith("::clear") and "queue_" in render(call_obj(n))] or [10 ** 9])
        before = fi.order[id(flag[0])] < first_clear
        # semantics: flag true unless both are empty
        init = strip(flag[0]["init"])
        sem = False
        if init.get("k") == "ConditionalOperator":
            c = strip(init["c"][0])
            a, b = strip(init["c"][1]), strip(init["c"][2])
            if c.get("k") == "BinaryOperator" and c.get("op") == "&&" and a.get("v") is False and b.get("v") is True:
                sem = True
        elif init.get("k") == "UnaryOperator" and init.get("op") == "!":
            sem = "&&" in txt
        elif init.get("k") == "BinaryOperator" and init.get("op") == "||" and txt.count("!") == 2:
            sem = True
        regen = None
        for s in walk(fn["body"]):
            if s.get("k") == "IfStmt":
                c = strip(s["cond"])
                if c.get("k") == "DeclRefExpr" and c["ref"]["did"] == flag[0]["did"]:
                    calls = [n.get("callee") for n in walk(s["then"]) if is_call(n)]
                    if "cell::generate_edge_set" in calls and any(x and x.endswith("::clear") for x in calls):
                        regen = s
        ok = uses_both and before and sem and regen is not None and fi.enclosing(regen, ("IfStmt", "ForStmt")) is None
    if not ok:
        # structural form: every path that compacts something (remove_index) goes on through edge_set_.clear() + generate_edge_set()
        cfg = fi.cfg()
        rms = [n for n in walk(fn["body"]) if n.get("k") == "CallExpr" and n.get("callee") == "remove_index"]
        gens = [n for n in walk(fn["body"]) if is_call(n) and n.get("callee") == "cell::generate_edge_set"]
        clears = [n for n in walk(fn["body"]) if n.get("k") == "CXXMemberCallExpr" and n.get("callee", "").endswith("::clear") and render(call_obj(n)).endswith("edge_set_")]
        gen_units = {cfg.unit_of.get(id(g)) for g in gens} - {None}
        must = bool(rms) and bool(gens) and bool(clears) and all(fi.order[id(c_)] < fi.order[id(g)] for c_ in clears[:1] for g in gens[:1])
        for r_ in rms:
            u = cfg.unit_of.get(id(r_))
            seen, stack = set(), list(cfg.succ[u]) if u is not None else []
            while stack and must:
                x = stack.pop()
                if x in seen or x in gen_units:
                    continue
                seen.add(x)
                if x == cfg.exit:
                    must = False
                    break
                stack.extend(cfg.succ[x])
        if must:
            ok = True
            flag = [gens[0]]
    if ok:
        rep.ok("C01.rebase", prog, fn, flag[0], "the edge set is cleared and regenerated on every path on which a slot was removed (decision taken from both free queues before they are cleared, or unconditional after an early return for 'nothing to compact')")
    else:
        rep.violation("C01.rebase", prog, fn, flag[0] if flag else None, "rebase does not regenerate the edge set after every compaction", "cell::rebase must decide (before clearing the queues) that the edge set is stale whenever the face queue or the node queue is non-empty, and then clear and regenerate it: otherwise the edges keep the ids of before the compaction")
    # renumbering loops
    for lst, setter in (("face_lst_", "face::set_local_id"), ("node_lst_", "node::set_local_id")):
        good = False
        for l in walk(fn["body"]):
            # range-for over the list with a running counter: counter = 0 before, set_local_id(counter) then counter++ in the body
            if l.get("k") == "CXXForRangeStmt" and render(l["range"]).replace("this->", "").split("#")[0] == lst and l["var"].get("t", "").rstrip().endswith("&"):
                body = l["body"].get("c", []) if l["body"].get("k") == "CompoundStmt" else [l["body"]]
                for bi, st_ in enumerate(body):
                    x = strip(st_)
                    if is_call(x) and x.get("callee") == setter and strip(call_obj(x)).get("k") == "DeclRefExpr" and strip(call_obj(x))["ref"].get("did") == l["var"]["did"]:
                        a = strip(call_args(x)[0])
                        if a.get("k") != "DeclRefExpr":
                            continue
                        cd = a["ref"]["did"]
                        incs = [j for j, s2 in enumerate(body) if strip(s2).get("k") == "UnaryOperator" and "++" in strip(s2).get("op", "") and strip(strip(s2)["c"][0]).get("k") == "DeclRefExpr" and strip(strip(s2)["c"][0])["ref"].get("did") == cd]
                        other_w = [w for w in walk(l["body"]) if w.get("k") in ("BinaryOperator", "CompoundAssignOperator") and (w.get("op") == "=" or w.get("k") == "CompoundAssignOperator") and strip(w["c"][0]).get("k") == "DeclRefExpr" and strip(w["c"][0])["ref"].get("did") == cd]
                        decl = [v for v in walk(fn["body"]) if v.get("k") == "Var" and v.get("did") == cd and isinstance(v.get("init"), dict)]
                        zero = bool(decl) and strip(decl[0]["init"]).get("k") == "IntegerLiteral" and strip(decl[0]["init"]).get("v") == "0"
                        between = [w for w in walk(fn["body"]) if decl and fi.order[id(decl[0])] < fi.order.get(id(w), -1) < fi.order[id(l)] and w.get("k") in ("UnaryOperator", "CompoundAssignOperator", "BinaryOperator") and any(y.get("k") == "DeclRefExpr" and y["ref"].get("did") == cd for y in walk(w)) and (w.get("op") in ("=", "+=", "-=") or "++" in w.get("op", "") or "--" in w.get("op", ""))]
                        rm = [n for n in walk(fn["body"]) if n.get("k") == "CallExpr" and n.get("callee") == "remove_index" and lst in render(call_args(n)[0])]
                        if len(incs) == 1 and incs[0] > bi and not other_w and zero and not between and rm and fi.order[id(l)] > fi.order[id(rm[0])]:
                            good = True
            if l.get("k") == "ForStmt" and lst in render(l["cond"]):
                for x in walk(l["body"]):
                    if is_call(x) and x.get("callee") == setter:
                        a = strip(call_args(x)[0])
                        d = l["init"]["decls"][0] if isinstance(l.get("init"), dict) and l["init"].get("decls") else None
                        if d and a.get("k") == "DeclRefExpr" and a["ref"]["did"] == d["did"]:
                            # after the remove_index of that list
                            rm = [n for n in walk(fn["body"]) if n.get("k") == "CallExpr" and n.get("callee") == "remove_index" and lst in render(call_args(n)[0])]
                            if rm and fi.order[id(l)] > fi.order[id(rm[0])]:
                                good = True
        if good:
            rep.ok("C01.rebase", prog, fn, None, "after compacting %s every element gets id = its new position" % lst)
        else:
            rep.violation("C01.rebase", prog, fn, None, "%s not renumbered after compaction" % lst, "cell::rebase must set the id of every remaining element of %s to its new index after remove_index" % lst)
    _relabel_on_every_compaction(rep, prog, fn, fi)
    upd = [n for n in walk(fn["body"]) if n.get("k") == "CXXDependentScopeMemberExpr" and n.get("member") == "update_node_ids"] + [n for n in walk(fn["body"]) if is_call(n) and n.get("callee") == "face::update_node_ids"]
    if upd:
        rep.ok("C01.rebase", prog, fn, upd[0], "faces remap their node ids through the old->new correspondence")
    else:
        rep.violation("C01.rebase", prog, fn, None, "faces keep stale node ids after node compaction", "cell::rebase must call update_node_ids on every face after the nodes were compacted")


def _letter(txt):
    m = re.search(r"n_([a-z])(?![a-z])", txt)
    return m.group(1) if m else None


def _parity(seq, ref):
    """+1 if seq is an even permutation of ref, -1 if odd, None if not a permutation"""
    if sorted(seq) != sorted(ref) or len(set(seq)) != 3:
        return None
    i = ref.index(seq[0])
    return 1 if [ref[i], ref[(i + 1) % 3], ref[(i + 2) % 3]] == list(seq) else -1


def _local_defs(fn, did):
    out = []
    for n in walk(fn["body"]):
        if n.get("k") == "Var" and n.get("did") == did and isinstance(n.get("init"), dict):
            out.append(n["init"])
        if n.get("k") in ("BinaryOperator", "CXXOperatorCallExpr") and n.get("op") == "=":
            ops = n["c"][-2:]
            l = strip(ops[0])
            if l.get("k") == "DeclRefExpr" and l["ref"].get("did") == did:
                out.append(ops[1])
    return out


def split_worklist(rep, prog):
    from ..model import def_chain
    fn = prog.fn("local_mesh_refiner::split_edge")

    def callees(e):
        return {x.get("callee") for d_ in def_chain(fn, e, depth=7) for x in walk(d_) if is_call(x)}

    def node_tag(e):
        cs = callees(e)
        if "cell::add_node" in cs:
            return "e"
        if "face::get_opposite_node" in cs:
            return "c" if ("edge::f1" in cs and "edge::f2" not in cs) else ("d" if ("edge::f2" in cs and "edge::f1" not in cs) else None)
        if "edge::n1" in cs and "edge::n2" not in cs:
            return "a"
        if "edge::n2" in cs and "edge::n1" not in cs:
            return "b"
        return None

    def face_nodes(e, depth=0):
        """node tags of the face an id expression designates: a parent face (e_ab.f1() / f2()) or a face made by create_face -
        through copies and through every assignment of an id variable (both branches of the winding decision)"""
        e0 = strip(e)
        while e0.get("k") == "ParenExpr" and e0.get("c"):
            e0 = strip(e0["c"][0])
        if is_call(e0) and e0.get("callee") == "cell::create_face":
            t = frozenset(node_tag(a) for a in call_args(e0))
            return None if None in t else t
        if is_call(e0) and e0.get("callee") in ("edge::f1", "edge::f2"):
            return frozenset("abc") if e0["callee"] == "edge::f1" else frozenset("abd")
        if e0.get("k") == "ConditionalOperator" and len(e0.get("c", [])) == 3:
            s1, s2 = face_nodes(e0["c"][1], depth), face_nodes(e0["c"][2], depth)
            return s1 if s1 is not None and s1 == s2 else None
        if e0.get("k") == "DeclRefExpr" and (e0.get("ref") or {}).get("dk") in ("Var", "ParmVar", "Binding") and depth < 6:
            defs = _local_defs(fn, e0["ref"]["did"])
            sets = {face_nodes(d_, depth + 1) for d_ in defs}
            return sets.pop() if len(sets) == 1 else None
        return None
    n = 0
    for call in walk(fn["body"]):
        if call.get("k") != "CXXMemberCallExpr" or call.get("callee") != "edge::replace_face":
            continue
        obj = call_obj(call)
        finds = [x for d_ in def_chain(fn, obj, depth=7) for x in walk(d_) if is_call(x) and x.get("callee", "").endswith("::find")]
        if not finds:
            continue        # not a work-list copy (e.g. the cell's own edge set is maintained by add_face / delete_face)
        ctor = [x for x in walk(finds[0]) if x.get("k") in ("CXXConstructExpr", "CXXTemporaryObjectExpr", "CXXFunctionalCastExpr") and (x.get("t") or "").replace("const ", "") == "edge" and len([c_ for c_ in x.get("c", []) if isinstance(c_, dict)]) == 2]
        if not ctor:
            raise AnalysisBroken("split_edge: the edge looked up in the work list at line %s is not built from two node ids" % call.get("l"))
        xy = {node_tag(a) for a in ctor[0]["c"] if isinstance(a, dict)}
        a_ = call_args(call)
        old, new = face_nodes(a_[0]), face_nodes(a_[1])
        if None in xy or old is None or new is None:
            raise AnalysisBroken("split_edge: %s: the nodes of the looked-up edge / of the faces exchanged are not identified (edge %s, old %s, new %s)" % (short(call, 60), sorted(x or "?" for x in xy), old and sorted(old), new and sorted(new)))
        n += 1
        if xy <= old and xy <= new:
            rep.ok("C01.split-worklist", prog, fn, call, "work-list edge (%s): parent face {%s} -> new face {%s}, both contain the edge" % (",".join(sorted(xy)), ",".join(sorted(old)), ",".join(sorted(new))))
        else:
            rep.violation("C01.split-worklist", prog, fn, call, "work-list edge (%s) gets a face that does not border it" % ",".join(sorted(xy)),
                          "%s: on the work-list copy of edge (%s) the face {%s} is replaced by {%s}; %s does not contain both nodes of that edge. Face slots are recycled (the first new face reuses the slot of the second deleted parent), so a test such as has_face(old id) can succeed on an entry that already holds a new face: the copy then names a face that does not contain the edge and the next operation on it corrupts the mesh"
                          % (short(call, 70), ",".join(sorted(xy)), ",".join(sorted(old)), ",".join(sorted(new)), "the replaced face" if not xy <= old else "the new face"))
    if n == 0:
        raise AnalysisBroken("split_edge: no work-list update (replace_face on a looked-up edge) found")


def split_winding(rep, prog):
    fn = prog.fn("local_mesh_refiner::split_edge")
    mid = None
    for n in walk(fn["body"]):
        if n.get("k") == "Var" and isinstance(n.get("init"), dict) and any(is_call(x) and x.get("callee") == "cell::add_node" for x in walk(n["init"])):
            mid = _letter(n["name"])
    if mid is None:
        raise AnalysisBroken("split_edge: id of the new node not found")
    from ..model import expand
    # decision sites: if/else statements and conditional expressions whose arms create faces; sites that test the same
    # (expanded) condition are one decision
    groups = {}
    for s in walk(fn["body"]):
        if s.get("k") == "IfStmt" and isinstance(s.get("else"), dict):
            cond, arms = s["cond"], (s["then"], s["else"])
        elif s.get("k") == "ConditionalOperator" and len(s.get("c", [])) == 3:
            cond, arms = s["c"][0], (s["c"][1], s["c"][2])
        else:
            continue
        def _arg_letter(a):
            # the node an argument designates: through const locals that merely name another id (an inlined helper's value parameter)
            a0 = strip(a)
            if a0.get("k") == "DeclRefExpr" and (a0.get("ref") or {}).get("dk") in ("Var", "ParmVar"):
                from .c11 import _alias_root
                root = _alias_root(fn, a0["ref"]["did"])
                if root != a0["ref"]["did"]:
                    for v_ in walk(fn["body"]):
                        if v_.get("k") == "Var" and v_.get("did") == root:
                            return _letter(v_.get("name") or "")
                    for p_ in fn.get("params", []):
                        if p_.get("did") == root:
                            return _letter(p_.get("name") or "")
            return _letter(render(a))
        br = [[[_arg_letter(a) for a in call_args(x)] for x in walk(b) if is_call(x) and x.get("callee") == "cell::create_face"] for b in arms]
        if any(l_ is None for b_ in br for f_ in b_ for l_ in f_):
            raise AnalysisBroken("split_edge: a create_face argument at line %s does not name one of the nodes of the split (n_<letter>); split-winding is not decided" % s.get("l"))
        if not br[0] or not br[1] or len(br[0]) != len(br[1]):
            continue
        from ..model import stable_locals
        st_ = stable_locals(fn)
        c = strip(cond)
        pos = True
        for _ in range(6):
            while c.get("k") == "ParenExpr" and c.get("c"):
                c = strip(c["c"][0])
            if c.get("k") == "UnaryOperator" and c.get("op") == "!":
                pos = not pos
                c = strip(c["c"][0])
            elif c.get("k") == "DeclRefExpr" and c["ref"].get("did") in st_ and "bool" in (c.get("t") or ""):
                c = strip(st_[c["ref"]["did"]])       # a hoisted flag: its defining test
            else:
                break
        key = render(c).replace(" ", "")
        g = groups.setdefault(key, {"cond": c, "site": s, "then": [], "else": []})
        g["then" if pos else "else"] += br[0]
        g["else" if pos else "then"] += br[1]
    found = 0
    for key, g in groups.items():
        br = [g["then"], g["else"]]
        s = g["site"]
        if len(br[0]) != 2 or len(br[1]) != 2:
            continue
        found += 1
        c = g["cond"]
        txt = render(c).replace(" ", "").replace("(", "").replace(")", "")
        m = re.match(r"^n_([a-z])_pos-n_([a-z])_pos\.crossn_([a-z])_pos-n_([a-z])_pos\.dot(\w+?)(>=|>)0\.?0*$", txt)
        if not m or m.group(2) != m.group(4):
            rep.violation("C01.split-winding", prog, fn, s, "orientation test not of the form (a-x)x(b-x).n >= 0", "split_edge: the winding decision %s is not the orientation test of the triangle (x,a,b) against the face normal" % render(c))
            continue
        a, x, b, nrm = m.group(1), m.group(2), m.group(3), m.group(5)
        ref = [x, a, b]
        bad = []
        for want, faces in ((1, br[0]), (-1, br[1])):
            for f in faces:
                if f.count(mid) != 1:
                    bad.append("face %s does not contain the new node once" % (f,))
                    continue
                missing = [y for y in (a, b) if y not in f]
                if len(missing) != 1:
                    bad.append("face %s is not a sub-triangle of (%s,%s,%s)" % (f, x, a, b))
                    continue
                g_ = [missing[0] if y == mid else y for y in f]
                if _parity(g_, ref) != want:
                    bad.append("face (%s) is wound %s the triangle (%s,%s,%s) in the %s branch" % (",".join(f), "against" if want == 1 else "like", x, a, b, "then" if want == 1 else "else"))
            if sorted(tuple(sorted(f)) for f in faces) != sorted([tuple(sorted([x, a, mid])), tuple(sorted([x, mid, b]))]):
                bad.append("branch does not create the faces {%s,%s,%s} and {%s,%s,%s}" % (x, a, mid, x, mid, b))
        # the normal used is the cached normal of the face x belongs to
        nvar = [n for n in walk(fn["body"]) if n.get("k") == "Var" and n.get("name") == nrm and isinstance(n.get("init"), dict)]
        xvar = [n for n in walk(fn["body"]) if n.get("k") == "Var" and n.get("name") == "id_n_%s" % x and isinstance(n.get("init"), dict)]
        fx = re.match(r"^(f_\d)\.get_opposite_node\(", render(xvar[0]["init"]).replace(" ", "")) if xvar else None
        fnm = re.match(r"^(?:vec3\{)?(f_\d)\.get_normal\(\)\}?$", render(nvar[0]["init"]).replace(" ", "")) if nvar else None
        if not (fx and fnm and fx.group(1) == fnm.group(1)):
            bad.append("the normal %s is not the normal of the face that node %s belongs to" % (nrm, x))
        if bad:
            rep.violation("C01.split-winding", prog, fn, s, "sub-faces of (%s,%s,%s) wound inconsistently" % (x, a, b), "split_edge line %s: %s - the new faces would not keep the orientation of the face they replace, the surface is no longer consistently oriented" % (s.get("l"), "; ".join(bad)))
        else:
            rep.ok("C01.split-winding", prog, fn, s, "faces replacing (%s,%s,%s): then-branch %s keep the orientation tested, else-branch %s are their mirror images; normal of the replaced face" % (x, a, b, br[0], br[1]))
    if found < 2:
        raise AnalysisBroken("split_edge: %d winding decisions with two faces per branch found (2 expected)" % found)


def swap_winding(rep, prog):
    fn = prog.fn("local_mesh_refiner::swap_edge")
    fi = prog.index(fn)
    creates = []
    for n in walk(fn["body"]):
        if n.get("k") in ("BinaryOperator",) and n.get("op") == "=" and any(is_call(x) and x.get("callee") == "cell::create_face" for x in walk(n["c"][1])):
            call = [x for x in walk(n["c"][1]) if is_call(x) and x.get("callee") == "cell::create_face"][0]
            creates.append((strip(n["c"][0])["ref"]["name"], [_letter(render(a)) for a in call_args(call)], n))
        if n.get("k") == "Var" and isinstance(n.get("init"), dict) and any(is_call(x) and x.get("callee") == "cell::create_face" for x in walk(n["init"])):
            call = [x for x in walk(n["init"]) if is_call(x) and x.get("callee") == "cell::create_face"][0]
            creates.append((n["name"], [_letter(render(a)) for a in call_args(call)], n))
    if len(creates) != 2:
        raise AnalysisBroken("swap_edge: %d create_face calls" % len(creates))
    deleted = set()
    for n in walk(fn["body"]):
        if is_call(n) and n.get("callee") == "cell::delete_face":
            m = re.match(r"^(f_\d)", render(call_args(n)[0]))
            if m:
                deleted.add(m.group(1) + "_id")
    checks = [n for n in walk(fn["body"]) if is_call(n) and n.get("callee") == "cell::check_face_winding_order"]
    def var_of(e):
        e = strip(e)
        return e if e.get("k") == "DeclRefExpr" else None
    def init_text(name):
        v = [n for n in walk(fn["body"]) if n.get("k") == "Var" and n.get("name") == name and isinstance(n.get("init"), dict)]
        return (render(v[0]["init"]).replace(" ", ""), v[0]) if v else (None, None)
    for idname, nodes, site in creates:
        why = None
        mine = []
        for c in checks:
            a = call_args(c)
            tv = var_of(a[1])
            if tv is None:
                continue
            t, _ = init_text(tv["ref"]["name"])
            if t and re.search(r"[\[(]%s[\])]" % re.escape(idname), t):
                mine.append((c, a))
        if not mine:
            why = "no check_face_winding_order on the face created as %s" % idname
        else:
            c, a = mine[0]
            if fi.order[id(c)] < fi.order[id(site)]:
                why = "winding checked before the face is created"
            rv = var_of(a[0])
            rt, _ = init_text(rv["ref"]["name"]) if rv else (None, None)
            m = re.search(r"get_face\((\w+)\)|face_lst_\[(\w+)\]", rt or "")
            rid = (m.group(1) or m.group(2)) if m else None
            it, _ = init_text(rid) if rid else (None, None)
            m2 = re.match(r"^\(?\(?(\w+)\.f1\(\)==(\w+)\)?\?\1\.f2\(\):\1\.f1\(\)\)?$", it or "") or re.match(r"^\(?\(?(\w+)\.f2\(\)==(\w+)\)?\?\1\.f1\(\):\1\.f2\(\)\)?$", it or "")
            if not m2:
                why = why or "the reference face %s is not 'the other face' of an edge" % rid
            else:
                ev, excl = m2.group(1), m2.group(2)
                if excl not in deleted:
                    why = why or "the reference is the face across %s other than %s, which is not one of the deleted faces" % (ev, excl)
                ends = re.match(r"^e_([a-z])([a-z])$", ev)
                # confirm the edge variable really is get_edge(n_x, n_y)
                evar = [n for n in walk(fn["body"]) if n.get("k") == "Var" and n.get("name") == ev]
                pairs = set()
                if evar:
                    for d in _local_defs(fn, evar[0]["did"]):
                        src = strip(d)
                        r = re.match(r"^(?:edge\{)?(\w+)\.value\(\)\}?$", render(src).replace(" ", ""))
                        if r:
                            ov = [n for n in walk(fn["body"]) if n.get("k") == "Var" and n.get("name") == r.group(1)]
                            for d2 in (_local_defs(fn, ov[0]["did"]) if ov else []):
                                g = [x for x in walk(d2) if is_call(x) and x.get("callee") == "cell::get_edge"]
                                if g:
                                    pairs.add(frozenset(_letter(render(y)) for y in call_args(g[0])))
                                else:
                                    pairs.add(None)
                        else:
                            pairs.add(None)
                if len(pairs) != 1 or None in pairs:
                    why = why or "the edge %s is not uniquely defined by get_edge(x,y)" % ev
                else:
                    pr = next(iter(pairs))
                    if not pr <= set(nodes):
                        why = why or "the reference face lies across the edge (%s), which is not an edge of the new face (%s)" % (",".join(sorted(pr)), ",".join(nodes))
        if why:
            rep.violation("C01.swap-winding", prog, fn, site, "new face %s not wound against a neighbour" % idname, "swap_edge: %s - the winding of the new face (%s) is not made consistent with the surrounding surface" % (why, ",".join(nodes)))
        else:
            rep.ok("C01.swap-winding", prog, fn, site, "new face (%s) is wound against the surviving face across one of its own edges, after its creation" % ",".join(nodes))
    # the two new faces share the new diagonal and traverse it in opposite directions as created
    f1, f2 = creates[0][1], creates[1][1]
    common = set(f1) & set(f2)
    if len(common) == 2:
        def dirn(f):
            i = f.index(sorted(common)[0])
            return 1 if f[(i + 1) % 3] == sorted(common)[1] else -1
        if dirn(f1) == dirn(f2):
            rep.violation("C01.swap-winding", prog, fn, creates[1][2], "the two new faces traverse the new edge in the same direction", "swap_edge creates (%s) and (%s): both traverse the new diagonal in the same direction, one of them is wound inside-out" % (",".join(f1), ",".join(f2)))
    else:
        rep.violation("C01.swap-winding", prog, fn, creates[1][2], "the two new faces do not share the new diagonal", "swap_edge creates (%s) and (%s) which do not share exactly one edge" % (",".join(f1), ",".join(f2)))


RELABEL_ONLY = {"face::update_node_ids": "renumbers the three ids through the old->new map of cell::rebase; the geometry and the order are unchanged",
                "face::face": "construction", "face::operator=": "whole-object copy, the normal is copied with the ids"}
REFRESH_ONE = "cell::update_face_normal_and_area"
REFRESH_ALL = "cell::update_all_face_normals_and_areas"


def _writes_face_ids(fn):
    """(node, which-object-expression-text) for direct writes to face::n?_id_ in fn"""
    out = []
    for n in walk(fn["body"]):
        tgt = []
        if n.get("k") in ("BinaryOperator", "CompoundAssignOperator") and n.get("op", "").endswith("=") and n.get("op") not in ("==", "!=", "<=", ">="):
            tgt = [strip(n["c"][0])]
        if n.get("k") == "CallExpr" and n.get("callee", "").startswith("std::swap"):
            tgt = [strip(a) for a in call_args(n)]
        for t in tgt:
            if t.get("k") == "MemberExpr" and t["ref"].get("name") in ("n1_id_", "n2_id_", "n3_id_") and "face::" in (t["ref"].get("qn") or ""):
                base = t["c"][0] if t.get("c") else None
                out.append((n, render(base) if base is not None else "this"))
    return out


def _through_reference(fn, e):
    """the object a reference local designates (a reference is bound once, at its declaration)"""
    x = strip(e)
    for _ in range(4):
        if x.get("k") == "DeclRefExpr" and (x.get("ref") or {}).get("dk") == "Var":
            v = [v_ for v_ in walk(fn["body"]) if v_.get("k") == "Var" and v_.get("did") == x["ref"].get("did") and (v_.get("t") or "").rstrip().endswith("&") and isinstance(v_.get("init"), dict)]
            if len(v) == 1:
                x = strip(v[0]["init"])
                continue
        break
    return x


def normal_follows_winding(rep, prog):
    fns = product_fns(prog)
    # 1. direct writers
    dirty = {}   # qn -> "param index of the face made stale" | "this" | "all"
    for fn in fns:
        if not isinstance(fn.get("body"), dict) or fn["qn"].split("<")[0] in RELABEL_ONLY or fn["qn"].startswith("face::face"):
            continue
        w = _writes_face_ids(fn)
        if not w:
            continue
        objs = {o for _, o in w}
        if objs == {"this"} or objs == {""}:
            dirty[fn["qn"]] = "this"
        else:
            idx = [i for i, p_ in enumerate(fn["params"]) if p_["name"] in {o.split(".")[0] for o in objs}]
            dirty[fn["qn"]] = idx[0] if idx else "all"
    if "face::swap_nodes" not in dirty or "cell::check_face_winding_order" not in dirty:
        raise AnalysisBroken("winding writers not recognised: %s" % sorted(dirty))
    n_sites = 0
    changed = True
    reported = set()
    while changed:
        changed = False
        for fn in fns:
            if not isinstance(fn.get("body"), dict):
                continue
            fi = None
            for c in walk(fn["body"]):
                if not is_call(c) or c.get("callee") not in dirty or c.get("callee") == fn["qn"]:
                    continue
                kind = dirty[c["callee"]]
                if kind == "this":
                    o = call_obj(c)
                    what = render(_through_reference(fn, o)) if o is not None else "this"
                elif kind == "all":
                    what = "*"
                else:
                    what = render(_through_reference(fn, call_args(c)[kind]))
                fi = fi or prog.index(fn)
                # refreshers after the call, unconditionally w.r.t. the call, with no exit in between
                good = None
                for r in walk(fn["body"]):
                    if not is_call(r) or r.get("callee") not in (REFRESH_ONE, REFRESH_ALL) or fi.order[id(r)] < fi.order[id(c)]:
                        continue
                    if r.get("callee") == REFRESH_ONE:
                        if what in ("*", "this"):
                            continue
                        ra = render(call_args(r)[0])
                        ra_obj = render(_through_reference(fn, call_args(r)[0]))
                        canon = lambda t_: t_.replace(" ", "").replace("this->", "").split("->")[-1]
                        if not (ra == what or ra_obj == what or canon(ra_obj) == canon(what) or canon(what) == "face_lst_[%s]" % ra.replace(" ", "")):
                            continue
                    anc_r = [id(p_) for p_, _, _ in fi.ancestors(r) if p_.get("k") in ("IfStmt", "ForStmt", "WhileStmt", "DoStmt", "CXXForRangeStmt", "SwitchStmt", "LambdaExpr", "ConditionalOperator")]
                    anc_c = {id(p_) for p_, _, _ in fi.ancestors(c)}
                    if any(a not in anc_c for a in anc_r):
                        continue
                    exits = [x for x in fi.nodes if x.get("k") in ("ReturnStmt", "CXXThrowExpr") and fi.order[id(c)] < fi.order[id(x)] < fi.order[id(r)]]
                    # only exits that can actually be taken after the call (an exit in the other branch of an if is not one)
                    cfg_ = fi.cfg()
                    exits = [x for x in exits if cfg_.may_follow(c, x) is not False]
                    if exits:
                        continue
                    good = r
                    break
                key = (fn["qn"], c.get("l"), c["callee"])
                if good is not None:
                    if key not in reported:
                        reported.add(key)
                        n_sites += 1
                        rep.ok("C01.normal-follows-winding", prog, fn, c, "%s may change the node order of %s; %s follows on every path" % (c["callee"], what if what != "*" else "faces", good["callee"].split("::")[1]))
                    continue
                cls = fn["qn"].split("::")[0]
                if cls in ("cell", "face") and fn["qn"] not in dirty:
                    # private mesh helper: the obligation moves to its callers
                    if what == "this":
                        dirty[fn["qn"]] = "this"
                    else:
                        idx = [i for i, p_ in enumerate(fn["params"]) if p_["name"] == what.split(".")[0].split("[")[0]]
                        dirty[fn["qn"]] = idx[0] if idx else "all"
                    changed = True
                elif cls not in ("cell", "face") and key not in reported:
                    reported.add(key)
                    n_sites += 1
                    rep.violation("C01.normal-follows-winding", prog, fn, c, "%s: cached normal of %s stale after %s" % (fn["qn"].split("::")[-1], what, c["callee"].split("::")[-1]),
                                  "%s calls %s, which may reverse the node order of %s, and never refreshes that face's cached normal/area (update_face_normal_and_area) afterwards: the cached normal is then the negative of the winding normal, and the next operation that orients new faces by the cached normal (split_edge) winds them inside-out" % (fn["qn"], c["callee"], what))
    # public mesh-class functions that stay dirty and have no caller obligation: report the roots
    for qn, kind in sorted(dirty.items()):
        fn = prog.fn(qn, required=False)
        if fn is None:
            continue
        callers = [g for g in fns if isinstance(g.get("body"), dict) and any(is_call(c) and c.get("callee") == qn for c in walk(g["body"])) and g["qn"] != qn]
        if not callers and qn.split("::")[0] in ("cell",) and qn not in ("cell::check_face_winding_order",):
            pass


def _conjuncts(e):
    e = strip(e)
    if e.get("k") == "BinaryOperator" and e.get("op") == "&&":
        return _conjuncts(e["c"][0]) + _conjuncts(e["c"][1])
    return [render(e).replace(" ", "")]


def worklist_filter(rep, prog):
    fn = prog.fn("local_mesh_refiner::merge_edge")
    fi = prog.index(fn)
    wl = [p_ for p_ in fn["params"] if "set" in p_["t"] and "edge" in p_["t"]]
    if len(wl) != 1:
        raise AnalysisBroken("merge_edge: work-list parameter not found")
    gone_nodes = [render(call_args(c)[1]).replace(" ", "") for c in walk(fn["body"]) if is_call(c) and c.get("callee") == "cell::replace_node"]
    gone_faces = [render(call_args(c)[0]).replace(" ", "") for c in walk(fn["body"]) if is_call(c) and c.get("callee") == "cell::delete_face"]
    if len(gone_nodes) != 2 or len(gone_faces) != 2:
        raise AnalysisBroken("merge_edge: %d replace_node / %d delete_face calls" % (len(gone_nodes), len(gone_faces)))
    sites = []
    for c in walk(fn["body"]):
        if c.get("k") == "CXXMemberCallExpr" and c.get("callee", "").endswith("::insert") and render(call_obj(c)) == wl[0]["name"]:
            lam = fi.in_lambda(c)
            ev = render(call_args(c)[0]).replace(" ", "")
            conj = []
            for p_, slot, ch in fi.ancestors(c):
                if lam is not None and p_ is lam:
                    break
                if p_.get("k") == "IfStmt" and slot == "then":
                    conj += _conjuncts(p_["cond"])
            sites.append((c, ev, conj))
    if len(sites) < 1:
        raise AnalysisBroken("merge_edge: %d filtered insertions into the work list" % len(sites))
    for c, ev, conj in sites:
        want = ["!%s.has_node(%s)" % (ev, n) for n in gone_nodes] + ["!%s.has_face(%s)" % (ev, f) for f in gone_faces]
        missing = [w for w in want if w not in conj]
        if missing:
            rep.violation("C01.worklist-filter", prog, fn, c, "work-list insertion not filtered by %s" % ",".join(m.split("(")[-1].rstrip(")") for m in missing),
                          "merge_edge line %s inserts the edge copy %s into the work list without requiring %s: copies that still carry a node replaced or a face deleted by this merge are stale (set::insert does not overwrite them with the corrected copy) and a later operation on them opens the surface" % (c.get("l"), ev, " && ".join(missing)))
        else:
            rep.ok("C01.worklist-filter", prog, fn, c, "insertion guarded by " + " && ".join(want))
    if len({tuple(sorted(cj)) for _, _, cj in sites}) > 1:
        rep.violation("C01.worklist-filter", prog, fn, sites[1][0], "the two insertion sites filter differently", "merge_edge: the filters of the work-list insertions differ: %s" % [cj for _, _, cj in sites])


def swap_precondition(rep, prog):
    """The swap replaces edge (a,b) by edge (c,d). If (c,d) is already an edge of the surface (c and d joined through triangles that
    contain neither a nor b) the two new faces would be the 3rd and 4th face of that edge: add_face throws after the old faces were
    deleted and the surface stays open. Every path to the first delete_face must therefore pass an early return taken when
    get_edge(c, d) has a value."""
    from ..model import expand_text
    rule = "C01.swap-precondition"
    fn = prog.fn("local_mesh_refiner::swap_edge")
    fi = prog.index(fn)
    creates = [x for x in walk(fn["body"]) if is_call(x) and x.get("callee") == "cell::create_face"]
    if len(creates) != 2:
        raise AnalysisBroken("swap_edge: %d create_face calls" % len(creates))
    sets = [{expand_text(fn, a) for a in call_args(c)} for c in creates]
    common = sets[0] & sets[1]
    if len(common) != 2:
        rep.violation(rule, prog, fn, creates[0], "the two new faces do not share exactly one edge", "swap_edge: the faces created by the swap share %d node(s); they must share the new edge" % len(common))
        return
    dels = [x for x in walk(fn["body"]) if is_call(x) and x.get("callee") == "cell::delete_face"]
    if not dels:
        raise AnalysisBroken("swap_edge: no delete_face")
    first = min(fi.order[id(d)] for d in dels)
    guard = None
    for n in walk(fn["body"]):
        if n.get("k") != "IfStmt" or fi.order[id(n)] > first:
            continue
        if fi.enclosing(n, ("IfStmt", "ForStmt", "WhileStmt", "CXXForRangeStmt", "DoStmt", "SwitchStmt")) is not None:
            continue
        if not any(r.get("k") == "ReturnStmt" for r in walk(n.get("then") or {})):
            continue
        for g in walk(n["cond"]):
            if is_call(g) and g.get("callee") == "cell::get_edge" and {expand_text(fn, a) for a in call_args(g)} == common:
                cond_txt = render(n["cond"]).replace(" ", "")
                neg = cond_txt.startswith("!") or "==false" in cond_txt or "!=true" in cond_txt
                if "has_value" in cond_txt and not neg:
                    guard = n
    if guard is not None:
        rep.ok(rule, prog, fn, guard, "returns before the first delete_face when get_edge(opposite node of f1, opposite node of f2) has a value")
    else:
        rep.violation(rule, prog, fn, dels[0], "swap without testing that the new edge is absent",
                      "swap_edge deletes the two faces of the edge (line %s) without first returning when the edge between the two opposite nodes already exists: if those nodes are already joined through other triangles, "
                      "create_face/add_face registers a 3rd face on that edge and throws after the old faces are gone - the surface is left open and edge_set_ no longer matches the triangles" % dels[0].get("l"))


def edge_key_width(rep, prog):
    rule = "C01.edge-key-width"
    fn = prog.fn("edge::hash")
    muls = [n for n in walk(fn["body"]) if n.get("k") == "BinaryOperator" and n.get("op") == "*" and not all(strip(c).get("k") in ("IntegerLiteral", "FloatingLiteral") for c in n["c"])]
    if not muls:
        raise AnalysisBroken("edge::hash: no product found (pairing function changed)")
    bad = [m for m in muls if m.get("t", "").replace("const ", "") in ("unsigned int", "int", "unsigned short", "short")
           and not any(strip(c).get("k") in ("IntegerLiteral", "FloatingLiteral") for c in m["c"])]
    if bad:
        rep.violation(rule, prog, fn, bad[0], "edge key computed in 32-bit arithmetic",
                      "%s multiplies two quantities derived from node ids in %s: the product wraps as soon as the sum of the two node ids reaches 65536 (a cell of ~33k nodes), two different edges then get "
                      "the same key in the ordered edge set, get_edge/add_face operate on the wrong edge and a split or merge throws half-way, leaving the surface open" % (short(bad[0], 80), bad[0].get("t")))
    else:
        rep.ok(rule, prog, fn, muls[0], "pairing function evaluated in %s" % muls[0].get("t"))
