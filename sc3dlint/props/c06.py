"""C06 - the broad phase loses no node-face pair within the interaction range (structural decomposition)."""
import re

import sympy as sp

from .. import e1
from ..model import walk, strip, is_call, call_obj, call_args, render, short, AnalysisBroken
from .. import sym as S
from .c10 import product_fns
from . import c20, c07

EXPLANATION = ("The completeness argument 'node within the cut-off of a face => the pair reaches the narrow phase' is decomposed into "
               "clauses that are each decided on the code of all three contact models: (1) the padding of every face box is max(cut-off "
               "adhesion, cut-off repulsion) and every cut-off the narrow phase compares against is one of {adh^2, rep^2, max(adh^2,rep^2), "
               "max(adh,rep)^2}, hence <= padding^2; (2) update_face_aabbs stores per face (min_x,min_y,min_z,max_x,max_y,max_z) = (min/max of "
               "the three node coordinates -/+ padding) and aabb_intersection_check reads slot k and k+3 for axis k with the matching "
               "comparison; (3) the box index used by the look-up (global_face_id_*6) equals the position written by update_face_aabbs because "
               "run() pushes &f and assigns f.global_face_id_ = counter++ in the same block with the counter starting at 0 after "
               "face_lst_.clear(); (4) registration (start and stop voxel of the box) and look-up (voxel of the node) use the same "
               "quantisation floor((coord - grid.min_axis)/voxel_size) with matching axes; (5) registration loops are inclusive on both "
               "ends in all three axes; (6) the grid is re-dimensioned with the global min/max of the padded boxes in axis order before "
               "registration; (7) the look-up is followed by aabb check then the kernel distance test only (no other filter may discard a "
               "pair except the documented curvature / normal tests). Not decided: floating-point behaviour at voxel borders; equality with "
               "an all-pairs reference as such.")
ASSUMPTIONS = ["monotonicity of floor and of IEEE subtraction/division by a positive voxel size is assumed",
               "non-negative cut-offs"]

RUNS = {0: "contact_node_face_via_spring::run", 1: "contact_node_node_via_coupling::run", 2: "contact_face_face_via_coupling::run"}
LOOKUPS = {0: "contact_node_face_via_spring::resolve_contacts", 1: "contact_node_node_via_coupling::resolve_all_contacts", 2: "contact_face_face_via_coupling::resolve_all_contacts"}


def declare(rep):
    rep.rule("C06.padding-dominates", "box padding is max(adh, rep) and every narrow-phase cut-off is <= padding^2 (lattice table)", floor=2)
    rep.rule("C06.aabb-layout", "update_face_aabbs writes (min xyz, max xyz) = node extrema -/+ padding; aabb_intersection_check reads the matching slots", floor=12)
    rep.rule("C06.face-index", "the box index f->global_face_id_ equals the face's position in face_lst_ (push and id assignment paired, counter from 0 after clear)", floor=1)
    rep.rule("C06.quantisation", "registration and look-up quantise with floor((coord - grid.min_axis)/voxel_size), matching axes", floor=9)
    rep.rule("C06.inclusive-registration", "a face is registered in every voxel from its start to its stop index inclusive, in x, y and z", floor=3)
    rep.rule("C06.grid-extent", "the grid is re-dimensioned with the global min / max of the padded boxes in axis order, before registration", floor=1)
    rep.rule("C06.grid-reset", "re-dimensioning the face grid discards the faces registered in the previous iteration (no pair is presented twice, no stale face pointer)", floor=1)
    rep.rule("C06.box-precision", "the padded boxes are computed, stored and compared in double precision: a box rounded to float can shrink by more than the padding for tissues far from the origin", floor=7)
    rep.rule("C06.registration-serial", "faces are registered in the grid by one thread at a time (forward_list::push_front on a shared voxel is not thread safe: a face is silently lost)", floor=1)
    rep.rule("C06.lookup-pipeline", "look-up: own voxel -> different cell -> aabb check (box of that face) -> narrow phase; order of run(): boxes, grid, look-up", floor=2)


def run(rep, prog, tier):
    if not rep.rules:
        declare(rep)
    cm = prog.config[0]
    padding(rep, prog, cm)
    aabb_layout(rep, prog)
    face_index(rep, prog, cm)
    quantisation(rep, prog, cm)
    registration(rep, prog)
    box_precision(rep, prog)
    registration_serial(rep, prog)
    grid_extent(rep, prog)
    pipeline(rep, prog, cm)
    for f in c20.grid_fns(prog):
        if f["name"] == "update_dimensions" and "face *" in f["key"]:
            if c20.clears_unconditionally(prog, f):
                rep.ok("C06.grid-reset", prog, f, None, "uspg_4d<face*>::update_dimensions clears the voxel contents unconditionally")
            else:
                rep.violation("C06.grid-reset", prog, f, None, "face grid keeps the faces of the previous iteration", "uspg_4d<face*>::update_dimensions does not clear the voxel contents on every call: faces registered in the previous iteration stay in the grid, so a node-face pair is presented (and its force applied) twice, and pointers to faces of removed cells dangle")


def padding(rep, prog, cm):
    base = [f for f in prog.fns("contact_model_abstract::contact_model_abstract") if f.get("params")][0]
    ev = S.SymEval(prog, base)
    try:
        ev.exec_block(base["body"].get("c", []))
        der_qn = RUNS[cm].split("::")[0]
        der = [f for f in prog.fns(der_qn + "::" + der_qn) if f.get("params")][0]
        ev2 = S.SymEval(prog, der)
        ev2.atoms, ev2.store = ev.atoms, ev.store
        ev2.exec_block(der["body"].get("c", []))
    except S.Decline as e:
        raise AnalysisBroken("contact model constructor: %s" % e)
    ca, cr = [sp.Symbol("sim_parameters." + p, real=True) for p in c07.CUTOFF_PARAMS]
    pad = ev.store.get("this.aabb_padding_")
    if pad is not None and sp.simplify(pad - sp.Max(ca, cr)) == 0:
        rep.ok("C06.padding-dominates", prog, base, None, "aabb_padding_ = Max(contact_cutoff_adhesion_, contact_cutoff_repulsion_)")
    else:
        rep.violation("C06.padding-dominates", prog, base, None, "padding is not max of the cut-offs", "aabb_padding_ is set to %s instead of max(cut-off adhesion, cut-off repulsion): a face box may not contain every node within the cut-off" % pad)
    allowed = [ca ** 2, cr ** 2, sp.Max(ca ** 2, cr ** 2), sp.Max(ca, cr) ** 2]
    # cut-off fields used by range tests in the narrow phase
    entry = prog.fn(c07.ENTRY[cm])
    used = set()
    for n in walk(entry["body"]):
        if n.get("k") == "BinaryOperator" and n.get("op") in ("<", "<="):
            r = strip(n["c"][1])
            if r.get("k") == "MemberExpr" and "cutoff" in r["ref"]["name"]:
                used.add(r["ref"]["name"])
    if not used:
        raise AnalysisBroken("no cut-off comparison in %s" % entry["qn"])
    for name in sorted(used):
        v = ev.store.get("this." + name)
        if v is not None and any(sp.simplify(v - a) == 0 for a in allowed):
            rep.ok("C06.padding-dominates", prog, entry, None, "%s = %s <= padding^2" % (name, v))
        else:
            rep.violation("C06.padding-dominates", prog, entry, None, "cut-off %s not bounded by the padding" % name,
                          "the narrow phase compares against %s = %s, which is not one of adh^2, rep^2, max(adh^2,rep^2), max(adh,rep)^2: pairs within that range may lie outside the padded face boxes and be discarded by the broad phase" % (name, v))


def aabb_layout(rep, prog):
    up = prog.fn("contact_model_abstract::update_face_aabbs")
    ins = [n for n in walk(up["body"]) if n.get("k") == "CXXMemberCallExpr" and n.get("callee", "").endswith("::insert") and "face_aabb_lst_" in render(call_obj(n))]
    if len(ins) != 1:
        raise AnalysisBroken("update_face_aabbs: insertion into face_aabb_lst_ not found")
    items = None
    for x in walk(ins[0]):
        if x.get("k") == "InitListExpr" and len(x.get("c", [])) == 6:
            items = x["c"]
    if items is None:
        raise AnalysisBroken("update_face_aabbs: six-element box not found")
    ev = S.SymEval(prog, up)
    pad = ev.sym("this.aabb_padding_")
    layout = []
    for k, it in enumerate(items):
        try:
            v = sp.sympify(ev.ev(it))
        except S.Decline as e:
            raise AnalysisBroken("update_face_aabbs: %s" % e)
        want_kind = "min" if k < 3 else "max"
        want_axis = "xyz"[k % 3]
        core = v + pad if want_kind == "min" else v - pad
        core = sp.simplify(core)
        kind = "min" if isinstance(core, sp.Min) else ("max" if isinstance(core, sp.Max) else None)
        axes = {s_.name[-2] for s_ in core.free_symbols if re.search(r"\.d[xyz]_$", s_.name)}
        nodes = {s_.name.rsplit(".pos_", 1)[0] for s_ in core.free_symbols}
        if kind == want_kind and axes == {want_axis} and len(nodes) == 3 and pad not in core.free_symbols:
            rep.ok("C06.aabb-layout", prog, up, it, "slot %d = %s of the three nodes' %s coordinate %s padding" % (k, kind, want_axis, "-" if kind == "min" else "+"))
            layout.append((kind, want_axis))
        else:
            rep.violation("C06.aabb-layout", prog, up, it, "box slot %d is not %s_%s -/+ padding" % (k, want_kind, want_axis),
                          "update_face_aabbs stores %s in slot %d of the face box, expected the %s over the three nodes of the %s coordinate %s aabb_padding_" % (re.sub(r"#\d+", "", str(v))[:120], k, want_kind, want_axis, "minus" if want_kind == "min" else "plus"))
    chk = prog.fn("contact_model_abstract::aabb_intersection_check")
    pos_p, node_p = chk["params"][0], chk["params"][1]
    n_cmp = 0
    for n in walk(chk["body"]):
        if n.get("k") == "BinaryOperator" and n.get("op") in ("<", ">", "<=", ">="):
            l, r = strip(n["c"][0]), strip(n["c"][1])
            if l.get("k") == "CXXMemberCallExpr" and l.get("callee") in ("vec3::dx", "vec3::dy", "vec3::dz") and r.get("k") == "CXXOperatorCallExpr" and r.get("op") == "[]":
                n_cmp += 1
                ax = l["callee"][-1]
                idx = strip(r["c"][2])
                k = 0
                if idx.get("k") == "BinaryOperator" and idx.get("op") == "+":
                    lit = strip(idx["c"][1])
                    k = int(lit["v"]) if lit.get("k") == "IntegerLiteral" else -1
                    base = strip(idx["c"][0])
                else:
                    base = idx
                base_ok = base.get("k") == "DeclRefExpr" and base["ref"]["did"] == pos_p["did"]
                want_k = "xyz".index(ax) + (0 if n["op"] in ("<", "<=") else 3)
                # the comparison is inside 'if(... ) return false'
                if base_ok and k == want_k:
                    rep.ok("C06.aabb-layout", prog, chk, n, "node %s %s slot %d (%s_%s) -> outside" % (ax, n["op"], k, "min" if k < 3 else "max", ax))
                else:
                    rep.violation("C06.aabb-layout", prog, chk, n, "aabb check compares %s with slot %d" % (ax, k),
                                  "aabb_intersection_check tests the node's %s coordinate '%s' against slot %s of the box; the box layout is (min_x,min_y,min_z,max_x,max_y,max_z), so slot %d is required: nodes inside the box are rejected (lost pairs) or nodes outside accepted" % (ax, n["op"], k, want_k))
    if n_cmp != 6:
        # another form of the test (slabs as Booleans, the box read through a pointer, ...): decide it as a Boolean function of
        # the region (below / inside / above) of each coordinate relative to its slot pair, interpreted for all 27 combinations
        _box_truth_table(rep, prog, chk, pos_p)
        return
    rets = [n for n in walk(chk["body"]) if n.get("k") == "ReturnStmt"]
    fi = prog.index(chk)
    for r in rets:
        v = strip(r.get("value") or {})
        inside_if = fi.enclosing(r, ("IfStmt",)) is not None
        if v.get("k") == "CXXBoolLiteralExpr" and bool(v.get("v")) == (not inside_if):
            continue
        # not the 'if(outside) return false; ... return true;' idiom: decide the function as a Boolean function of the regions
        _box_truth_table(rep, prog, chk, pos_p)
        return


def _box_truth_table(rep, prog, chk, pos_p):
    import itertools
    from .. import finite
    vec_p = [p_ for p_ in chk["params"] if "vec3" in p_["t"]]
    if not vec_p:
        raise AnalysisBroken("aabb_intersection_check: position parameter not found")
    vdid = vec_p[0]["did"]
    ptr_base = {}     # did of a pointer local = face_aabb_lst_.data() + pos  (offset 0)
    for v in walk(chk["body"]):
        if v.get("k") == "Var" and isinstance(v.get("init"), dict) and "*" in v.get("t", ""):
            t = render(v["init"]).replace(" ", "")
            if "face_aabb_lst_.data()" in t and pos_p["name"] in t and not re.search(r"\+\d", t.replace(pos_p["name"], "")):
                ptr_base[v["did"]] = 0
    bad_slot = []

    def slot_of(e):
        e = strip(e)
        idx = None
        if e.get("k") == "CXXOperatorCallExpr" and e.get("op") == "[]" and render(e["c"][1]).endswith("face_aabb_lst_"):
            idx = strip(e["c"][2])
            if idx.get("k") == "BinaryOperator" and idx.get("op") == "+":
                a, b = strip(idx["c"][0]), strip(idx["c"][1])
                if a.get("k") == "DeclRefExpr" and a["ref"]["did"] == pos_p["did"] and b.get("k") == "IntegerLiteral":
                    return int(b["v"])
                if b.get("k") == "DeclRefExpr" and b["ref"]["did"] == pos_p["did"] and a.get("k") == "IntegerLiteral":
                    return int(a["v"])
            if idx.get("k") == "DeclRefExpr" and idx["ref"]["did"] == pos_p["did"]:
                return 0
        if e.get("k") == "ArraySubscriptExpr" and len(e.get("c", [])) == 2:
            b, i_ = strip(e["c"][0]), strip(e["c"][1])
            if b.get("k") == "DeclRefExpr" and b["ref"]["did"] in ptr_base and i_.get("k") == "IntegerLiteral":
                return int(i_["v"])
        return None

    def coord_of(e):
        e = strip(e)
        if e.get("k") == "CXXMemberCallExpr" and e.get("callee") in ("vec3::dx", "vec3::dy", "vec3::dz"):
            o = strip(call_obj(e))
            if o.get("k") == "DeclRefExpr" and o["ref"]["did"] == vdid:
                return e["callee"][-1]
        return None

    results = {}
    for regions in itertools.product((-1, 0, 1), repeat=3):
        reg = dict(zip("xyz", regions))

        def atom(e, it):
            if e.get("k") == "BinaryOperator" and e.get("op") in ("<", ">", "<=", ">="):
                for l, r, op in ((e["c"][0], e["c"][1], e["op"]), (e["c"][1], e["c"][0], {"<": ">", ">": "<", "<=": ">=", ">=": "<="}[e["op"]])):
                    ax, k = coord_of(l), slot_of(r)
                    if ax is not None and k is not None:
                        if k > 5 or "xyz"[k % 3] != ax:
                            bad_slot.append((e, ax, k))
                            return None
                        # value of  p_ax  op  (min if k < 3 else max), with p strictly below / inside / above the slot pair
                        if k < 3:
                            return (reg[ax] == -1) if op in ("<", "<=") else (reg[ax] >= 0)
                        return (reg[ax] == 1) if op in (">", ">=") else (reg[ax] <= 0)
            return NotImplemented
        it = finite.Interp(atom)
        try:
            results[regions] = it.call(chk)
        except finite.Unknown as u:
            raise AnalysisBroken("aabb_intersection_check: %s cannot be interpreted" % u)
    if bad_slot:
        e, ax, k = bad_slot[0]
        rep.violation("C06.aabb-layout", prog, chk, e, "aabb check compares %s with slot %d" % (ax, k),
                      "aabb_intersection_check tests the node's %s coordinate against slot %d of the box; the layout is (min_x,min_y,min_z,max_x,max_y,max_z)" % (ax, k))
        return
    wrong = [(r_, v) for r_, v in results.items() if v is None or bool(v) != (r_ == (0, 0, 0))]
    if not wrong:
        for a in "xyz":
            rep.ok("C06.aabb-layout", prog, chk, None, "box test (interpreted over the 27 below/inside/above combinations): true exactly when every coordinate lies between its min and max slot; axis %s min" % a)
            rep.ok("C06.aabb-layout", prog, chk, None, "box test (interpreted over the 27 below/inside/above combinations): true exactly when every coordinate lies between its min and max slot; axis %s max" % a)
    else:
        r_, v = wrong[0]
        rep.violation("C06.aabb-layout", prog, chk, None, "box test accepts / rejects the wrong region",
                      "aabb_intersection_check returns %s for a node whose coordinates are (%s) relative to the box (-1 below min, 0 inside, +1 above max); it must return true exactly for (0,0,0)" % (v, ", ".join(map(str, r_))))


def face_index(rep, prog, cm, rule="C06.face-index"):
    fn = prog.fn(RUNS[cm])
    fi = prog.index(fn)
    pushes = [n for n in walk(fn["body"]) if n.get("k") == "CXXMemberCallExpr" and n.get("callee", "").endswith("::push_back") and render(call_obj(n)).endswith("face_lst_")]
    ids = []
    for n in walk(fn["body"]):
        if n.get("k") == "BinaryOperator" and n.get("op") == "=":
            l = strip(n["c"][0])
            if l.get("k") == "MemberExpr" and l["ref"].get("qn") == "face::global_face_id_":
                ids.append(n)
    other_writers = []
    for g in product_fns(prog):
        if g is fn or not isinstance(g.get("body"), dict) or g.get("defaulted") or g["name"] == "operator=":
            continue
        if g["qn"] in RUNS.values():
            continue
        for n in walk(g["body"]):
            if n.get("k") in ("BinaryOperator", "CompoundAssignOperator", "UnaryOperator") and n.get("op") in ("=", "+=", "++", "--", "-="):
                l = strip(n["c"][0])
                if l.get("k") == "MemberExpr" and l["ref"].get("qn") == "face::global_face_id_":
                    other_writers.append(g["qn"])
    ok = len(pushes) == 1 and len(ids) == 1 and not other_writers
    why = []
    if not ok:
        why.append("%d push_back into face_lst_, %d assignments of global_face_id_, other writers: %s" % (len(pushes), len(ids), other_writers))
    else:
        p, a = pushes[0], ids[0]
        same_block = fi.enclosing(p, ("CompoundStmt",)) is fi.enclosing(a, ("CompoundStmt",))
        arg = strip(call_args(p)[0])
        pf = strip(arg["c"][0]) if arg.get("k") == "UnaryOperator" and arg.get("op") == "&" else {}
        af = strip(strip(a["c"][0])["c"][0]) if strip(a["c"][0]).get("c") else {}
        same_face = pf.get("k") == "DeclRefExpr" and af.get("k") == "DeclRefExpr" and pf["ref"]["did"] == af["ref"]["did"]
        rhs = strip(a["c"][1])
        counter = None
        if rhs.get("k") == "UnaryOperator" and rhs.get("op") == "++" and rhs.get("postfix") and strip(rhs["c"][0]).get("k") == "DeclRefExpr":
            counter = strip(rhs["c"][0])["ref"]
        if not same_block:
            why.append("push_back and id assignment are not in the same block (one can happen without the other)")
        if not same_face:
            why.append("the face pushed and the face numbered differ")
        if counter is None:
            why.append("the id is not a post-incremented counter")
        else:
            decl = [d for d in walk(fn["body"]) if d.get("k") == "Var" and d.get("did") == counter["did"]]
            zero = decl and strip(decl[0].get("init") or {}).get("k") == "IntegerLiteral" and strip(decl[0]["init"])["v"] == "0"
            if not zero:
                why.append("the counter does not start at 0")
            mods = 0
            for n in walk(fn["body"]):
                if n.get("k") in ("UnaryOperator", "BinaryOperator", "CompoundAssignOperator") and n.get("op") in ("++", "--", "=", "+=", "-="):
                    t = strip(n["c"][0])
                    if t.get("k") == "DeclRefExpr" and t["ref"]["did"] == counter["did"]:
                        mods += 1
            if mods != 1:
                why.append("the counter is modified %d times" % mods)
            clears = [n for n in walk(fn["body"]) if n.get("k") == "CXXMemberCallExpr" and n.get("callee", "").endswith("::clear") and render(call_obj(n)).endswith("face_lst_")]
            if not clears or not (fi.order[id(clears[0])] < fi.order[id(p)]) or fi.enclosing(clears[0], ("ForStmt", "CXXForRangeStmt", "WhileStmt")) is not None:
                why.append("face_lst_ is not cleared once before the numbering loop")
    if not why:
        rep.ok(rule, prog, fn, pushes[0], "face_lst_.push_back(&f) and f.global_face_id_ = counter++ are paired in one block; counter starts at 0 after face_lst_.clear()")
    else:
        rep.violation(rule, prog, fn, pushes[0] if pushes else None, "face id and position in face_lst_ can disagree",
                      "%s: %s. update_face_aabbs stores the box of face_lst_[i] at position i*6 while the look-up reads position global_face_id_*6: if the two numberings differ the aabb check reads another face's box (lost contacts, out-of-bounds read)" % (fn["qn"], "; ".join(why)))


def quantisation(rep, prog, cm):
    for qn in ("contact_model_abstract::store_face_in_uspg", LOOKUPS[cm]):
        fn = prog.fn(qn)
        sites = list(c20.quantisation_sites(fn))
        if (qn.endswith("store_face_in_uspg") and len(sites) != 6) or (not qn.endswith("store_face_in_uspg") and len(sites) != 3):
            rep.violation("C06.quantisation", prog, fn, None, "%d quantisation sites in %s" % (len(sites), qn.split("::")[1]), "%s: expected %s voxel coordinates computed by floor((coord - grid_.min)/grid_.voxel_size_)" % (qn, "6 (start and stop per axis)" if qn.endswith("uspg") else "3"))
        for n in sites:
            c20.check_quant(rep, prog, fn, n, "C06.quantisation", None)


def registration(rep, prog):
    fn = prog.fn("contact_model_abstract::store_face_in_uspg")
    fi = prog.index(fn)
    place = [n for n in walk(fn["body"]) if n.get("k") == "CXXMemberCallExpr" and n.get("callee", "").endswith("::place_object")]
    if len(place) != 1:
        raise AnalysisBroken("store_face_in_uspg: place_object call not found")
    loops = []
    for p, slot, ch in fi.ancestors(place[0]):
        if p.get("k") == "ForStmt":
            loops.append(p)
    loops = loops[:3]
    axes = []
    for l in loops:
        try:
            d = l["init"]["decls"][0]
            lo = strip(d["init"])
            cond = strip(l["cond"])
            hi = strip(cond["c"][1])
            var_ok = strip(cond["c"][0]).get("k") == "DeclRefExpr" and strip(cond["c"][0])["ref"]["did"] == d["did"]
        except (KeyError, IndexError):
            raise AnalysisBroken("store_face_in_uspg: loop header not recognised")
        def origin(e):
            """('start'|'stop', axis) of a local voxel bound: which box slot (min/max) it quantises"""
            if e.get("k") != "DeclRefExpr":
                return None
            from ..model import def_chain
            for x in def_chain(fn, e):
                for y in walk(x):
                    if y.get("k") == "CXXOperatorCallExpr" and y.get("op") == "[]" and render(y["c"][1]).endswith("face_aabb_lst_"):
                        idx = strip(y["c"][2])
                        try:
                            k = int(strip(idx["c"][1])["v"]) if idx.get("k") == "BinaryOperator" and idx.get("op") == "+" else 0
                        except (KeyError, ValueError, TypeError):
                            return None
                        return ("start" if k < 3 else "stop", "xyz"[k % 3])
            return None
        o_lo, o_hi = origin(lo), origin(hi)
        inc = strip(l.get("inc") or {})
        if var_ok and cond.get("op") == "<=" and o_lo and o_hi and o_lo[0] == "start" and o_hi[0] == "stop" and o_lo[1] == o_hi[1] and inc.get("op") == "++":
            rep.ok("C06.inclusive-registration", prog, fn, l, "axis %s: voxels from floor(min) to floor(max) inclusive" % o_lo[1])
            axes.append(o_lo[1])
        else:
            rep.violation("C06.inclusive-registration", prog, fn, l, "registration loop is not [start, stop] inclusive of one axis",
                          "the loop '%s' must run from the voxel of the box minimum to the voxel of the box maximum of the same axis, inclusive (found: from %s %s %s): a face is otherwise missing from a voxel its padded box overlaps" % (short(l["cond"], 60), o_lo, cond.get("op"), o_hi))
    if sorted(axes) != ["x", "y", "z"] and len(axes) == 3:
        rep.violation("C06.inclusive-registration", prog, fn, None, "registration loops cover axes %s" % axes, "the three registration loops must cover x, y and z once each")
    # the voxel the face is placed in is the flattening of the three loop variables in x,y,z order
    gv = [n for n in walk(fn["body"]) if n.get("k") == "CXXMemberCallExpr" and n.get("callee", "").endswith("::get_voxel_index")]
    if len(gv) == 1 and len(loops) == 3:
        args = [strip(a) for a in call_args(gv[0])]
        dids = {}
        for l, ax in zip(loops, axes if len(axes) == 3 else ["?"] * 3):
            dids[l["init"]["decls"][0]["did"]] = ax
        got = [dids.get(a["ref"]["did"]) if a.get("k") == "DeclRefExpr" else None for a in args]
        if got != ["x", "y", "z"]:
            rep.violation("C06.inclusive-registration", prog, fn, gv[0], "voxel index built from axes %s" % got, "get_voxel_index is called with the loop variables of axes %s, expected (x, y, z)" % got)


def grid_extent(rep, prog):
    fn = prog.fn("contact_model_abstract::store_face_in_uspg")
    fi = prog.index(fn)
    ud = [n for n in walk(fn["body"]) if n.get("k") == "CXXMemberCallExpr" and n.get("callee", "").endswith("::update_dimensions")]
    place = [n for n in walk(fn["body"]) if n.get("k") == "CXXMemberCallExpr" and n.get("callee", "").endswith("::place_object")]
    if len(ud) != 1:
        rep.violation("C06.grid-extent", prog, fn, None, "grid not re-dimensioned", "store_face_in_uspg must re-dimension (and clear) the grid exactly once before registering the faces")
        return
    args = [render(a) for a in call_args(ud[0])][1:]
    want = ["global_min_x_", "global_min_y_", "global_min_z_", "global_max_x_", "global_max_y_", "global_max_z_"]
    if args == want and fi.order[id(ud[0])] < fi.order[id(place[0])] and fi.enclosing(ud[0], ("ForStmt", "IfStmt", "CXXForRangeStmt")) is None:
        rep.ok("C06.grid-extent", prog, fn, ud[0], "grid_.update_dimensions(n, global min xyz, global max xyz) precedes the registration loop")
    else:
        rep.violation("C06.grid-extent", prog, fn, ud[0], "grid extent arguments %s" % ",".join(a.replace("global_", "") for a in args), "the grid must be re-dimensioned with (global_min_x_, global_min_y_, global_min_z_, global_max_x_, global_max_y_, global_max_z_) before the faces are registered; found (%s)" % ", ".join(args))
    # the global extrema are the min / max over all padded boxes: every global_m??_?_ is a running extremum (any idiom) of the
    # local that is stored in the matching slot of the face box, directly or through a local accumulator copied into it afterwards
    from .. import lints
    up = prog.fn("contact_model_abstract::update_face_aabbs")
    box = None
    for n in walk(up["body"]):
        if n.get("k") == "CXXMemberCallExpr" and n.get("callee", "").split("::")[-1] in ("insert", "push_back", "emplace_back") and "face_aabb_lst_" in render(call_obj(n)):
            il = [x for x in walk(n) if x.get("k") == "InitListExpr" and len([c_ for c_ in x.get("c", []) if isinstance(c_, dict)]) == 6]
            if il:
                box = [strip(c_) for c_ in il[-1]["c"] if isinstance(c_, dict)]
    slot_of = {}
    if box:
        for k_, b_ in enumerate(box):
            if b_.get("k") == "DeclRefExpr":
                slot_of[b_["ref"]["did"]] = k_
    run_ext = {}      # key of the accumulator (field name or local did) -> (kind, slot of the coordinate)
    for n, tgt, val, kind in lints.extremum_updates(up):
        t_, v_ = strip(tgt), strip(val)
        if v_.get("k") != "DeclRefExpr" or v_["ref"].get("did") not in slot_of:
            continue
        key = t_["ref"]["name"] if t_.get("k") == "MemberExpr" else (t_["ref"].get("did") if t_.get("k") == "DeclRefExpr" else None)
        if key is not None:
            run_ext[key] = (kind, slot_of[v_["ref"]["did"]])
    # globals assigned from a local accumulator (possibly minus the padding, handled by C06.padding / C14.grid)
    for n in walk(up["body"]):
        if n.get("k") == "BinaryOperator" and n.get("op") == "=":
            l = strip(n["c"][0])
            if l.get("k") == "MemberExpr" and l["ref"]["name"].startswith("global_m"):
                for x in walk(n["c"][1]):
                    if x.get("k") == "DeclRefExpr" and x["ref"].get("did") in run_ext and l["ref"]["name"] not in run_ext:
                        run_ext[l["ref"]["name"]] = run_ext[x["ref"]["did"]]
    for name in want:
        kind, ax = name.split("_")[1], name.split("_")[2]
        got = run_ext.get(name)
        if got and got[0] == kind and got[1] == "xyz".index(ax) + (0 if kind == "min" else 3):
            continue
        rep.violation("C06.grid-extent", prog, up, None, "%s is not the running %s of the padded boxes" % (name, kind),
                      "update_face_aabbs must make %s the running %s, over all faces, of the value stored in slot %d of the face box (found %s)" % (name, kind, "xyz".index(ax) + (0 if kind == "min" else 3), got))


def pipeline(rep, prog, cm):
    run = prog.fn(RUNS[cm])
    fi = prog.index(run)
    order = []
    for n in walk(run["body"]):
        if n.get("k") == "CXXMemberCallExpr" and n.get("callee") in ("contact_model_abstract::update_face_aabbs", "contact_model_abstract::store_face_in_uspg", LOOKUPS[cm]):
            if fi.enclosing(n, ("IfStmt", "ForStmt", "CXXForRangeStmt", "WhileStmt")) is None:
                order.append(n["callee"].split("::")[1])
    if order == ["update_face_aabbs", "store_face_in_uspg", LOOKUPS[cm].split("::")[1]]:
        rep.ok("C06.lookup-pipeline", prog, run, None, "run(): boxes -> grid -> look-up, unconditionally and in this order")
    else:
        rep.violation("C06.lookup-pipeline", prog, run, None, "run() phases are %s" % order, "%s must call update_face_aabbs, store_face_in_uspg and the look-up unconditionally in this order (found %s): the look-up would otherwise use boxes / a grid of another iteration" % (run["qn"], order))
    lk = prog.fn(LOOKUPS[cm])
    li = prog.index(lk)
    calls = [n for n in walk(lk["body"]) if is_call(n) and n.get("callee") == c07.ENTRY[cm]]
    # CM 1/2 have a second loop in the same function; only the call inside the parallel look-up counts
    if not calls:
        raise AnalysisBroken("%s does not call the narrow phase" % lk["qn"])
    n = calls[0]
    filters = []
    # the conditions of the enclosing loops bound the iteration over nodes / candidate faces; they are not filters on a pair
    loop_conds = {id(p_.get("cond")) for p_, _s, _c in li.ancestors(n) if p_.get("k") in ("ForStmt", "WhileStmt") and isinstance(p_.get("cond"), dict)}
    for cond, pol in li.guards(n):
        if id(cond) in loop_conds:
            continue
        for x in walk(cond):
            if is_call(x) and x.get("callee"):
                filters.append(x["callee"])
            if x.get("k") == "MemberExpr" and x["ref"].get("dk") == "Field":
                filters.append(x["ref"]["name"])
    allowed = {"node::is_used", "cell::get_id", "face::get_owner_cell", "contact_model_abstract::aabb_intersection_check", "vec3::dot", "node::pos", "cell::get_cell_type",
               "std::shared_ptr<cell>::operator->", "std::shared_ptr<cell_type_parameters>::operator->", "curvature_", "normal_", "max_dot_product_repulsion_", "global_face_id_", "is_used_",
               "surface_coupling_max_curvature_", "cell_type_", "std::__shared_ptr_access<cell, __gnu_cxx::_S_atomic, false, false>::operator->", "std::__shared_ptr_access<cell_type_parameters, __gnu_cxx::_S_atomic, false, false>::operator->"}
    extra = sorted(f for f in set(filters) - allowed if not f.endswith("::size"))
    aabb = [x for cond, pol in li.guards(n) for x in walk(cond) if is_call(x) and x.get("callee") == "contact_model_abstract::aabb_intersection_check"]
    box_ok = False
    if aabb:
        a0 = strip(call_args(aabb[0])[0])
        txt = render(a0)
        if "global_face_id_" in txt:
            box_ok = True
        elif a0.get("k") == "DeclRefExpr":
            for v in walk(lk["body"]):
                if v.get("k") == "Var" and v.get("did") == a0["ref"]["did"] and isinstance(v.get("init"), dict) and "global_face_id_" in render(v["init"]) and "6" in render(v["init"]):
                    box_ok = True
    # every candidate is examined: nothing leaves the loops over the nodes / candidate faces early
    loops_ = [p_ for p_, _s, _c in li.ancestors(n) if p_.get("k") in ("ForStmt", "WhileStmt", "CXXForRangeStmt", "DoStmt")]
    early = []
    for lp in loops_:
        for x in walk(lp.get("body") or {}, into_lambdas=False):
            if x.get("k") in ("ReturnStmt", "GotoStmt"):
                early.append((x, lp))
            elif x.get("k") == "BreakStmt":
                near = li.enclosing(x, ("ForStmt", "WhileStmt", "CXXForRangeStmt", "DoStmt", "SwitchStmt"))
                if near is lp:
                    early.append((x, lp))
    if early:
        x, lp = early[0]
        rep.violation("C06.lookup-pipeline", prog, lk, x, "the scan of the candidates is left early",
                      "%s leaves the loop at line %s with '%s' (line %s): the candidates (faces of the voxel / nodes of the cell) that come after the one being examined are never handed to the narrow phase, although they may lie within the cut-off - which contacts are found depends on the order in which the faces were stored in the voxel" % (lk["qn"], lp.get("l"), x.get("k").replace("Stmt", "").lower(), x.get("l")))
    else:
        rep.ok("C06.lookup-pipeline", prog, lk, loops_[0] if loops_ else n, "no break / return leaves the %d loops around the narrow phase: every node and every candidate face is examined" % len(loops_))
    if not extra and box_ok:
        rep.ok("C06.lookup-pipeline", prog, lk, n, "narrow phase reached under: node used, different cell, aabb check on box global_face_id_*6 (+ documented curvature / normal tests)")
    else:
        rep.violation("C06.lookup-pipeline", prog, lk, n, "look-up applies an extra filter or the wrong box: %s" % (",".join(extra) or "box index"),
                      "%s: the pair is handed to the narrow phase only under additional condition(s) %s%s: pairs within the cut-off can be discarded before the distance test" % (lk["qn"], extra, "" if box_ok else "; the aabb check is not given f->global_face_id_*6"))


def box_precision(rep, prog):
    rule = "C06.box-precision"
    rec = prog.records.get("contact_model_abstract")
    fld = [f for f in (rec or {}).get("fields", []) if f.get("name") == "face_aabb_lst_"]
    if not fld:
        raise AnalysisBroken("contact_model_abstract::face_aabb_lst_ not found")
    t = fld[0].get("t", "")
    fn0 = prog.fn("contact_model_abstract::update_face_aabbs")
    if "double" in t and "float" not in t:
        rep.ok(rule, prog, fn0, None, "face_aabb_lst_ is %s" % t)
    else:
        rep.violation(rule, prog, fn0, None, "face boxes stored as %s" % t,
                      "contact_model_abstract::face_aabb_lst_ has type %s: rounding a padded bound to single precision moves it by up to half a float ulp of the coordinate (about 6e-8 x |coordinate|); for a tissue placed far "
                      "from the origin that exceeds the padding margin and a node within the cut-off fails aabb_intersection_check" % t)
    for qn in ("contact_model_abstract::update_face_aabbs", "contact_model_abstract::aabb_intersection_check", "contact_model_abstract::store_face_in_uspg"):
        fn = prog.fn(qn)
        for n in walk(fn["body"]):
            if n.get("k") == "Var" and isinstance(n.get("init"), dict) and re.search(r"\b(float|double)\b", n.get("t", "")) and "<" not in n.get("t", ""):
                if "float" in n["t"]:
                    rep.violation(rule, prog, fn, n, "%s is a float" % n.get("name"), "%s: '%s' holds a box coordinate in single precision (%s)" % (qn, n.get("name"), short(n, 80)))
                else:
                    rep.ok(rule, prog, fn, n, "%s is %s" % (n.get("name"), n["t"]))
            if n.get("k") in ("ImplicitCastExpr", "CXXStaticCastExpr", "CStyleCastExpr") and n.get("ck") == "FloatingCast" and n.get("t", "").replace("const ", "") == "float":
                rep.violation(rule, prog, fn, n, "coordinate narrowed to float", "%s: %s converts a coordinate to float" % (qn, short(n, 80)))


def registration_serial(rep, prog):
    rule = "C06.registration-serial"
    fn = prog.fn("contact_model_abstract::store_face_in_uspg")
    fi = prog.index(fn)
    place = [n for n in walk(fn["body"]) if n.get("k") == "CXXMemberCallExpr" and n.get("callee", "").endswith("::place_object")]
    if not place:
        raise AnalysisBroken("store_face_in_uspg: place_object call not found")
    for pl in place:
        par = None
        for p, slot, ch in fi.ancestors(pl):
            o = p.get("omp")
            if o and ("critical" in o or "single" in o or "master" in o):
                break
            if o and "parallel" in o:
                par = p
                break
        if par is None:
            rep.ok(rule, prog, fn, pl, "place_object is not executed inside a parallel region")
        else:
            rep.violation(rule, prog, fn, pl, "faces registered concurrently",
                          "%s runs inside the '#pragma omp %s' region of line %s without a critical section: two threads pushing a face on the forward_list of the same voxel lose one of them, "
                          "so the nodes of that voxel are never presented that face in this iteration" % (short(pl, 60), par.get("omp"), par.get("l")))
