"""C16 - mesh files written by the simulator are read back as the same tissue (writer/reader table agreement)."""
import re

from ..model import walk, strip, is_call, call_obj, call_args, render, short, AnalysisBroken
from .c10 import product_fns

EXPLANATION = ("Binding-table agreement between mesh_writer and mesh_reader, extracted from the AST: (1) every section line the writer emits "
               "(built by string concatenation; std::to_string(..) replaced by a digit string) is matched by the regular expression the "
               "reader uses for that section - POINTS n float, CELLS a b, CELL_TYPES n, the 42 cell type, the cell_type_id field header; "
               "(2) the writer's coordinate format (%.4e) only produces tokens that the reader's number regex matches entirely, and the "
               "reader accepts the coordinate type the writer declares; (3) declared counts agree with what is emitted: POINTS count = sum "
               "of node_lst sizes and the coordinate extractor emits exactly three values per element of node_lst_; each cell record declares "
               "1+4F integers and emits one face count plus, per face, the literal 3 followed by the three node ids of get_node_ids(); CELLS "
               "declares cell_lst.size() records and sum(declared)+n integers; CELL_TYPES declares and emits nb_cells lines of 42; the "
               "cell_type_id array declares cell_lst.size() values and emits one per cell from global_type_id_; node ids are written with "
               "the offset of their own cell; (4) the reader requires cell type 42 and reads the record length as the first integer. Not "
               "decided: equality of content after a round trip, precision loss of %.4e.")
ASSUMPTIONS = ["C++ ECMAScript regexes used by the reader are simple enough to be evaluated with Python's re (character classes, groups, + and {n,})"]


def declare(rep):
    rep.rule("C16.section-lines", "each section line emitted by the writer is matched by the reader's regex for that section", floor=4)
    rep.rule("C16.number-format", "the writer's coordinate format only produces tokens the reader's number regex matches entirely", floor=1)
    rep.rule("C16.declared-counts", "declared counts (points, per-cell integers, cells, cell types, field length) agree with what the loops emit", floor=5)
    rep.rule("C16.reader-conventions", "the reader requires cell type 42 and takes the first integer of a record as its length", floor=2)
    rep.rule("C16.compact-before-count", "the cells are compacted (rebase) before any count, offset or coordinate is taken from them", floor=1)
    rep.rule("C16.no-narrowing", "the coordinate handed to the formatter is the double itself (no narrowing conversion)", floor=1)
    rep.rule("C16.array-extent", "every array the reader extracts ends at the next keyword (letters) or the end of file - the writer wraps arrays over several lines", floor=4)


def template(fn, e, depth=0):
    """String template of a concatenation expression: literals kept, std::to_string(..) -> '7', other strings -> <x>."""
    e = strip(e)
    k = e.get("k")
    if k == "StringLiteral":
        return e.get("v", "")
    if k in ("CXXConstructExpr", "CXXTemporaryObjectExpr", "CXXFunctionalCastExpr") and e.get("c"):
        return template(fn, e["c"][0], depth + 1)
    if k == "CXXOperatorCallExpr" and e.get("op") == "+" and len(e["c"]) == 3:
        return template(fn, e["c"][1], depth + 1) + template(fn, e["c"][2], depth + 1)
    if k == "CallExpr" and e.get("callee", "").startswith("std::operator+"):
        a = call_args(e)
        return template(fn, a[0], depth + 1) + template(fn, a[1], depth + 1)
    if k == "CallExpr" and e.get("callee") == "std::to_string":
        return "7"
    if k == "DeclRefExpr" and depth < 6:
        for d in walk(fn["body"]):
            if d.get("k") == "Var" and d.get("did") == e["ref"]["did"] and isinstance(d.get("init"), dict) and "basic_string" in d.get("t", ""):
                return template(fn, d["init"], depth + 1)
        return "<%s>" % e["ref"]["name"]
    if k == "MemberExpr":
        return "<%s>" % e["ref"]["name"]
    return "<?>"


def emitted_templates(fn):
    out = []
    for n in walk(fn["body"]):
        if n.get("k") == "CXXOperatorCallExpr" and n.get("op") == "<<" and len(n["c"]) == 3:
            out.append((template(fn, n["c"][2]), n))
        if n.get("k") == "CallExpr" and n.get("callee", "").startswith("std::operator<<"):
            a = call_args(n)
            out.append((template(fn, a[1]), n))
    return out


def regexes(fn):
    out = {}
    for n in walk(fn["body"]):
        if n.get("k") == "Var" and "basic_regex" in n.get("t", "") and isinstance(n.get("init"), dict):
            lits = [x.get("v") for x in walk(n["init"]) if x.get("k") == "StringLiteral"]
            if lits:
                out[n["name"]] = (lits[0], n)
    return out


def run(rep, prog, tier):
    if not rep.rules:
        declare(rep)
    wfile = [f for f in prog.fns("mesh_writer::write_cell_data_file") if "std::shared_ptr<cell>" in f["key"] and "basic_ofstream" in f["key"]]
    wcell = [f for f in prog.fns("mesh_writer::write_cell_data") if "std::shared_ptr<cell>" in f["key"]]
    warr = [f for f in prog.fns("mesh_writer::add_cell_data_arrays_to_mesh") if "std::shared_ptr<cell>" in f["key"]]
    if len(warr) != 1:
        raise AnalysisBroken("mesh_writer::add_cell_data_arrays_to_mesh(ofstream&, vector<cell_ptr>) not found")
    warr = warr[0]
    if len(wfile) != 1 or len(wcell) != 1:
        raise AnalysisBroken("mesh_writer functions for cell lists not found")
    wfile, wcell = wfile[0], wcell[0]
    r_pos, r_faces, r_types = prog.fn("mesh_reader::get_node_pos"), prog.fn("mesh_reader::read_cell_faces"), prog.fn("mesh_reader::get_cell_types")
    rx_pos, rx_faces, rx_types = regexes(r_pos), regexes(r_faces), regexes(r_types)
    tw = emitted_templates(wfile) + emitted_templates(wcell)
    def find_line(key):
        return [(t, n) for t, n in tw if key in t]
    pairs = [("POINTS ", rx_pos, lambda p: p.startswith("POINTS"), wfile),
             ("CELLS ", rx_faces, lambda p: p.startswith("CELLS"), wcell),
             ("CELL_TYPES ", rx_faces, lambda p: p.startswith("CELL_TYPES"), wcell)]
    for key, rxs, sel, wfn in pairs:
        lines = find_line(key)
        cands = [(nm, pat) for nm, (pat, node) in rxs.items() if sel(pat)]
        if not lines or not cands:
            rep.violation("C16.section-lines", prog, wfn, None, "section %s not written or not read" % key.strip(), "writer lines containing '%s': %d; reader regexes for it: %d" % (key, len(lines), len(cands)))
            continue
        t, n = lines[0]
        pat = cands[0][1]
        if re.search(pat, t):
            rep.ok("C16.section-lines", prog, wfn, n, "writer emits %r, reader regex %r matches" % (t.strip(), pat))
        else:
            rep.violation("C16.section-lines", prog, wfn, n, "reader regex does not match the %s line" % key.strip(), "the writer emits %r but the reader looks for %r: files written by the simulator cannot be read back" % (t, pat))
    # POINTS type accepted by the reader
    tline = find_line("POINTS ")
    if tline:
        ty = tline[0][0].strip().split(" ")[-1]
        accepted = set()
        for n in walk(r_pos["body"]):
            if n.get("k") in ("CXXOperatorCallExpr", "BinaryOperator") and n.get("op") == "!=":
                for x in walk(n):
                    if x.get("k") == "StringLiteral":
                        accepted.add(x["v"])
        if ty in accepted:
            rep.ok("C16.section-lines", prog, r_pos, None, "coordinate type %r declared by the writer is accepted by the reader (%s)" % (ty, sorted(accepted)))
        else:
            rep.violation("C16.section-lines", prog, r_pos, None, "reader rejects the coordinate type %s" % ty, "the writer declares POINTS n %s but the reader only accepts %s" % (ty, sorted(accepted)))
    # field header
    th = [(t, n) for t, n in emitted_templates(warr) if "<value_name_>" in t]
    mapper = prog.functions.get("<init> cell_data_mapper_lst")
    names = []
    if mapper:
        for n in walk(mapper["body"]):
            if n.get("k") in ("CXXConstructExpr", "CXXTemporaryObjectExpr") and n.get("cls") == "cell_data_mapper":
                lits = [x.get("v") for x in walk(n) if x.get("k") == "StringLiteral"]
                lam = [x for x in walk(n) if x.get("k") == "LambdaExpr"]
                names.append((lits[0], lits[1] if len(lits) > 1 else "", lam[0] if lam else None, n))
    ct = [x for x in names if x[0] == "cell_type_id"]
    pat = [p for nm, (p, node) in rx_types.items() if "ell_type_id" in p]
    if th and ct and pat:
        line = th[0][0].replace("<value_name_>", ct[0][0]).replace("<value_type_>", ct[0][1])
        if re.search(pat[0], line):
            rep.ok("C16.section-lines", prog, warr, th[0][1], "field header %r matched by %r" % (line.strip(), pat[0]))
        else:
            rep.violation("C16.section-lines", prog, warr, th[0][1], "reader cannot locate the cell_type_id array", "the writer emits the field header %r, the reader searches %r" % (line, pat[0]))
        srcs = {x["ref"]["name"] for x in walk(ct[0][2]["body"]) if x.get("k") == "MemberExpr" and x["ref"].get("dk") == "Field"}
        if "global_type_id_" in srcs:
            rep.ok("C16.declared-counts", prog, mapper, ct[0][3], "cell_type_id values come from global_type_id_")
        else:
            rep.violation("C16.declared-counts", prog, mapper, ct[0][3], "cell_type_id array is not the cells' type id", "the cell_type_id mapper reads %s" % sorted(srcs))
    else:
        rep.violation("C16.section-lines", prog, warr, None, "cell_type_id array missing", "writer field header / cell_type_id mapper / reader regex not found (%d/%d/%d)" % (len(th), len(ct), len(pat)))
    number_format(rep, prog, rx_pos, r_pos)
    declared_counts(rep, prog, wfile, wcell, warr)
    reader_conventions(rep, prog, r_faces)
    compact_before_count(rep, prog, wfile)
    no_narrowing(rep, prog)
    array_extent(rep, prog, [("POINTS", r_pos), ("CELL_TYPES", r_faces), ("CELLS", r_faces), ("ell_type_id", r_types)], warr)


def number_format(rep, prog, rx_pos, r_pos):
    wp = [f for f in prog.fns("mesh_writer::write_point_data") if isinstance(f.get("body"), dict)]
    fmts = set()
    for f in wp:
        for n in walk(f["body"]):
            if n.get("k") == "CallExpr" and n.get("callee") == "format_number":
                for x in walk(call_args(n)[1]):
                    if x.get("k") == "StringLiteral":
                        fmts.add(x["v"])
    num = [p for nm, (p, node) in rx_pos.items() if "\\d" in p and "e|E" in p or ("[\\d.]" in p)]
    if len(fmts) != 1 or not num:
        raise AnalysisBroken("coordinate format / number regex not found (%s / %s)" % (fmts, list(rx_pos)))
    fmt = fmts.pop()
    pat = num[0]
    samples = [0.0, 1.5, -2.25e-120, 1e300, -1e-300, 123456.789, -0.000123]
    bad = []
    for v in samples:
        s = fmt % v
        m = re.search(pat, s)
        if not (m and m.group(0) == s):
            bad.append(s)
    ends = [p for nm, (p, node) in rx_pos.items() if "A-Za-z" in p]
    # the end-of-section detector must not fire inside a number
    if ends:
        for v in samples:
            if re.search(ends[0], fmt % v):
                bad.append("%s cut by %s" % (fmt % v, ends[0]))
    if not bad:
        rep.ok("C16.number-format", prog, wp[0], None, "format %r: tokens such as %s are matched entirely by %r" % (fmt, [fmt % v for v in samples[:3]], pat))
    else:
        rep.violation("C16.number-format", prog, wp[0], None, "reader cannot parse the writer's number format", "tokens %s written with %r are not matched entirely by the reader's regex %r" % (bad[:3], fmt, pat))


def declared_counts(rep, prog, wfile, wcell, warr):
    # POINTS: count lambda uses get_node_lst().size(); extractor get_flat_node_coord_lst() emits 3 per node of node_lst_
    lam_count = [n for n in walk(wfile["body"]) if n.get("k") == "Var" and n.get("name") == "get_cell_nb_nodes"]
    lam_pos = [n for n in walk(wfile["body"]) if n.get("k") == "Var" and n.get("name") == "node_pos_extractor"]
    ok = False
    if lam_count and lam_pos:
        c_src = render(lam_count[0]["init"])
        p_calls = [x.get("callee") for x in walk(lam_pos[0]["init"]) if is_call(x)]
        cnt_calls = [x.get("callee") for x in walk(lam_count[0]["init"]) if is_call(x)]
        flat = prog.fn("cell::get_flat_node_coord_lst")
        loops = [n for n in walk(flat["body"]) if n.get("k") == "CXXForRangeStmt" and render(n["range"]) == "node_lst_"]
        pushes = [x for x in walk(loops[0]["body"]) if x.get("k") == "CXXMemberCallExpr" and x.get("callee", "").endswith("::push_back")] if loops else []
        axes = [strip(call_args(x)[0]).get("callee") for x in pushes]
        fi = prog.index(flat)
        uncond = all(fi.enclosing(x, ("IfStmt",)) is None for x in pushes)
        ok = "cell::get_node_lst" in cnt_calls and any(c and c.endswith("::size") for c in cnt_calls) and "cell::get_flat_node_coord_lst" in p_calls and axes == ["vec3::dx", "vec3::dy", "vec3::dz"] and uncond
        total = [n for n in walk(wfile["body"]) if n.get("k") == "Var" and n.get("name") == "total_nb_nodes"]
        ok = ok and total and "back" in render(total[0]["init"]) and "node_id_offset_lst" in render(total[0]["init"])
    if ok:
        rep.ok("C16.declared-counts", prog, wfile, None, "POINTS count = sum of node_lst_.size(); coordinates = (dx,dy,dz) of every element of node_lst_")
    else:
        rep.violation("C16.declared-counts", prog, wfile, None, "declared number of points differs from the coordinates written", "the POINTS count must be the sum of the cells' node_lst sizes and get_flat_node_coord_lst must emit dx,dy,dz for every element of node_lst_ unconditionally")
    # per-cell record
    fi = prog.index(wcell)
    decl = [n for n in walk(wcell["body"]) if n.get("k") == "Var" and n.get("name") == "nb_int_cell"]
    rec_ok = False
    if decl:
        txt = render(decl[0]["init"]).replace(" ", "")
        rec_ok = bool(re.match(r"^\(1\+\(.*get_face_lst\(\).*size\(\)\*4\)\)$", txt)) or ("get_face_lst" in txt and "*4" in txt and txt.startswith("(1+"))
    three = [n for n in walk(wcell["body"]) if n.get("k") == "CallExpr" and n.get("callee") == "std::to_string" and strip(call_args(n)[0]).get("k") == "IntegerLiteral"]
    ids_loop = [n for n in walk(wcell["body"]) if n.get("k") == "CXXForRangeStmt" and "get_node_ids" in render(n["range"])]
    arr3 = bool(ids_loop) and "std::array<unsigned int, 3>" in strip(ids_loop[0]["range"]).get("t", "")
    lit3 = bool(three) and strip(call_args(three[0])[0]).get("v") == "3"
    off = False
    for n in walk(wcell["body"]):
        if n.get("k") == "CallExpr" and n.get("callee") == "std::to_string" and ids_loop and any(x is n for x in walk(ids_loop[0]["body"])):
            a = strip(call_args(n)[0])
            if a.get("k") == "BinaryOperator" and a.get("op") == "+" and {render(a["c"][0]).split("#")[0], render(a["c"][1]).split("#")[0]} == {ids_loop[0]["var"]["name"], "node_id_offset"}:
                off = True
    offdecl = [n for n in walk(wcell["body"]) if n.get("k") == "Var" and n.get("name") == "node_id_offset"]
    off = off and offdecl and re.match(r"^node_id_offset_lst\[i", render(offdecl[0]["init"]).replace("#", "[") .replace("[[", "[")) is not None or (off and offdecl and "node_id_offset_lst[i" in re.sub(r"#\d+", "", render(offdecl[0]["init"])))
    if rec_ok and arr3 and lit3 and off:
        rep.ok("C16.declared-counts", prog, wcell, decl[0], "cell record: declares 1+4F integers; emits F, then per face the literal 3 and the 3 node ids + the cell's own offset")
    else:
        rep.violation("C16.declared-counts", prog, wcell, decl[0] if decl else None, "cell record length / content inconsistent", "per-cell record: declared length 1+4F: %s; faces written as '3 a b c' with get_node_ids() of size 3: %s/%s; node ids offset by node_id_offset_lst[i]: %s" % (rec_ok, lit3, arr3, bool(off)))
    # CELLS header counts and CELL_TYPES
    nbc = [n for n in walk(wcell["body"]) if n.get("k") == "Var" and n.get("name") == "nb_cells"]
    tot = [n for n in walk(wcell["body"]) if n.get("k") == "Var" and n.get("name") == "nb_integer_tissue"]
    loops = [n for n in walk(wcell["body"]) if n.get("k") == "ForStmt"]
    ok2 = bool(nbc) and render(nbc[0]["init"]).replace(" ", "") == "cell_lst.size()" and bool(tot) and "std::accumulate" in render(tot[0]["init"]) and "cell_int_size" in render(tot[0]["init"]) and "cell_lst.size()" in render(tot[0]["init"]).replace(" ", "")
    rec_loop = [l for l in loops if "cell_lst.size()" in render(l["cond"]).replace(" ", "")]
    ty_loop = [l for l in loops if "nb_cells" in render(l["cond"]) and any(x.get("k") == "StringLiteral" and x.get("v") == "42\n" for x in walk(l["body"]))]
    if ok2 and rec_loop and ty_loop:
        rep.ok("C16.declared-counts", prog, wcell, nbc[0], "CELLS declares cell_lst.size() records and sum(declared)+n integers; one record per cell; CELL_TYPES emits nb_cells lines of 42")
    else:
        rep.violation("C16.declared-counts", prog, wcell, nbc[0] if nbc else None, "CELLS / CELL_TYPES counts inconsistent", "CELLS must declare cell_lst.size() records and accumulate(cell_int_size)+cell_lst.size() integers, emit one record per cell, and CELL_TYPES must emit nb_cells lines '42'")
    # data arrays
    fa = prog.index(warr)
    nb = [n for n in walk(warr["body"]) if n.get("k") == "Var" and n.get("name") == "nb_cells"]
    loops = [n for n in walk(warr["body"]) if n.get("k") == "ForStmt" and "cell_lst.size()" in render(n["cond"]).replace(" ", "")]
    ex = [x for x in walk(warr["body"]) if "value_extractor_" in render(x) and is_call(x)]
    if nb and render(nb[0]["init"]).replace(" ", "") == "cell_lst.size()" and loops and ex:
        rep.ok("C16.declared-counts", prog, warr, nb[0], "each data array declares cell_lst.size() values and emits one per cell")
    else:
        rep.violation("C16.declared-counts", prog, warr, nb[0] if nb else None, "data array length differs from the values written", "add_cell_data_arrays_to_mesh must declare cell_lst.size() values per array and emit exactly one value per cell")


def reader_conventions(rep, prog, r_faces):
    lit42 = [n for n in walk(r_faces["body"]) if n.get("k") == "BinaryOperator" and n.get("op") == "!=" and strip(n["c"][1]).get("v") == "42"]
    if lit42:
        rep.ok("C16.reader-conventions", prog, r_faces, lit42[0], "reader requires cell type 42 (what the writer emits)")
    else:
        rep.violation("C16.reader-conventions", prog, r_faces, None, "reader no longer expects cell type 42", "read_cell_faces must reject cell types other than 42, the type the writer emits")
    cmp_ = [n for n in walk(r_faces["body"]) if n.get("k") == "BinaryOperator" and n.get("op") == "!=" and "nb_cell_data" in render(n) and "size" in render(n)]
    if cmp_:
        rep.ok("C16.reader-conventions", prog, r_faces, cmp_[0], "reader checks that a record holds as many integers as its first integer declares")
    else:
        rep.violation("C16.reader-conventions", prog, r_faces, None, "record length not verified", "read_cell_faces must compare the declared record length with the integers actually read")


def compact_before_count(rep, prog, wfile):
    fi = prog.index(wfile)
    reb = [n for n in walk(wfile["body"]) if is_call(n) and n.get("callee") == "cell::rebase"]
    if len(reb) != 1:
        raise AnalysisBroken("write_cell_data_file(ofstream&, vector<cell_ptr>&, bool): %d calls of cell::rebase" % len(reb))
    # the top-level statement holding the rebase
    stmts = wfile["body"].get("c", [])
    def top_of(n):
        for i, s_ in enumerate(stmts):
            if any(x is n for x in walk(s_)):
                return i
        return None
    ri = top_of(reb[0])
    # before the compaction nothing may be taken from the cells: no statement may mention the cell list except for its size
    plist = [p_ for p_ in wfile["params"] if "vector" in p_["t"] and "cell" in p_["t"]]
    if len(plist) != 1:
        raise AnalysisBroken("write_cell_data_file: cell list parameter not found")
    evaluated = []
    for s_ in stmts[:ri or 0]:
        for x in walk(s_):
            if x.get("k") == "DeclRefExpr" and x["ref"].get("name") == plist[0]["name"] and x["ref"].get("dk") == "ParmVar":
                par = fi.parent.get(id(x), (None, None))[0]
                while par is not None and par.get("k") in ("ImplicitCastExpr", "ParenExpr"):
                    par = fi.parent.get(id(par), (None, None))[0]
                up = fi.parent.get(id(par), (None, None))[0] if par is not None else None
                if par is not None and par.get("k") == "MemberExpr" and up is not None and up.get("callee", "").split("::")[-1] in ("size", "empty"):
                    continue
                if up is not None and up.get("callee", "").split("::")[-1] in ("size", "empty") or (par is not None and par.get("callee", "").split("::")[-1] in ("size", "empty")):
                    continue
                evaluated.append(x)
    if ri is not None and not evaluated:
        rep.ok("C16.compact-before-count", prog, wfile, reb[0], "rebase of every cell is the first thing evaluated on the cells: the counts, offsets and coordinates are taken afterwards")
    else:
        x = evaluated[0] if evaluated else None
        rep.violation("C16.compact-before-count", prog, wfile, x, "the cell list is used before the cells are compacted",
                      "write_cell_data_file (line %s) reads %s from the cells before cell::rebase() has removed their unused node/face slots: the declared POINTS count and the node-id offsets of the later cells no longer agree with the coordinates written afterwards" % (x.get("l") if x else "?", "the cell list"))


def no_narrowing(rep, prog):
    wp = [f for f in prog.fns("mesh_writer::write_point_data") if isinstance(f.get("body"), dict)]
    n_ok = 0
    for f in wp:
        for n in walk(f["body"]):
            if n.get("k") == "CallExpr" and n.get("callee") == "format_number":
                a = call_args(n)[0]
                narrowing = [x for x in walk(a) if x.get("k") in ("CXXStaticCastExpr", "CStyleCastExpr", "CXXFunctionalCastExpr", "ImplicitCastExpr") and x.get("t") in ("float", "int", "long", "unsigned int", "short")]
                if narrowing or strip(a).get("t", "").replace("const ", "") != "double":
                    rep.violation("C16.no-narrowing", prog, f, n, "coordinate converted to %s before it is written" % (narrowing[0].get("t") if narrowing else strip(a).get("t")),
                                  "write_point_data formats %s: the coordinate is narrowed before it is written, values outside that type's range become inf/0 and the file does not read back as the same tissue" % render(a))
                else:
                    n_ok += 1
                    rep.ok("C16.no-narrowing", prog, f, n, "format_number receives the double coordinate %s" % render(a))
    if not n_ok and not any(i["rule"] == "C16.no-narrowing" for i in rep.instances):
        raise AnalysisBroken("write_point_data: no format_number call found")


LETTER_CLASS = re.compile(r"^\(*\[A-Z(a-z)?_?\]\)*(\{\d+,\d*\})?$")


def array_extent(rep, prog, sections, warr):
    # the writer wraps arrays: a newline is emitted inside the per-value loop of the data arrays
    wraps = any(x.get("k") == "StringLiteral" and "\n" in x.get("v", "") for l in walk(warr["body"]) if l.get("k") == "ForStmt" for x in walk(l["body"]))
    for key, fn in sections:
        rx = regexes(fn)
        hdr = [(nm, pat, node) for nm, (pat, node) in rx.items() if (pat.startswith(key + " ") or (key == "ell_type_id" and key in pat[:20]))]
        if not hdr:
            rep.violation("C16.array-extent", prog, fn, None, "header regex for %s not found" % key, "reader function %s has no header regex for section %s" % (fn["qn"], key))
            continue
        fi = prog.index(fn)
        hnode = hdr[0][2]
        # terminators: letter-class regexes declared after the header regex and used in a regex_search whose match position is read
        terms = []
        for nm, (pat, node) in rx.items():
            if LETTER_CLASS.match(pat) and fi.order[id(node)] > fi.order[id(hnode)]:
                used = [c for c in walk(fn["body"]) if is_call(c) and c.get("callee", "").startswith("std::regex_search") and any(x.get("k") == "DeclRefExpr" and x["ref"].get("did") == node.get("did") for x in walk(c))]
                if used:
                    terms.append((fi.order[id(node)], nm, pat, node))
        terms.sort()
        # the first terminator after this header and before the next header regex
        later_hdrs = [fi.order[id(nd)] for nm, (pat, nd) in rx.items() if fi.order[id(nd)] > fi.order[id(hnode)] and re.match(r"^(\[C\|c\]|[A-Z]{4,})", pat)]
        bound = min(later_hdrs) if later_hdrs else 10 ** 9
        mine = [t for t in terms if t[0] < bound]
        if mine:
            rep.ok("C16.array-extent", prog, fn, mine[0][3], "%s array ends at the next keyword: regex %r searched in the text after the header%s" % (key, mine[0][2], " (the writer wraps arrays over lines)" if wraps else ""))
        else:
            rep.violation("C16.array-extent", prog, fn, hnode, "%s array not delimited by the next keyword" % key,
                          "%s extracts the %s array without searching for the next keyword (a letter) after the header: the writer wraps arrays over several lines (a newline every few values), so any line-based end truncates the array" % (fn["qn"], key))
