"""C16 - mesh files written by the simulator are read back as the same tissue (writer/reader table agreement)."""
import re

from ..model import walk, strip, is_call, call_obj, call_args, render, short, AnalysisBroken
from .c10 import product_fns

EXPLANATION = ("Binding-table agreement between mesh_writer and mesh_reader, extracted from the AST: (1) every section line the writer emits "
               "(built by string concatenation; std::to_string(..) replaced by a digit string) is matched by the regular expression the "
               "reader uses for that section - POINTS n float, CELLS a b, CELL_TYPES n, the 42 cell type, the cell_type_id field header; "
               "(2) the writer's coordinate format (%.4e) only produces tokens that the reader's number regex matches entirely, and the "
               "reader accepts the coordinate type the writer declares; (3) declared counts agree with what is emitted: POINTS count = sum "
               "of node_lst sizes and the coordinate extractor emits exactly three values per element of node_lst_; each cell record declares "
               "1+4F integers and emits one face count plus, per face, the literal 3 followed by the three node ids of get_node_ids(); CELLS "
               "declares cell_lst.size() records and sum(declared)+n integers; CELL_TYPES declares and emits nb_cells lines of 42; the "
               "cell_type_id array declares cell_lst.size() values and emits one per cell from global_type_id_; node ids are written with "
               "the offset of their own cell; (4) the reader requires cell type 42 and reads the record length as the first integer. Not "
               "decided: equality of content after a round trip, precision loss of %.4e.")
ASSUMPTIONS = ["C++ ECMAScript regexes used by the reader are simple enough to be evaluated with Python's re (character classes, groups, + and {n,})"]


def declare(rep):
    rep.rule("C16.section-lines", "each section line emitted by the writer is matched by the reader's regex for that section", floor=4)
    rep.rule("C16.number-format", "the writer's coordinate format only produces tokens the reader's number regex matches entirely", floor=1)
    rep.rule("C16.mesh-record-length", "mesh overload of write_cell_data: the declared integer count of a cell record is 1 + (number of faces) + sum over ALL faces of their node counts (faces may be arbitrary polygons)", floor=1)
    rep.rule("C16.record-per-line", "the reader takes every line of the CELLS section as one cell record (std::getline), so the writer ends a record with exactly one newline emitted at the level of the loop over the cells - never inside the loops over a cell's faces / nodes", floor=2)
    rep.rule("C16.local-ids-by-lookup", "mesh_reader::get_cell_mesh renumbers the point ids of a cell's faces through a look-up built from the points the cell's faces reference (the positions copied are exactly those points, in that order): arithmetic on the id assumes a contiguous block of points, which a cell with an unreferenced point breaks", floor=1)
    rep.rule("C16.path-as-given-first", "mesh_reader opens the path it was given before any path derived from it (the project directory is only a fall-back): a file just written to a relative path must not be replaced by a namesake elsewhere", floor=1)
    rep.rule("C16.declared-counts", "declared counts (points, per-cell integers, cells, cell types, field length) agree with what the loops emit", floor=5)
    rep.rule("C16.reader-conventions", "the reader requires cell type 42 and takes the first integer of a record as its length", floor=2)
    rep.rule("C16.compact-before-count", "the cells are compacted (rebase) before any count, offset or coordinate is taken from them", floor=1)
    rep.rule("C16.no-narrowing", "the coordinate handed to the formatter is the double itself (no narrowing conversion)", floor=1)
    rep.rule("C16.array-extent", "every array the reader extracts ends at the next keyword (letters) or the end of file - the writer wraps arrays over several lines", floor=4)


def template(fn, e, depth=0):
    """String template of a concatenation expression: literals kept, std::to_string(..) -> '7', other strings -> <x>."""
    e = strip(e)
    k = e.get("k")
    if k == "StringLiteral":
        return e.get("v", "")
    if k in ("CXXConstructExpr", "CXXTemporaryObjectExpr", "CXXFunctionalCastExpr") and e.get("c"):
        return template(fn, e["c"][0], depth + 1)
    if k == "CXXOperatorCallExpr" and e.get("op") == "+" and len(e["c"]) == 3:
        return template(fn, e["c"][1], depth + 1) + template(fn, e["c"][2], depth + 1)
    if k == "CallExpr" and e.get("callee", "").startswith("std::operator+"):
        a = call_args(e)
        return template(fn, a[0], depth + 1) + template(fn, a[1], depth + 1)
    if k == "CallExpr" and e.get("callee") == "std::to_string":
        return "7"
    if k == "DeclRefExpr" and depth < 6:
        for d in walk(fn["body"]):
            if d.get("k") == "Var" and d.get("did") == e["ref"]["did"] and isinstance(d.get("init"), dict) and "basic_string" in d.get("t", ""):
                return template(fn, d["init"], depth + 1)
        return "<%s>" % e["ref"]["name"]
    if k == "MemberExpr":
        return "<%s>" % e["ref"]["name"]
    return "<?>"


def emitted_templates(fn):
    out = []
    for n in walk(fn["body"]):
        if n.get("k") == "CXXOperatorCallExpr" and n.get("op") == "<<" and len(n["c"]) == 3:
            out.append((template(fn, n["c"][2]), n))
        if n.get("k") == "CallExpr" and n.get("callee", "").startswith("std::operator<<"):
            a = call_args(n)
            out.append((template(fn, a[1]), n))
    return out


def regexes(fn):
    out = {}
    for n in walk(fn["body"]):
        if n.get("k") == "Var" and "basic_regex" in n.get("t", "") and isinstance(n.get("init"), dict):
            lits = [x.get("v") for x in walk(n["init"]) if x.get("k") == "StringLiteral"]
            if lits:
                out[n["name"]] = (lits[0], n)
    return out


def record_per_line(rep, prog, r_faces):
    line_based = any(is_call(x) and x.get("callee", "").startswith("std::getline") for x in walk(r_faces["body"]))
    if not line_based:
        raise AnalysisBroken("mesh_reader::read_cell_faces no longer splits the CELLS section with std::getline: the record-per-line convention the writer rule relies on has changed")
    LOOPS = ("ForStmt", "CXXForRangeStmt", "WhileStmt", "DoStmt")
    for fn in prog.fns("mesh_writer::write_cell_data"):
        if not isinstance(fn.get("body"), dict):
            continue
        fi = prog.index(fn)
        n_ok = 0
        for lit in walk(fn["body"]):
            if lit.get("k") != "StringLiteral" or "\n" not in (lit.get("v") or ""):
                continue
            depth = sum(1 for p_, _s, _c in fi.ancestors(lit) if p_.get("k") in LOOPS)
            if depth >= 2:
                rep.violation("C16.record-per-line", prog, fn, lit, "newline emitted inside a cell record",
                              "%s emits a line break inside the loops over the faces / nodes of one cell (loop depth %d): the CELLS record of that cell is continued on a second line, but mesh_reader::read_cell_faces takes every line as one record whose first integer is its length - the file written by the program is rejected (or mis-read) by its own reader" % (fn["qn"], depth))
            elif depth == 1:
                n_ok += 1
                rep.ok("C16.record-per-line", prog, fn, lit, "line break at the level of the loop over the cells (one per record)")
        if n_ok == 0:
            raise AnalysisBroken("%s: no line break found at the level of the loop over the cells" % fn["key"])


def local_ids_by_lookup(rep, prog):
    fn = prog.fn("mesh_reader::get_cell_mesh")
    fi = prog.index(fn)
    n = 0
    for a in walk(fn["body"]):
        tgt = rhs = None
        if a.get("k") == "BinaryOperator" and a.get("op") == "=":
            tgt, rhs = strip(a["c"][0]), a["c"][1]
        elif a.get("k") == "CompoundAssignOperator":
            tgt, rhs = strip(a["c"][0]), None
        if tgt is None:
            continue
        is_elem = tgt.get("k") == "CXXOperatorCallExpr" and tgt.get("op") == "[]"
        if not is_elem and tgt.get("k") == "DeclRefExpr":
            # a reference loop variable over the ids of one face
            for l_, _s, _c in fi.ancestors(a):
                if l_.get("k") == "CXXForRangeStmt" and (l_.get("var") or {}).get("did") == (tgt.get("ref") or {}).get("did") and ((l_["var"].get("t") or "").rstrip().endswith("&")):
                    is_elem = True
        if not is_elem:
            continue
        # an element of a face's id vector inside the loop over the faces of the mesh being built
        loop = fi.enclosing(a, ("CXXForRangeStmt",))
        if loop is None or "face_point_ids" not in render(loop["range"]):
            outer = [l for l, _s, _c in fi.ancestors(a) if l.get("k") == "CXXForRangeStmt" and "face_point_ids" in render(l["range"])]
            if not outer:
                continue
        n += 1
        old = render(tgt).replace(" ", "")
        if rhs is None:
            rep.violation("C16.local-ids-by-lookup", prog, fn, a, "point id renumbered by arithmetic", "%s: the local id is computed from the global id by arithmetic (%s): this is right only if the points of the cell form one contiguous block in which every point is used by a face; a cell written with a free node slot, or a mesh with a stray point, is read back with shifted or out-of-range node ids" % (short(a, 60), a.get("op")))
            continue
        r0 = strip(rhs)
        while r0.get("k") in ("ImplicitCastExpr", "ParenExpr") and r0.get("c"):
            r0 = strip(r0["c"][0])
        lookup = (r0.get("k") == "CXXOperatorCallExpr" and r0.get("op") == "[]" and old in render(r0).replace(" ", "")) or (r0.get("k") == "CXXMemberCallExpr" and r0.get("callee", "").split("::")[-1] in ("at", "find")) \
            or (r0.get("k") == "MemberExpr" and any(x.get("k") == "CXXMemberCallExpr" and x.get("callee", "").split("::")[-1] in ("find", "at") for x in walk(r0)))
        arith = r0.get("k") == "BinaryOperator" and r0.get("op") in ("-", "+") and old in render(r0).replace(" ", "")
        if lookup:
            rep.ok("C16.local-ids-by-lookup", prog, fn, a, "%s: local id looked up by global id" % short(a, 60))
        elif arith:
            rep.violation("C16.local-ids-by-lookup", prog, fn, a, "point id renumbered by arithmetic", "%s: the local id is computed from the global id by arithmetic: this is right only if the points of the cell form one contiguous block in which every point is used by a face; a cell written with a free node slot, or a mesh with a stray point, is read back with shifted or out-of-range node ids" % short(a, 60))
        else:
            raise AnalysisBroken("mesh_reader::get_cell_mesh: %s: form of the renumbering not recognised" % short(a, 60))
    if n == 0:
        raise AnalysisBroken("mesh_reader::get_cell_mesh: renumbering of the face point ids not found")


def path_as_given_first(rep, prog):
    from ..model import expand
    ctors = [f for f in prog.fns("mesh_reader::mesh_reader") if isinstance(f.get("body"), dict) and f.get("params")]
    if not ctors:
        raise AnalysisBroken("mesh_reader constructor not found")
    for fn in ctors:
        fi = prog.index(fn)
        pdid = fn["params"][0]["did"]
        streams = {}
        for v in walk(fn["body"]):
            if v.get("k") == "Var" and "ifstream" in (v.get("t") or "") and isinstance(v.get("init"), dict):
                e = strip(expand(fn, v["init"]))
                refs = [x for x in walk(e) if x.get("k") == "DeclRefExpr" and (x.get("ref") or {}).get("dk") in ("Var", "ParmVar") and not (x.get("ref") or {}).get("qn")]
                given = bool(refs) and all((x.get("ref") or {}).get("did") == pdid for x in refs) and not any(x.get("k") in ("StringLiteral",) or (x.get("k") in ("CXXOperatorCallExpr", "CallExpr") and "operator+" in x.get("callee", "")) for x in walk(e))
                streams[v["did"]] = (v, given)
        tests = []
        for c in walk(fn["body"]):
            if c.get("k") == "CXXMemberCallExpr" and c.get("callee", "").split("::")[-1] in ("good", "is_open", "fail", "operator bool"):
                o = strip(call_obj(c) or {})
                if o.get("k") == "DeclRefExpr" and (o.get("ref") or {}).get("did") in streams:
                    tests.append((fi.order[id(c)], o["ref"]["did"], c))
        if not tests:
            raise AnalysisBroken("mesh_reader::mesh_reader: no test of an input stream found")
        tests.sort()
        first = streams[tests[0][1]]
        if first[1]:
            rep.ok("C16.path-as-given-first", prog, fn, tests[0][2], "the stream opened on the path as given ('%s') is tried first" % first[0].get("name"))
        else:
            rep.violation("C16.path-as-given-first", prog, fn, tests[0][2], "a derived path is tried before the path as given",
                          "mesh_reader first tries '%s' (%s), a path derived from the one it was given, and only then the given path: a file that was just written to a relative path in the working directory is silently replaced, on read-back, by a file of the same name under the other directory" % (first[0].get("name"), short(first[0].get("init") or {}, 60)))


def run(rep, prog, tier):
    if not rep.rules:
        declare(rep)
    wfile = [f for f in prog.fns("mesh_writer::write_cell_data_file") if "std::shared_ptr<cell>" in f["key"] and "basic_ofstream" in f["key"]]
    wcell = [f for f in prog.fns("mesh_writer::write_cell_data") if "std::shared_ptr<cell>" in f["key"]]
    warr = [f for f in prog.fns("mesh_writer::add_cell_data_arrays_to_mesh") if "std::shared_ptr<cell>" in f["key"]]
    if len(warr) != 1:
        raise AnalysisBroken("mesh_writer::add_cell_data_arrays_to_mesh(ofstream&, vector<cell_ptr>) not found")
    warr = warr[0]
    if len(wfile) != 1 or len(wcell) != 1:
        raise AnalysisBroken("mesh_writer functions for cell lists not found")
    wfile, wcell = wfile[0], wcell[0]
    r_pos, r_faces, r_types = prog.fn("mesh_reader::get_node_pos"), prog.fn("mesh_reader::read_cell_faces"), prog.fn("mesh_reader::get_cell_types")
    record_per_line(rep, prog, r_faces)
    local_ids_by_lookup(rep, prog)
    path_as_given_first(rep, prog)
    rx_pos, rx_faces, rx_types = regexes(r_pos), regexes(r_faces), regexes(r_types)
    tw = emitted_templates(wfile) + emitted_templates(wcell)
    def find_line(key):
        return [(t, n) for t, n in tw if key in t]
    pairs = [("POINTS ", rx_pos, lambda p: p.startswith("POINTS"), wfile),
             ("CELLS ", rx_faces, lambda p: p.startswith("CELLS"), wcell),
             ("CELL_TYPES ", rx_faces, lambda p: p.startswith("CELL_TYPES"), wcell)]
    for key, rxs, sel, wfn in pairs:
        lines = find_line(key)
        cands = [(nm, pat) for nm, (pat, node) in rxs.items() if sel(pat)]
        if not lines or not cands:
            rep.violation("C16.section-lines", prog, wfn, None, "section %s not written or not read" % key.strip(), "writer lines containing '%s': %d; reader regexes for it: %d" % (key, len(lines), len(cands)))
            continue
        t, n = lines[0]
        pat = cands[0][1]
        if re.search(pat, t):
            rep.ok("C16.section-lines", prog, wfn, n, "writer emits %r, reader regex %r matches" % (t.strip(), pat))
        else:
            rep.violation("C16.section-lines", prog, wfn, n, "reader regex does not match the %s line" % key.strip(), "the writer emits %r but the reader looks for %r: files written by the simulator cannot be read back" % (t, pat))
    # POINTS type accepted by the reader
    tline = find_line("POINTS ")
    if tline:
        ty = tline[0][0].strip().split(" ")[-1]
        accepted = set()
        for n in walk(r_pos["body"]):
            if n.get("k") in ("CXXOperatorCallExpr", "BinaryOperator") and n.get("op") == "!=":
                for x in walk(n):
                    if x.get("k") == "StringLiteral":
                        accepted.add(x["v"])
        if ty in accepted:
            rep.ok("C16.section-lines", prog, r_pos, None, "coordinate type %r declared by the writer is accepted by the reader (%s)" % (ty, sorted(accepted)))
        else:
            rep.violation("C16.section-lines", prog, r_pos, None, "reader rejects the coordinate type %s" % ty, "the writer declares POINTS n %s but the reader only accepts %s" % (ty, sorted(accepted)))
    # field header
    th = [(t, n) for t, n in emitted_templates(warr) if "<value_name_>" in t]
    mapper = prog.functions.get("<init> cell_data_mapper_lst")
    names = []
    if mapper:
        for n in walk(mapper["body"]):
            if n.get("k") in ("CXXConstructExpr", "CXXTemporaryObjectExpr") and n.get("cls") == "cell_data_mapper":
                lits = [x.get("v") for x in walk(n) if x.get("k") == "StringLiteral"]
                lam = [x for x in walk(n) if x.get("k") == "LambdaExpr"]
                names.append((lits[0], lits[1] if len(lits) > 1 else "", lam[0] if lam else None, n))
    ct = [x for x in names if x[0] == "cell_type_id"]
    pat = [p for nm, (p, node) in rx_types.items() if "ell_type_id" in p]
    if th and ct and pat:
        line = th[0][0].replace("<value_name_>", ct[0][0]).replace("<value_type_>", ct[0][1])
        if re.search(pat[0], line):
            rep.ok("C16.section-lines", prog, warr, th[0][1], "field header %r matched by %r" % (line.strip(), pat[0]))
        else:
            rep.violation("C16.section-lines", prog, warr, th[0][1], "reader cannot locate the cell_type_id array", "the writer emits the field header %r, the reader searches %r" % (line, pat[0]))
        srcs = {x["ref"]["name"] for x in walk(ct[0][2]["body"]) if x.get("k") == "MemberExpr" and x["ref"].get("dk") == "Field"}
        if "global_type_id_" in srcs:
            rep.ok("C16.declared-counts", prog, mapper, ct[0][3], "cell_type_id values come from global_type_id_")
        else:
            rep.violation("C16.declared-counts", prog, mapper, ct[0][3], "cell_type_id array is not the cells' type id", "the cell_type_id mapper reads %s" % sorted(srcs))
    else:
        rep.violation("C16.section-lines", prog, warr, None, "cell_type_id array missing", "writer field header / cell_type_id mapper / reader regex not found (%d/%d/%d)" % (len(th), len(ct), len(pat)))
    number_format(rep, prog, rx_pos, r_pos)
    declared_counts(rep, prog, wfile, wcell, warr)
    mesh_record_length(rep, prog)
    reader_conventions(rep, prog, r_faces)
    compact_before_count(rep, prog, wfile)
    no_narrowing(rep, prog)
    array_extent(rep, prog, [("POINTS", r_pos), ("CELL_TYPES", r_faces), ("CELLS", r_faces), ("ell_type_id", r_types)], warr)


def number_format(rep, prog, rx_pos, r_pos):
    wp = [f for f in prog.fns("mesh_writer::write_point_data") if isinstance(f.get("body"), dict)]
    fmts = set()
    for f in wp:
        for n in walk(f["body"]):
            if n.get("k") == "CallExpr" and n.get("callee") == "format_number":
                for x in walk(call_args(n)[1]):
                    if x.get("k") == "StringLiteral":
                        fmts.add(x["v"])
    # coordinates printed with snprintf into a local buffer: the text must fit, snprintf cuts it silently otherwise
    for f in wp:
        for n in walk(f["body"]):
            if n.get("k") == "CallExpr" and n.get("callee", "").split("::")[-1] == "snprintf" and len(call_args(n)) >= 4:
                a = call_args(n)
                buf = strip(a[0])
                while buf.get("k") in ("ImplicitCastExpr",) and buf.get("c"):
                    buf = strip(buf["c"][0])
                lit = [x for x in walk(a[2]) if x.get("k") == "StringLiteral"]
                size = None
                if buf.get("k") == "DeclRefExpr":
                    for v in walk(f["body"]):
                        if v.get("k") == "Var" and v.get("did") == (buf.get("ref") or {}).get("did"):
                            m_ = re.match(r"^char\s*\[(\d+)\]$", (v.get("t") or "").strip())
                            size = int(m_.group(1)) if m_ else None
                m2 = re.fullmatch(r"%(?:\.(\d+))?([eE])", lit[0]["v"]) if len(lit) == 1 else None
                if size is None or m2 is None:
                    raise AnalysisBroken("%s: coordinates are formatted with snprintf in a form whose maximal length is not decided" % prog.loc(f, n))
                need = (int(m2.group(1)) if m2.group(1) else 6) + 9      # sign d . prec e sign ddd NUL
                fmts.add(lit[0]["v"])
                if need > size:
                    rep.violation("C16.number-format", prog, f, n, "coordinate text cut by a too small buffer",
                                  "%s prints a double with %r into a %d-byte buffer: a negative value with a three-digit exponent needs %d bytes (sign, d.%s, e, sign, three digits, NUL), so snprintf cuts the last digit of the exponent (-1.2345e-300 is written as -1.2345e-30): the file is well formed and is read back with different coordinates" % (f["qn"], lit[0]["v"], size, need, "d" * (int(m2.group(1)) if m2.group(1) else 6)))
                    return
    num = [p for nm, (p, node) in rx_pos.items() if "\\d" in p and "e|E" in p or ("[\\d.]" in p)]
    if len(fmts) != 1 or not num:
        raise AnalysisBroken("coordinate format / number regex not found (%s / %s)" % (fmts, list(rx_pos)))
    fmt = fmts.pop()
    pat = num[0]
    samples = [0.0, 1.5, -2.25e-120, 1e300, -1e-300, 123456.789, -0.000123]
    bad = []
    for v in samples:
        s = fmt % v
        m = re.search(pat, s)
        if not (m and m.group(0) == s):
            bad.append(s)
    ends = [p for nm, (p, node) in rx_pos.items() if "A-Za-z" in p]
    # the end-of-section detector must not fire inside a number
    if ends:
        for v in samples:
            if re.search(ends[0], fmt % v):
                bad.append("%s cut by %s" % (fmt % v, ends[0]))
    if not bad:
        rep.ok("C16.number-format", prog, wp[0], None, "format %r: tokens such as %s are matched entirely by %r" % (fmt, [fmt % v for v in samples[:3]], pat))
    else:
        rep.violation("C16.number-format", prog, wp[0], None, "reader cannot parse the writer's number format", "tokens %s written with %r are not matched entirely by the reader's regex %r" % (bad[:3], fmt, pat))


def _emissions(fn):
    """(template, node) of everything streamed into the file, in program order"""
    return emitted_templates(fn)


def _to_strings(fn, node):
    """std::to_string calls that contribute to the streamed expression `node` (through string locals)"""
    from ..model import def_chain
    out = []
    for x in def_chain(fn, node, depth=3):
        for y in walk(x):
            if y.get("k") == "CallExpr" and y.get("callee") == "std::to_string" and not any(y is z for z in out):
                out.append(y)
    return out


def _chain_callees(fn, e, depth=6):
    from ..model import def_chain
    out = set()
    for x in def_chain(fn, e, depth=depth):
        for y in walk(x):
            if is_call(y) and y.get("callee"):
                out.add(y["callee"])
    return out


def _loop_bound_text(fn, loop):
    from ..model import expand_text
    if loop.get("k") == "CXXForRangeStmt":
        return expand_text(fn, loop["range"]) + ".size()"
    c = strip(loop.get("cond") or {})
    try:
        d = loop["init"]["decls"][0]
        zero = strip(d["init"]).get("v") in (0, "0")
        lhs = strip(c["c"][0])
        inc = strip(loop.get("inc") or {})
        canonical = zero and lhs.get("k") == "DeclRefExpr" and lhs["ref"]["did"] == d["did"] and inc.get("op", "").replace("post", "").replace("pre", "") == "++" and strip(inc["c"][0])["ref"]["did"] == d["did"]
    except (KeyError, IndexError, TypeError):
        return None
    if canonical and c.get("k") == "BinaryOperator" and c.get("op") in ("<", "!="):
        return expand_text(fn, c["c"][1])
    return None


def _is_cell_count(txt, lst):
    return txt.strip("()") == "%s.size" % lst or txt in ("%s.size()" % lst, "(%s.size())" % lst)


def _prefix_sum_by_loop(prog, fn, e):
    """e reads V.back() of a local vector V that is filled as a running sum: V starts with 0 and one unconditional statement of a
    loop over the whole cell list appends V.back() + (number of nodes of that cell)"""
    from ..model import def_chain, facts_at
    fi = prog.index(fn)
    backs = [x for d_ in def_chain(fn, e, depth=4) for x in walk(d_) if x.get("k") == "CXXMemberCallExpr" and x.get("callee", "").endswith("::back") and strip(call_obj(x) or {}).get("k") == "DeclRefExpr"]
    if not backs:
        return False
    vd = strip(call_obj(backs[0]))["ref"].get("did")
    plist = [p_ for p_ in fn["params"] if "vector" in p_["t"] and "cell" in p_["t"]]
    if len(plist) != 1:
        return False
    muts = [x for x in walk(fn["body"]) if x.get("k") == "CXXMemberCallExpr" and strip(call_obj(x) or {}).get("k") == "DeclRefExpr" and strip(call_obj(x))["ref"].get("did") == vd
            and x.get("callee", "").split("::")[-1] in ("push_back", "emplace_back", "insert", "erase", "pop_back", "clear", "resize", "assign", "emplace", "operator[]", "at")]
    subs = [x for x in walk(fn["body"]) if x.get("k") == "CXXOperatorCallExpr" and x.get("op") == "[]" and any(y.get("k") == "DeclRefExpr" and (y.get("ref") or {}).get("did") == vd for y in walk(x["c"][1]))]
    subs_w = [x for x in subs if (fi.parent.get(id(x), (None, None))[0] or {}).get("op") in ("=", "+=", "-=") and (fi.parent.get(id(x), (None, None))[1] in (0, "0") or True) and (fi.parent[id(x)][0]["c"][0] is x)]
    pushes = [x for x in muts if x.get("callee", "").split("::")[-1] in ("push_back", "emplace_back")]
    if len(muts) != len(pushes) or subs_w or len(pushes) != 2:
        return False
    first, second = sorted(pushes, key=lambda x: fi.order[id(x)])
    a0 = strip(call_args(first)[0])
    while a0.get("k") in ("ImplicitCastExpr", "CXXFunctionalCastExpr", "CStyleCastExpr", "MaterializeTemporaryExpr") and a0.get("c"):
        a0 = strip(a0["c"][-1])
    if not (a0.get("k") == "IntegerLiteral" and str(a0.get("v")) == "0") or fi.enclosing(first, ("ForStmt", "CXXForRangeStmt", "WhileStmt", "IfStmt")) is not None:
        return False
    loop = fi.enclosing(second, ("CXXForRangeStmt", "ForStmt"))
    if loop is None or fi.enclosing(loop, ("ForStmt", "CXXForRangeStmt", "WhileStmt", "IfStmt")) is not None:
        return False
    if loop.get("k") == "CXXForRangeStmt":
        if render(loop["range"]).replace(" ", "") != plist[0]["name"]:
            return False
    elif not _is_cell_count(_loop_bound_text(fn, loop) or "", plist[0]["name"]):
        return False
    if facts_at(fn, fi, second, stop_at=loop):
        return False
    arg = strip(call_args(second)[0])
    while arg.get("k") in ("ParenExpr", "MaterializeTemporaryExpr") and arg.get("c"):
        arg = strip(arg["c"][0])
    if not (arg.get("k") == "BinaryOperator" and arg.get("op") == "+"):
        return False
    sides = [strip(arg["c"][0]), strip(arg["c"][1])]
    is_back = lambda x: any(y.get("k") == "CXXMemberCallExpr" and y.get("callee", "").endswith("::back") and strip(call_obj(y) or {}).get("k") == "DeclRefExpr" and strip(call_obj(y))["ref"].get("did") == vd for y in walk(x)) and not any(y.get("k") == "BinaryOperator" for y in walk(x))
    if is_back(sides[0]) == is_back(sides[1]):
        return False
    other = sides[1] if is_back(sides[0]) else sides[0]
    cs = _chain_callees(fn, other)
    return "cell::get_node_lst" in cs and any(c.endswith("::size") for c in cs) and not any(y.get("k") == "BinaryOperator" for d_ in def_chain(fn, other, depth=3) for y in walk(d_))


def declared_counts(rep, prog, wfile, wcell, warr):
    from ..model import expand_text, def_chain
    # ---- POINTS: the declared count is the last partial sum of the cells' node_lst sizes; the coordinates come from
    # get_flat_node_coord_lst, which emits dx,dy,dz of every element of node_lst_
    pl = [(t, n) for t, n in _emissions(wfile) if "POINTS " in t]
    why = []
    if not pl:
        why.append("no POINTS line")
    else:
        ts = _to_strings(wfile, pl[0][1])
        if len(ts) != 1:
            why.append("%d numbers in the POINTS line" % len(ts))
        else:
            callees = _chain_callees(wfile, call_args(ts[0])[0])
            need = {"a last-element read (.back())": any(c.endswith("::back") for c in callees),
                    "the partial sums of the per-cell counts": any(c.startswith("partial_sum_vector") or c.startswith("mesh_writer::partial_sum_vector") or c.startswith("std::partial_sum") for c in callees),
                    "cell::get_node_lst().size()": "cell::get_node_lst" in callees and any(c.endswith("::size") for c in callees)}
            if not all(need.values()) and need["a last-element read (.back())"] and _prefix_sum_by_loop(prog, wfile, call_args(ts[0])[0]):
                need = {}
            why += ["the declared number of points is not derived from %s" % k for k, v in need.items() if not v]
    wp = [c for c in walk(wfile["body"]) if is_call(c) and c.get("callee", "").startswith("mesh_writer::write_point_data")]
    if len(wp) != 1 or "cell::get_flat_node_coord_lst" not in _chain_callees(wfile, call_args(wp[0])[-1]):
        why.append("the coordinates are not produced by cell::get_flat_node_coord_lst")
    flat = prog.fn("cell::get_flat_node_coord_lst")
    loops = [n for n in walk(flat["body"]) if n.get("k") == "CXXForRangeStmt" and render(n["range"]) == "node_lst_"]
    pushes = [x for x in walk(loops[0]["body"]) if x.get("k") == "CXXMemberCallExpr" and x.get("callee", "").endswith("::push_back")] if loops else []
    axes = [strip(call_args(x)[0]).get("callee") for x in pushes]
    fi = prog.index(flat)
    if not (axes == ["vec3::dx", "vec3::dy", "vec3::dz"] and all(fi.enclosing(x, ("IfStmt",)) is None for x in pushes)):
        why.append("get_flat_node_coord_lst does not emit dx,dy,dz for every element of node_lst_ unconditionally")
    if not why:
        rep.ok("C16.declared-counts", prog, wfile, pl[0][1], "POINTS count = last partial sum of node_lst_.size(); coordinates = (dx,dy,dz) of every element of node_lst_")
    else:
        rep.violation("C16.declared-counts", prog, wfile, pl[0][1] if pl else None, "declared number of points differs from the coordinates written", "write_cell_data_file: " + "; ".join(why))

    # ---- per-cell record
    lst = [p_["name"] for p_ in wcell["params"] if "shared_ptr<cell>" in p_["t"]][0]
    offs = [p_["name"] for p_ in wcell["params"] if "size_t" in p_["t"] or "unsigned long" in p_["t"]]
    why = []
    em = _emissions(wcell)
    # the cell loop: the loop over the cell list that streams something
    cell_loops = [l for l in walk(wcell["body"]) if l.get("k") in ("ForStmt", "CXXForRangeStmt") and _is_cell_count(_loop_bound_text(wcell, l) or "", lst)
                  and any(any(n is x for x in walk(l["body"])) for t, n in em if t != "42\n")]
    rec_site = None
    if len(cell_loops) != 1:
        why.append("%d loops over the cell list write records" % len(cell_loops))
    else:
        cl = cell_loops[0]
        inner = [(t, n) for t, n in em if any(n is x for x in walk(cl["body"]))]
        # first emission of the record: '<len> <nb faces> '
        first = inner[0] if inner else None
        ts = _to_strings(wcell, first[1]) if first else []
        rec_site = first[1] if first else None
        if len(ts) != 2:
            why.append("the record does not start with two integers (length, number of faces)")
        else:
            from ..model import expand as _expand_node
            a_len = strip(_expand_node(wcell, call_args(ts[0])[0]))
            while a_len.get("k") == "ParenExpr" and a_len.get("c"):
                a_len = strip(a_len["c"][0])
            nbf = expand_text(wcell, call_args(ts[1])[0])
            if "get_face_lst().size()" not in nbf:
                why.append("the second integer of the record is not the number of faces (%s)" % nbf[:60])
            # where does the length come from: V[i] with V filled by push_back(E) / transform(..., lambda)
            lens = []
            if a_len.get("k") == "CXXOperatorCallExpr" and a_len.get("op") == "[]":
                V = render(a_len["c"][1])
                for x in walk(wcell["body"]):
                    if x.get("k") == "CXXMemberCallExpr" and x.get("callee", "").split("::")[-1] in ("push_back", "emplace_back") and render(call_obj(x)) == V:
                        lens.append(expand_text(wcell, call_args(x)[0]))
                    if x.get("k") == "CallExpr" and x.get("callee", "").startswith("std::transform") and V in render(x):
                        lams = [lam for lam in walk(x) if lam.get("k") == "LambdaExpr"]
                        for a_ in call_args(x):           # a named lambda handed to the algorithm
                            sa = strip(a_)
                            while sa.get("k") in ("CXXConstructExpr", "MaterializeTemporaryExpr", "ImplicitCastExpr") and sa.get("c"):
                                sa = strip(sa["c"][0])
                            if sa.get("k") == "DeclRefExpr" and sa["ref"].get("dk") == "Var":
                                for v_ in walk(wcell["body"]):
                                    if v_.get("k") == "Var" and v_.get("did") == sa["ref"]["did"] and isinstance(v_.get("init"), dict) and strip(v_["init"]).get("k") == "LambdaExpr":
                                        lams.append(strip(v_["init"]))
                        for lam in lams:
                            if lam.get("k") == "LambdaExpr":
                                for r in walk(lam["body"]):
                                    if r.get("k") == "ReturnStmt" and isinstance(r.get("value"), dict):
                                        lens.append(render(r["value"]).replace(" ", ""))
            else:
                lens.append(expand_text(wcell, a_len))
            if not lens or not all("get_face_lst().size()" in t and re.search(r"\*4|4\*", t) and re.search(r"1\+|\+1", t) for t in lens):
                why.append("the declared record length is not 1 + 4 * number of faces (%s)" % [t[:50] for t in lens])
        # faces: '3 a b c'
        face_loops = [l for l in walk(cl["body"]) if l.get("k") in ("CXXForRangeStmt", "ForStmt") and "get_face_lst()" in expand_text(wcell, l.get("range") or l.get("cond") or {})]
        if len(face_loops) != 1:
            why.append("no loop over the faces of the cell inside the record")
        else:
            fl = face_loops[0]
            three = [n for t, n in em if any(n is x for x in walk(fl["body"])) and (t.startswith("3 ") or t.startswith("7 ")) and (t.startswith("3 ") or any(strip(call_args(y)[0]).get("v") in (3, "3") for y in _to_strings(wcell, n)))]
            ids = [l for l in walk(fl["body"]) if l.get("k") in ("CXXForRangeStmt",) and "get_node_ids" in render(l["range"]) and "std::array<unsigned int, 3>" in strip(l["range"]).get("t", "")]
            if not three:
                why.append("faces are not written as '3 a b c'")
            if len(ids) != 1:
                why.append("the node ids written are not the three ids of get_node_ids()")
            else:
                good = False
                for t, n in em:
                    if any(n is x for x in walk(ids[0]["body"])):
                        for y in _to_strings(wcell, n):
                            a = strip(call_args(y)[0])
                            if a.get("k") == "BinaryOperator" and a.get("op") == "+":
                                parts = [expand_text(wcell, a["c"][0]).strip("()"), expand_text(wcell, a["c"][1]).strip("()")]
                                var = ids[0]["var"]["name"]
                                idx = None
                                if cl.get("k") == "ForStmt":
                                    try:
                                        idx = cl["init"]["decls"][0]["name"]
                                    except (KeyError, IndexError, TypeError):
                                        idx = None
                                else:
                                    idx = _parallel_counter(prog, wcell, cl)
                                other = [p_ for p_ in parts if p_ != var]
                                if var in parts and len(other) == 1 and idx and any(other[0] == "%s[%s]" % (o, idx) for o in offs):
                                    good = True
                if not good:
                    why.append("node ids are not offset by the offset of their own cell (offset list[cell index])")
    if not why:
        rep.ok("C16.declared-counts", prog, wcell, rec_site, "cell record: declares 1+4F integers; emits F, then per face the literal 3 and the 3 node ids + the cell's own offset")
    else:
        rep.violation("C16.declared-counts", prog, wcell, rec_site, "cell record length / content inconsistent", "write_cell_data: " + "; ".join(why))

    # ---- CELLS header and CELL_TYPES
    why = []
    ch = [(t, n) for t, n in em if "CELLS " in t]
    ct = [(t, n) for t, n in em if "CELL_TYPES " in t]
    site = ch[0][1] if ch else None
    if not ch or not ct:
        why.append("CELLS / CELL_TYPES header missing")
    else:
        ts = _to_strings(wcell, ch[0][1])
        if len(ts) != 2 or not _is_cell_count(expand_text(wcell, call_args(ts[0])[0]), lst):
            why.append("CELLS does not declare %s.size() records" % lst)
        if len(ts) == 2:
            tot = expand_text(wcell, call_args(ts[1])[0])
            if not ("std::accumulate(" in tot and "%s.size()" % lst in tot) and not _loop_total(prog, wcell, call_args(ts[1])[0], lst):
                why.append("the total number of integers is not accumulate(record lengths) + number of cells (%s)" % tot[:80])
        ts2 = _to_strings(wcell, ct[0][1])
        if len(ts2) != 1 or not _is_cell_count(expand_text(wcell, call_args(ts2[0])[0]), lst):
            why.append("CELL_TYPES does not declare %s.size() entries" % lst)
        ty_loops = [l for l in walk(wcell["body"]) if l.get("k") in ("ForStmt", "CXXForRangeStmt") and any(t == "42\n" and any(n is x for x in walk(l["body"])) for t, n in em)]
        if len(ty_loops) != 1 or not _is_cell_count(_loop_bound_text(wcell, ty_loops[0]) or "", lst):
            why.append("CELL_TYPES does not emit one '42' line per cell")
    if not why:
        rep.ok("C16.declared-counts", prog, wcell, site, "CELLS declares cell_lst.size() records and sum(declared)+n integers; one record per cell; CELL_TYPES emits one 42 per cell")
    else:
        rep.violation("C16.declared-counts", prog, wcell, site, "CELLS / CELL_TYPES counts inconsistent", "write_cell_data: " + "; ".join(why))

    # ---- data arrays
    why = []
    ema = _emissions(warr)
    lsta = [p_["name"] for p_ in warr["params"] if "shared_ptr<cell>" in p_["t"]][0]
    hdr = [(t, n) for t, n in ema if "<value_name_>" in t]
    site = hdr[0][1] if hdr else None
    if not hdr:
        why.append("no field header")
    else:
        ts = _to_strings(warr, hdr[0][1])
        if len(ts) != 1 or not _is_cell_count(expand_text(warr, call_args(ts[0])[0]), lsta):
            why.append("the array does not declare %s.size() values" % lsta)
    vloops = [l for l in walk(warr["body"]) if l.get("k") in ("ForStmt", "CXXForRangeStmt") and _is_cell_count(_loop_bound_text(warr, l) or "", lsta)]
    if len(vloops) != 1:
        why.append("%d loops over the cells" % len(vloops))
    else:
        vals = [(t, n) for t, n in ema if any(n is x for x in walk(vloops[0]["body"]))]
        ex = [x for t, n in vals for x in walk(n) if is_call(x) and "value_extractor_" in render(x)]
        if len(vals) != 1 or not ex or prog.index(warr).enclosing(vals[0][1], ("IfStmt",)) is not None and any(prog.index(warr).enclosing(vals[0][1], ("IfStmt",)) is x for x in walk(vloops[0]["body"])):
            why.append("the loop does not emit exactly one extracted value per cell")
    if not why:
        rep.ok("C16.declared-counts", prog, warr, site, "each data array declares cell_lst.size() values and emits one per cell")
    else:
        rep.violation("C16.declared-counts", prog, warr, site, "data array length differs from the values written", "add_cell_data_arrays_to_mesh: " + "; ".join(why))


def reader_conventions(rep, prog, r_faces):
    lit42 = [n for n in walk(r_faces["body"]) if n.get("k") == "BinaryOperator" and n.get("op") == "!=" and strip(n["c"][1]).get("v") == "42"]
    if lit42:
        rep.ok("C16.reader-conventions", prog, r_faces, lit42[0], "reader requires cell type 42 (what the writer emits)")
    else:
        rep.violation("C16.reader-conventions", prog, r_faces, None, "reader no longer expects cell type 42", "read_cell_faces must reject cell types other than 42, the type the writer emits")
    cmp_ = [n for n in walk(r_faces["body"]) if n.get("k") == "BinaryOperator" and n.get("op") == "!=" and "nb_cell_data" in render(n) and "size" in render(n)]
    if cmp_:
        rep.ok("C16.reader-conventions", prog, r_faces, cmp_[0], "reader checks that a record holds as many integers as its first integer declares")
    else:
        rep.violation("C16.reader-conventions", prog, r_faces, None, "record length not verified", "read_cell_faces must compare the declared record length with the integers actually read")


def rebase_every_cell(rep, prog):
    """every cell::rebase() the writers perform before writing runs for every cell: no condition (other than the loop's own
    bound) decides whether a cell is compacted"""
    from ..model import facts_at
    n = 0
    for fn in prog.repo_functions():
        if fn.get("cls") != "mesh_writer" or not isinstance(fn.get("body"), dict):
            continue
        fi = prog.index(fn)
        for c in walk(fn["body"]):
            if not (is_call(c) and c.get("callee") == "cell::rebase"):
                continue
            n += 1
            loops = [l for l, _s, _c in fi.ancestors(c) if l.get("k") in ("ForStmt", "WhileStmt")]
            loop_conds = [l.get("cond") for l in loops if isinstance(l.get("cond"), dict)]
            extra = []
            # only a condition evaluated per cell - inside the loop over the cells - can pick some cells; a condition around the whole
            # loop (the writer's own `rebase` option) compacts all of them or none
            all_loops = [l for l, _s, _c in fi.ancestors(c) if l.get("k") in ("ForStmt", "WhileStmt", "CXXForRangeStmt", "DoStmt")]
            for a_, t_ in facts_at(fn, fi, c, stop_at=all_loops[-1] if all_loops else None):
                if any(render(a_).replace(" ", "") in render(lc).replace(" ", "") or render(a_).replace(" ", "") in render(__import__("sc3dlint.model", fromlist=["expand"]).expand(fn, lc)).replace(" ", "") for lc in loop_conds):
                    continue
                extra.append((a_, t_))
            if extra:
                a_, t_ = extra[0]
                rep.violation("C16.compact-before-count", prog, fn, c, "only some cells are compacted before writing",
                              "%s compacts a cell only when %s%s: a cell for which the condition fails keeps its free node / face slots, so the counts declared in the file (POINTS, CELLS, offsets of the later cells) no longer agree with what the loops over used elements write - the file cannot be read back" % (fn["qn"], "" if t_ else "not ", short(a_, 60)))
            else:
                rep.ok("C16.compact-before-count", prog, fn, c, "%s: every cell is compacted (rebase) before writing" % fn["qn"])
    return n


def compact_before_count(rep, prog, wfile):
    rebase_every_cell(rep, prog)
    fi = prog.index(wfile)
    reb = [n for n in walk(wfile["body"]) if is_call(n) and n.get("callee") == "cell::rebase"]
    if len(reb) != 1:
        raise AnalysisBroken("write_cell_data_file(ofstream&, vector<cell_ptr>&, bool): %d calls of cell::rebase" % len(reb))
    # the top-level statement holding the rebase
    stmts = wfile["body"].get("c", [])
    def top_of(n):
        for i, s_ in enumerate(stmts):
            if any(x is n for x in walk(s_)):
                return i
        return None
    ri = top_of(reb[0])
    # before the compaction nothing may be taken from the cells: no statement may mention the cell list except for its size
    plist = [p_ for p_ in wfile["params"] if "vector" in p_["t"] and "cell" in p_["t"]]
    if len(plist) != 1:
        raise AnalysisBroken("write_cell_data_file: cell list parameter not found")
    evaluated = []
    for s_ in stmts[:ri or 0]:
        for x in walk(s_):
            if x.get("k") == "DeclRefExpr" and x["ref"].get("name") == plist[0]["name"] and x["ref"].get("dk") == "ParmVar":
                par = fi.parent.get(id(x), (None, None))[0]
                while par is not None and par.get("k") in ("ImplicitCastExpr", "ParenExpr"):
                    par = fi.parent.get(id(par), (None, None))[0]
                up = fi.parent.get(id(par), (None, None))[0] if par is not None else None
                if par is not None and par.get("k") == "MemberExpr" and up is not None and up.get("callee", "").split("::")[-1] in ("size", "empty"):
                    continue
                if up is not None and up.get("callee", "").split("::")[-1] in ("size", "empty") or (par is not None and par.get("callee", "").split("::")[-1] in ("size", "empty")):
                    continue
                evaluated.append(x)
    if ri is not None and not evaluated:
        rep.ok("C16.compact-before-count", prog, wfile, reb[0], "rebase of every cell is the first thing evaluated on the cells: the counts, offsets and coordinates are taken afterwards")
    else:
        x = evaluated[0] if evaluated else None
        rep.violation("C16.compact-before-count", prog, wfile, x, "the cell list is used before the cells are compacted",
                      "write_cell_data_file (line %s) reads %s from the cells before cell::rebase() has removed their unused node/face slots: the declared POINTS count and the node-id offsets of the later cells no longer agree with the coordinates written afterwards" % (x.get("l") if x else "?", "the cell list"))


def no_narrowing(rep, prog):
    wp = [f for f in prog.fns("mesh_writer::write_point_data") if isinstance(f.get("body"), dict)]
    n_ok = 0
    for f in wp:
        for n in walk(f["body"]):
            if n.get("k") == "CallExpr" and n.get("callee") == "format_number":
                a = call_args(n)[0]
                narrowing = [x for x in walk(a) if x.get("k") in ("CXXStaticCastExpr", "CStyleCastExpr", "CXXFunctionalCastExpr", "ImplicitCastExpr") and x.get("t") in ("float", "int", "long", "unsigned int", "short")]
                if narrowing or strip(a).get("t", "").replace("const ", "") != "double":
                    rep.violation("C16.no-narrowing", prog, f, n, "coordinate converted to %s before it is written" % (narrowing[0].get("t") if narrowing else strip(a).get("t")),
                                  "write_point_data formats %s: the coordinate is narrowed before it is written, values outside that type's range become inf/0 and the file does not read back as the same tissue" % render(a))
                else:
                    n_ok += 1
                    rep.ok("C16.no-narrowing", prog, f, n, "format_number receives the double coordinate %s" % render(a))
    if not n_ok and not any(i["rule"] == "C16.no-narrowing" for i in rep.instances):
        raise AnalysisBroken("write_point_data: no format_number call found")


LETTER_CLASS = re.compile(r"^\(*\[A-Z(a-z)?_?\]\)*(\{\d+,\d*\})?$")


def _fixed_windows(prog, fn):
    """substr(pos, N) on the text of the file with a length N that is a constant: the text behind the window is never looked at"""
    from ..model import expand
    out = []
    for c in walk(fn["body"]):
        if c.get("k") == "CXXMemberCallExpr" and c.get("callee", "").endswith("::substr") and len(call_args(c)) == 2:
            n_ = strip(expand(fn, call_args(c)[1]))
            while n_.get("k") in ("ImplicitCastExpr", "ParenExpr", "CStyleCastExpr", "CXXStaticCastExpr", "ConstantExpr") and n_.get("c"):
                n_ = strip(n_["c"][-1])
            if n_.get("k") == "IntegerLiteral" and int(n_.get("v", "0")) > 1:
                out.append((c, int(n_["v"])))
    return out


def array_extent(rep, prog, sections, warr):
    for fn_ in {id(f): f for _k, f in sections}.values():
        for c, n_ in _fixed_windows(prog, fn_):
            rep.violation("C16.array-extent", prog, fn_, c, "an array of the file is searched within a window of fixed size",
                          "%s takes '%s', a window of %d characters, of the text of the file and looks for the end of the array inside it: an array that is longer than the window (its length grows with the number of cells) has no terminator there, the reader then takes the truncated text for the whole array and returns fewer values than the file declares" % (fn_["qn"], short(c, 70), n_))
    # the writer wraps arrays: a newline is emitted inside the per-value loop of the data arrays
    wraps = any(x.get("k") == "StringLiteral" and "\n" in x.get("v", "") for l in walk(warr["body"]) if l.get("k") == "ForStmt" for x in walk(l["body"]))
    for key, fn in sections:
        rx = regexes(fn)
        hdr = [(nm, pat, node) for nm, (pat, node) in rx.items() if (pat.startswith(key + " ") or (key == "ell_type_id" and key in pat[:20]))]
        if not hdr:
            rep.violation("C16.array-extent", prog, fn, None, "header regex for %s not found" % key, "reader function %s has no header regex for section %s" % (fn["qn"], key))
            continue
        fi = prog.index(fn)
        hnode = hdr[0][2]
        # terminators: letter-class regexes declared after the header regex and used in a regex_search whose match position is read
        terms = []
        for nm, (pat, node) in rx.items():
            if LETTER_CLASS.match(pat) and fi.order[id(node)] > fi.order[id(hnode)]:
                used = [c for c in walk(fn["body"]) if is_call(c) and c.get("callee", "").startswith("std::regex_search") and any(x.get("k") == "DeclRefExpr" and x["ref"].get("did") == node.get("did") for x in walk(c))]
                if not used:
                    # wrapper: the regex is handed to a helper of the repository whose parameter reaches std::regex_search
                    for c in walk(fn["body"]):
                        if not is_call(c) or not c.get("ckey"):
                            continue
                        for ai, a in enumerate(call_args(c)):
                            if strip(a).get("k") == "DeclRefExpr" and strip(a)["ref"].get("did") == node.get("did"):
                                g = prog.functions.get(c["ckey"])
                                if g and isinstance(g.get("body"), dict) and ai < len(g.get("params", [])):
                                    pd = g["params"][ai]["did"]
                                    if any(is_call(y) and y.get("callee", "").startswith("std::regex_search") and any(z.get("k") == "DeclRefExpr" and z["ref"].get("did") == pd for z in walk(y)) for y in walk(g["body"])):
                                        used.append(c)
                if used:
                    terms.append((fi.order[id(node)], nm, pat, node))
        terms.sort()
        # the first terminator after this header and before the next header regex
        later_hdrs = [fi.order[id(nd)] for nm, (pat, nd) in rx.items() if fi.order[id(nd)] > fi.order[id(hnode)] and re.match(r"^(\[C\|c\]|[A-Z]{4,})", pat)]
        bound = min(later_hdrs) if later_hdrs else 10 ** 9
        mine = [t for t in terms if t[0] < bound]
        if mine:
            rep.ok("C16.array-extent", prog, fn, mine[0][3], "%s array ends at the next keyword: regex %r searched in the text after the header%s" % (key, mine[0][2], " (the writer wraps arrays over lines)" if wraps else ""))
        else:
            rep.violation("C16.array-extent", prog, fn, hnode, "%s array not delimited by the next keyword" % key,
                          "%s extracts the %s array without searching for the next keyword (a letter) after the header: the writer wraps arrays over several lines (a newline every few values), so any line-based end truncates the array" % (fn["qn"], key))


def mesh_record_length(rep, prog):
    rule = "C16.mesh-record-length"
    fns = [f for f in prog.fns("mesh_writer::write_cell_data") if "std::vector<mesh" in f["key"] or "vector<mesh>" in f["key"]]
    if len(fns) != 1:
        raise AnalysisBroken("mesh_writer::write_cell_data(ofstream&, vector<mesh>, ...) not found")
    fn = fns[0]
    pushes = [x for x in walk(fn["body"]) if x.get("k") == "CXXMemberCallExpr" and x.get("callee", "").split("::")[-1] in ("push_back", "emplace_back") and "size" in render(call_obj(x))]
    if not pushes:
        raise AnalysisBroken("write_cell_data(mesh): per-cell record length is not pushed into a vector")
    p = pushes[0]
    a = strip(call_args(p)[0])
    # every expression that flows into the pushed value: initialiser and compound assignments of the variable (or the expression itself)
    exprs = [a]
    if a.get("k") == "DeclRefExpr":
        did = a["ref"]["did"]
        exprs = []
        for n in walk(fn["body"]):
            if n.get("k") == "Var" and n.get("did") == did and isinstance(n.get("init"), dict):
                exprs.append(n["init"])
            if n.get("k") in ("CompoundAssignOperator", "BinaryOperator") and n.get("op") in ("+=", "=") and strip(n["c"][0]).get("k") == "DeclRefExpr" and strip(n["c"][0])["ref"].get("did") == did:
                exprs.append(n["c"][1])
    from ..model import expand
    texts = [render(expand(fn, e)).replace(" ", "") for e in exprs]
    alltxt = " ".join(texts)
    sums_all_faces = False
    for e in exprs:
        for x in walk(expand(fn, e)):
            if x.get("k") == "CallExpr" and x.get("callee", "").startswith("std::accumulate") and "face_point_ids" in render(x):
                lam = [l for l in walk(x) if l.get("k") == "LambdaExpr"]
                if lam and any(r.get("k") == "ReturnStmt" and _adds_size(r.get("value") or {}) for r in walk(lam[0]["body"])):
                    sums_all_faces = True
    loops_sum = any(l.get("k") in ("CXXForRangeStmt", "ForStmt") and "face_point_ids" in render(l.get("range") or l.get("cond") or {}) and any(
        c.get("k") == "CompoundAssignOperator" and c.get("op") == "+=" and ".size()" in render(c["c"][1]) for c in walk(l["body"])) for l in walk(fn["body"]) if fi_before(prog, fn, l, p))
    why = []
    if not (sums_all_faces or loops_sum):
        why.append("no sum of the node counts over all faces of the mesh (found: %s)" % [t[:70] for t in texts])
    if ".front()" in alltxt or "[0].size()" in alltxt:
        why.append("uses the node count of the first face for all faces")
    if "face_point_ids.size()" not in alltxt:
        why.append("the number of faces is not part of the count")
    if not why:
        rep.ok(rule, prog, fn, p, "record length = 1 + F + sum over the faces of their node counts")
    else:
        rep.violation(rule, prog, fn, p, "declared record length assumes something about the faces",
                      "write_cell_data(vector<mesh>): %s: for a cell whose faces do not all have the same number of nodes (hexagonal prism, pyramid; the reader accepts arbitrary polygons) the declared length of the record and the CELLS total "
                      "differ from the integers written, and mesh_reader rejects or mis-parses the file" % "; ".join(why))


def fi_before(prog, fn, a, b):
    fi = prog.index(fn)
    return fi.order[id(a)] < fi.order[id(b)]


def _adds_size(e):
    e = strip(e)
    plus = any(x.get("k") == "BinaryOperator" and x.get("op") == "+" for x in walk(e))
    size = any((x.get("k") == "CXXDependentScopeMemberExpr" and x.get("member") == "size") or (x.get("k") == "CXXMemberCallExpr" and x.get("callee", "").endswith("::size")) for x in walk(e))
    return plus and size


def _parallel_counter(prog, fn, loop):
    """name of an integer local that equals the position of the element in a range-for: declared = 0 before the loop, incremented
    exactly once per pass (a top-level ++ of the loop body), written nowhere else"""
    fi = prog.index(fn)
    body = loop["body"].get("c", []) if loop["body"].get("k") == "CompoundStmt" else [loop["body"]]
    for st_ in body:
        x = strip(st_)
        if x.get("k") == "UnaryOperator" and "++" in x.get("op", "") and strip(x["c"][0]).get("k") == "DeclRefExpr":
            did = strip(x["c"][0])["ref"]["did"]
            decl = [v for v in walk(fn["body"]) if v.get("k") == "Var" and v.get("did") == did and isinstance(v.get("init"), dict)]
            if not decl or strip(decl[0]["init"]).get("k") != "IntegerLiteral" or strip(decl[0]["init"]).get("v") != "0":
                continue
            writes = [w for w in walk(fn["body"]) if (w.get("k") == "UnaryOperator" and ("++" in w.get("op", "") or "--" in w.get("op", "")) or w.get("k") in ("CompoundAssignOperator",) or (w.get("k") == "BinaryOperator" and w.get("op") == "="))
                      and strip(w["c"][0]).get("k") == "DeclRefExpr" and strip(w["c"][0])["ref"].get("did") == did]
            if len(writes) == 1 and fi.order[id(decl[0])] < fi.order[id(loop)] and not any(c_.get("k") in ("ContinueStmt",) for c_ in walk(loop["body"])):
                return decl[0]["name"]
    return None


def _loop_total(prog, fn, expr, lst):
    """total = <number of cells>; for(x : V) total += x;   (the explicit-loop form of accumulate(V.begin(), V.end(), n))"""
    from ..model import expand_text
    e = strip(expr)
    if e.get("k") != "DeclRefExpr" or e["ref"].get("dk") != "Var":
        return False
    did = e["ref"]["did"]
    decl = [v for v in walk(fn["body"]) if v.get("k") == "Var" and v.get("did") == did and isinstance(v.get("init"), dict)]
    if not decl or not _is_cell_count(expand_text(fn, decl[0]["init"]), lst):
        return False
    adds = [w for w in walk(fn["body"]) if w.get("k") == "CompoundAssignOperator" and w.get("op") == "+=" and strip(w["c"][0]).get("k") == "DeclRefExpr" and strip(w["c"][0])["ref"].get("did") == did]
    other = [w for w in walk(fn["body"]) if (w.get("k") == "BinaryOperator" and w.get("op") == "=" or w.get("k") == "UnaryOperator" and ("++" in w.get("op", "") or "--" in w.get("op", ""))) and strip(w["c"][0]).get("k") == "DeclRefExpr" and strip(w["c"][0])["ref"].get("did") == did]
    if len(adds) != 1 or other:
        return False
    fi = prog.index(fn)
    loop = fi.enclosing(adds[0], ("CXXForRangeStmt",))
    if loop is None or fi.enclosing(adds[0], ("IfStmt",)) is not None:
        return False
    r = strip(adds[0]["c"][1])
    return r.get("k") == "DeclRefExpr" and r["ref"].get("did") == loop["var"]["did"] and "size" in render(loop["range"])
