"""C07 - contact forces are reciprocal, short-ranged and restoring (algebraic + flow clauses)."""
import re

import sympy as sp

from ..model import walk, strip, is_call, call_obj, call_args, render, short, AnalysisBroken
from .. import sym as S
from .c10 import product_fns

EXPLANATION = ("For every force block (statement list with the add_force calls of one interaction) of the three contact models: "
               "(1) LF engine: the sum of all add_force arguments is the zero vector and the total torque sum(pos_k x F_k) is zero, for all "
               "operand values, using the lemma that the kernel's barycentric components sum to 1 (proved on the kernel in the same run), "
               "with four distinct receivers (the three nodes of the face and the query node); (2) flow: the block is dominated by a test "
               "d2 < C where d2 is the kernel's returned squared distance and C is a cut-off field that the constructor provably sets to "
               "the square (or max of squares) of a configured cut-off; couplings likewise; (3) the contact routine is only called under "
               "c1->get_id() != c2->get_id(); (4) in the block guarded by the 'repulsive' decision the node's force is -s*(x_node - x_cpa) "
               "with s a product of declared non-negative atoms; (5) the (node type, face type) inversion table and the sign of the "
               "normal test agree across the three models. Not decided: correctness of the inside/outside decision for arbitrary geometry.")
ASSUMPTIONS = ["non-negative atoms: *repulsion_strength_, *adherence_strength_, face area_, barycentric coordinates (C05 does not decide their sign)",
               "branch conditions are not interpreted; each force block is analysed for all operand values"]

ENTRY = {0: "contact_node_face_via_spring::apply_contact_forces", 1: "contact_node_node_via_coupling::resolve_contact", 2: "contact_face_face_via_coupling::resolve_contact"}
NONNEG = re.compile(r"(repulsion_strength_|adherence_strength_|\.area_|get_area\(\))$")
CUTOFF_PARAMS = ("contact_cutoff_adhesion_", "contact_cutoff_repulsion_")


def declare(rep):
    rep.rule("C07.kernel-lemma", "kernel returns barycentric components summing to 1 (lemma used by the ledgers)", floor=7)
    rep.rule("C07.reciprocity", "per force block: the add_force arguments sum to zero; four distinct receivers", floor=1)
    rep.rule("C07.torque", "per force block: sum of pos_k x F_k is zero (forces distributed with the weights that define the contact point)", floor=1)
    rep.rule("C07.range", "each force block / coupling is dominated by d2 < cutoff^2 of a configured cut-off", floor=2)
    rep.rule("C07.cutoff-wiring", "the constructor sets each squared cut-off field to the square (or max of squares) of the configured cut-off", floor=3)
    rep.rule("C07.same-cell-excluded", "the contact routine is only called for nodes and faces of different cells", floor=1)
    rep.rule("C07.restoring-sign", "in the repulsive block the node force is -s*(x_node - x_cpa), s a product of non-negative atoms", floor=1)
    rep.rule("C07.decision-table", "the repulsive/adhesive decision (sign of the normal test and inversion pairs) is recorded per model and equal across models", floor=1)


def force_blocks(fn):
    out = []
    for n in walk(fn["body"]):
        if n.get("k") == "CompoundStmt":
            calls = [strip(c) for c in n.get("c", []) if strip(c).get("k") == "CXXMemberCallExpr" and strip(c).get("callee") == "node::add_force"]
            if len(calls) >= 2:
                out.append((n, calls))
    return out


def apply_lemma(expr):
    """bary.dz_ -> 1 - bary.dx_ - bary.dy_ for the kernel's returned coordinates."""
    sub = {}
    for a in expr.free_symbols:
        m = re.match(r"^(.*compute_node_triangle_distance\(.*\)\.second)\.dz_$", a.name)
        if m:
            sub[a] = 1 - sp.Symbol(m.group(1) + ".dx_", real=True) - sp.Symbol(m.group(1) + ".dy_", real=True)
    return expr.subs(sub) if sub else expr


def cross(a, b):
    ax, ay, az = a
    bx, by, bz = b
    return (ay * bz - az * by, az * bx - ax * bz, ax * by - ay * bx)


def run(rep, prog, tier):
    if not rep.rules:
        declare(rep)
    cm = prog.config[0]
    # lemma
    from . import c05
    kfn = prog.fn("contact_model_abstract::compute_node_triangle_distance")
    for i, (r, rvalue) in enumerate(c05.result_sites(kfn)):
        ev = S.SymEval(prog, kfn, lazy_scalars=True)
        try:
            v = ev.ev(rvalue)
            if not (isinstance(v, S.Tup) and len(v.items) == 2):
                raise S.Decline("the result is not a (scalar, vec3) pair this checker can evaluate")
            b = ev.record_of(v.items[1])
            ok = ev.prove_zero(sum(b.f.values()) - 1)
        except S.Decline as e:
            raise AnalysisBroken("kernel return #%d: %s" % (i + 1, e))
        if ok:
            rep.ok("C07.kernel-lemma", prog, kfn, r, "return #%d: components sum to 1" % (i + 1))
        else:
            rep.violation("C07.kernel-lemma", prog, kfn, r, "return #%d barycentric sum != 1" % (i + 1), "the reciprocity ledger relies on the kernel's barycentric components summing to one; return #%d violates it" % (i + 1))
    fn = prog.fn(ENTRY[cm])
    fi = prog.index(fn)
    blocks = force_blocks(fn)
    if not blocks:
        raise AnalysisBroken("%s: no force block found" % fn["qn"])
    store = ctor_store(rep, prog, cm)
    decision = None
    for (blk, calls) in blocks:
        try:
            ev = S.SymEval(prog, fn)
            recv, forces, poss = [], [], []
            for c in calls:
                o = ev.ev(call_obj(c))
                if not isinstance(o, S.Lazy):
                    raise S.Decline("receiver is not an object")
                recv.append(o.path)
                f = ev.record_of(ev.ev(call_args(c)[0]))
                forces.append([apply_lemma(sp.sympify(x)) for x in f.f.values()])
                pr = ev.record_of(ev.field(o, "pos_", "vec3"))
                poss.append(list(pr.f.values()))
            names = ", ".join(re.sub(r"#\d+", "", r) for r in recv)
            tot = [sum(f[i] for f in forces) for i in range(3)]
            if len(set(recv)) != len(recv) or len(recv) != 4:
                rep.violation("C07.reciprocity", prog, fn, blk, "receivers not 3 face nodes + node", "the force block at line %s applies forces to %s: expected the three nodes of the face and the query node, each exactly once" % (blk.get("l"), names))
            elif all(ev.prove_zero(t) for t in tot):
                rep.ok("C07.reciprocity", prog, fn, blk, "block at line %s: forces on {%s} sum to the zero vector" % (blk.get("l"), names))
            else:
                rep.violation("C07.reciprocity", prog, fn, blk, "net contact force != 0 (block of %d add_force)" % len(calls),
                              "the add_force arguments of the block at line %s sum to (%s), not to zero: the interaction adds net momentum to the tissue (%s)"
                              % (blk.get("l"), ", ".join(str(sp.factor(t))[:80] for t in tot), getattr(ev, "last_witness", "")))
            tq = [0, 0, 0]
            for p_, f_ in zip(poss, forces):
                cr = cross(p_, f_)
                tq = [tq[i] + cr[i] for i in range(3)]
            tq = [apply_lemma(sp.sympify(t)) for t in tq]
            if all(ev.prove_zero(t) for t in tq):
                rep.ok("C07.torque", prog, fn, blk, "block at line %s: sum of pos x F is zero" % blk.get("l"))
            else:
                rep.violation("C07.torque", prog, fn, blk, "net contact torque != 0 (block of %d add_force)" % len(calls),
                              "the forces of the block at line %s are not distributed with the weights that define the contact point: sum(pos_k x F_k) != 0 (%s)" % (blk.get("l"), getattr(ev, "last_witness", "")))
            # range: an adhesive block needs the adhesion cut-off, a repulsive one the repulsion (or max) cut-off
            site = calls[0]      # the first force of the block: its guards include the early exits in front of it inside the block's own compound
            kind = block_kind(fi, site)
            range_rule(rep, prog, fn, fi, site, store, "%sforce block at line %s" % (kind + " " if kind else "", blk.get("l")),
                       want={"adhesive": "adhesion", "repulsive": None}.get(kind), exclude={"repulsive": "adhesion"}.get(kind))
            # restoring sign in the repulsive block
            flag = repulsive_guard(fi, site)
            if flag is not None:
                node_i = [i for i, r in enumerate(recv) if "node_lst_" not in r]
                if len(node_i) == 1:
                    sign_rule(rep, prog, fn, blk, ev, forces, poss, node_i[0])
                decision = decision or truth_table(prog, fn, fi, site) or decision_table(prog, fn, flag)
        except S.Decline as e:
            raise AnalysisBroken("%s: force block at line %s cannot be normalised: %s" % (prog.loc(fn, blk), blk.get("l"), e))
    # couplings
    for n in walk(fn["body"]):
        if n.get("k") == "CXXMemberCallExpr" and n.get("callee") == "node::set_coupled_node_and_min_distance":
            range_rule(rep, prog, fn, fi, n, store, "coupling at line %s" % n.get("l"), want="adhesion")
    # same cell
    callers = 0
    for g in product_fns(prog):
        if not isinstance(g.get("body"), dict):
            continue
        gi = None
        for n in walk(g["body"]):
            if is_call(n) and n.get("callee") == ENTRY[cm]:
                callers += 1
                gi = gi or prog.index(g)
                ok = False
                a = call_args(n)
                from ..model import facts_at
                def _peel(e_):
                    e_ = strip(e_)
                    while e_.get("k") == "ParenExpr" and e_.get("c"):
                        e_ = strip(e_["c"][0])
                    return e_
                # 'ids differ' holds at the call: (a != b) true, or (a == b) false (e.g. 'if(a == b) continue;'); ids may be named
                # by const locals (expanded by facts_at)
                for x, truth in facts_at(g, gi, n):
                    if x.get("k") == "BinaryOperator" and ((x.get("op") == "!=" and truth) or (x.get("op") == "==" and not truth)):
                        l, r = _peel(x["c"][0]), _peel(x["c"][1])
                        if l.get("callee") == "cell::get_id" and r.get("callee") == "cell::get_id":
                            objs = {render(call_obj(l)), render(call_obj(r))}
                            # c2 must be the owner of the face passed
                            if render(a[0]) .replace("std::shared_ptr{", "").rstrip("}") in objs:
                                ok = True
                if ok:
                    rep.ok("C07.same-cell-excluded", prog, g, n, "call dominated by c1->get_id() != c2->get_id()")
                else:
                    rep.violation("C07.same-cell-excluded", prog, g, n, "contact routine callable for the same cell", "%s is called without a dominating test that the node's cell and the face's cell have different persistent ids: a cell would exert contact forces on itself" % ENTRY[cm])
    if callers == 0:
        raise AnalysisBroken("no caller of %s" % ENTRY[cm])
    if decision is None:
        raise AnalysisBroken("%s: repulsive/adhesive decision not recognised" % fn["qn"])
    if decision == REF_TABLE:
        rep.ok("C07.decision-table", prog, fn, None, "decision: %s" % decision, table=decision)
    else:
        rep.violation("C07.decision-table", prog, fn, None, "repulsive/adhesive decision differs from the documented rule",
                      "%s decides repulsive/adhesive with %s; the documented rule is %s: a node is pushed back when it lies behind the face (inside an ordinary cell), and the test is inverted for a cell of type 0 "
                      "inside an enclosing matrix of type 1 and for a nucleus (type 3) inside a cell of type 0 - with another table a node on the forbidden side is attracted further instead of pushed back" % (fn["qn"], decision, REF_TABLE), table=decision)


def ctor_store(rep, prog, cm):
    """Symbolic values of the cut-off fields after construction (base constructor, then derived)."""
    base = [f for f in prog.fns("contact_model_abstract::contact_model_abstract") if f.get("params")]
    derived_qn = ENTRY[cm].split("::")[0]
    der = [f for f in prog.fns(derived_qn + "::" + derived_qn) if f.get("params")]
    if len(base) != 1 or len(der) != 1:
        raise AnalysisBroken("contact model constructors not found")
    ev = S.SymEval(prog, base[0])
    try:
        ev.exec_block(base[0]["body"].get("c", []))
        ev2 = S.SymEval(prog, der[0])
        ev2.atoms, ev2.store = ev.atoms, ev.store
        ev2.exec_block(der[0]["body"].get("c", []))
    except S.Decline as e:
        raise AnalysisBroken("contact model constructor is not straight-line: %s" % e)
    st = ev.store
    ca, cr = [sp.Symbol("sim_parameters." + p, real=True) for p in CUTOFF_PARAMS]
    expect = {
        "this.interaction_cutoff_square_adhesion_": ca ** 2,
        "this.interaction_cutoff_square_repulsion_": cr ** 2,
        "this.max_interaction_cutoff_square_": sp.Max(ca ** 2, cr ** 2),
    }
    if cm == 0:
        expect["this.interaction_cutoff_square_"] = sp.Max(ca, cr) ** 2
    for k, v in expect.items():
        got = st.get(k)
        if got is None:
            rep.violation("C07.cutoff-wiring", prog, base[0], None, "%s never set" % k.split(".")[-1], "the constructor does not assign %s" % k)
        elif sp.simplify(got - v) == 0:
            rep.ok("C07.cutoff-wiring", prog, base[0], None, "%s = %s" % (k.split(".")[-1], v))
        else:
            rep.violation("C07.cutoff-wiring", prog, base[0], None, "%s wired to %s" % (k.split(".")[-1], str(got)[:60]),
                          "%s is set to %s instead of %s: forces would be applied beyond (or not up to) the configured cut-off" % (k.split(".")[-1], got, v))
    return st


def block_kind(fi, blk):
    for cond, pol in fi.guards(blk):
        for x in walk(cond):
            if x.get("k") == "DeclRefExpr" and x.get("t", "").replace("const ", "") == "bool":
                from ..e2 import _negations_above
                truth = (pol != _negations_above(cond, x))
                nm = x["ref"]["name"]
                if "repuls" in nm:
                    return "repulsive" if truth else "adhesive"
                if "adhes" in nm:
                    return "adhesive" if truth else "repulsive"
    return None


def range_rule(rep, prog, fn, fi, node, store, what, want=None, exclude=None):
    ok = None
    seen = []
    from ..model import def_chain
    for cond, pol in fi.guards(node):
        cond = strip(cond)
        while cond.get("k") == "UnaryOperator" and cond.get("op") == "!":
            pol = not pol
            cond = strip(cond["c"][0])
            while cond.get("k") == "ParenExpr" and cond.get("c"):
                cond = strip(cond["c"][0])
        ops = {y.get("op") for y in walk(cond) if y.get("k") == "BinaryOperator" and y.get("op") in ("&&", "||")}
        # the comparison must HOLD at the node: inside a conjunction that holds, or a single comparison whose negation failed
        if pol and not ops <= {"&&"}:
            continue
        if not pol and ops:
            continue
        for x in walk(cond):
            want_ops = ("<", "<=") if pol else (">=", ">")
            if x.get("k") == "BinaryOperator" and x.get("op") in want_ops:
                l, r = strip(x["c"][0]), strip(x["c"][1])
                if r.get("k") == "MemberExpr" and "cutoff_square" in r["ref"].get("qn", ""):
                    seen.append(r["ref"]["name"])
                    lhs_ok = l.get("k") == "DeclRefExpr" and ("squared_distance" in l["ref"]["name"] or any(
                        y.get("k") == "CallExpr" and y.get("callee", "").endswith("compute_node_triangle_distance") for d_ in def_chain(fn, l, depth=4) for y in walk(d_)))
                    if lhs_ok and (want is None or want in r["ref"]["name"]) and not (exclude and exclude in r["ref"]["name"]):
                        ok = r["ref"]["name"]
    if ok:
        rep.ok("C07.range", prog, fn, node, "%s dominated by <squared distance> < %s" % (what, ok))
    else:
        rep.violation("C07.range", prog, fn, node, "%s not range-limited" % re.sub(r" at line \d+", "", what),
                      "%s is not dominated by a test '<squared distance> < <%scut-off>^2' (tests seen: %s): a force / coupling could be created between elements farther apart than the configured cut-off"
                      % (what, (want + " ") if want else "", ", ".join(seen) or "none"))


def repulsive_guard(fi, blk):
    """The boolean local that guards the block as 'repulsive' (flag true, or '!adhesive' flag false)."""
    for cond, pol in fi.guards(blk):
        for x in walk(cond):
            if x.get("k") == "DeclRefExpr" and x.get("t", "").replace("const ", "") == "bool":
                from ..e2 import _negations_above
                neg = _negations_above(cond, x)
                truth = (pol != neg)
                nm = x["ref"]["name"]
                if ("repuls" in nm and truth) or ("adhes" in nm and not truth):
                    return x["ref"]
    return None


def sign_rule(rep, prog, fn, blk, ev, forces, poss, ni):
    fnode = forces[ni]
    xn = poss[ni]
    # contact point = sum_k w_k x_k with w_k = -F_k / F_node (component-wise identical); check via direction
    others = [i for i in range(len(forces)) if i != ni]
    # s := -F_node / (x_node - cpa) ; cpa = sum (F_k/(-F_node)) x_k
    nz = [i for i in range(3)]
    w = []
    for k in others:
        ratios = []
        for i in range(3):
            if fnode[i] != 0:
                ratios.append(sp.cancel(sp.together(-forces[k][i] / fnode[i])))
        if not ratios or any(not S.zero(ratios[0] - r) for r in ratios[1:]):
            rep.violation("C07.restoring-sign", prog, fn, blk, "face force not parallel to node force", "in the repulsive block at line %s the force on a face node is not a scalar multiple of the node's force" % blk.get("l"))
            return
        w.append(ratios[0])
    cpa = [sum(w[j] * poss[k][i] for j, k in enumerate(others)) for i in range(3)]
    d = [xn[i] - cpa[i] for i in range(3)]
    s = None
    for i in range(3):
        if d[i] != 0:
            s = sp.cancel(sp.together(-fnode[i] / d[i]))
            break
    if s is None or any(not ev.prove_zero(fnode[i] + s * d[i]) for i in range(3)):
        rep.violation("C07.restoring-sign", prog, fn, blk, "node force not along (x_node - x_cpa)", "in the repulsive block at line %s the node's force is not a multiple of (x_node - x_contact point)" % blk.get("l"))
        return
    s = sp.factor(apply_lemma(s))
    coeff, factors = s.as_coeff_mul()
    bad = [str(f) for f in factors if not (f.is_Symbol and NONNEG.search(f.name))]
    wbad = [str(x) for x in w if not (x.is_Symbol or (1 - x).is_Add)]
    if coeff > 0 and not bad:
        rep.ok("C07.restoring-sign", prog, fn, blk, "repulsive block at line %s: F_node = -(%s)*(x_node - x_cpa), reactions = +w_k*(...)" % (blk.get("l"), re.sub(r"#\d+", "", str(s))[:120]))
    else:
        rep.violation("C07.restoring-sign", prog, fn, blk, "node force coefficient %s" % ("negative" if coeff <= 0 else "not a product of non-negative atoms"),
                      "in the repulsive block at line %s the node's force is -(%s)*(x_node - x_cpa); the coefficient must be a positive constant times non-negative atoms (strength, area) so that a node on the forbidden side is pushed back toward the surface and the surface toward the node; offending factors: %s"
                      % (blk.get("l"), re.sub(r"#\d+", "", str(s))[:100], ", ".join(bad) or "constant %s" % coeff))


REF_TABLE = {"repulsive_iff_dot_normal_negative": True, "inversion_pairs(node_cell_type,face_cell_type)": [(0, 1), (3, 0)]}


def truth_table(prog, fn, fi, blk):
    """The repulsive force block as a Boolean function of S = 'dot(face-to-node vector, face normal) < 0' and of the two cell
    types, obtained by interpreting the Boolean dataflow that leads to the block (declarations, '!=' / '==' / '&&' / '||' / '!',
    conditional flips) for S in {true,false} and every pair of cell types 0..4. Returns the table in the format of
    decision_table, or None when the block's guards do not depend on S at all."""
    cellp = [p_ for p_ in fn["params"] if "shared_ptr<cell>" in p_["t"] or p_["t"].startswith("cell_ptr")]
    c1_did = cellp[0]["did"] if cellp else None

    def is_dot_normal(e):
        e = strip(e)
        if e.get("k") == "CXXMemberCallExpr" and e.get("callee") == "vec3::dot":
            return "normal" in render(e)
        return False

    def ev(e, env, S_, t1, t2):
        e = strip(e)
        k = e.get("k")
        if k == "ParenExpr" or (k in ("ImplicitCastExpr", "CXXStaticCastExpr", "ExprWithCleanups") and e.get("c")):
            return ev(e["c"][0], env, S_, t1, t2)
        if k == "CXXBoolLiteralExpr":
            return bool(e.get("v"))
        if k == "IntegerLiteral":
            return int(e.get("v"))
        if k == "DeclRefExpr":
            return env.get(e["ref"].get("did"))
        if k == "UnaryOperator" and e.get("op") == "!":
            v = ev(e["c"][0], env, S_, t1, t2)
            return None if v is None else (not v)
        if k == "CXXMemberCallExpr" and e.get("callee") == "cell::get_cell_type_id":
            o = strip(call_obj(e))
            while o.get("k") in ("CXXOperatorCallExpr",) and o.get("op") in ("->", "*"):
                o = strip(o["c"][1])
            if o.get("k") == "DeclRefExpr":
                return t1 if o["ref"].get("did") == c1_did else t2
            return None
        if k == "ConditionalOperator":
            c = ev(e["c"][0], env, S_, t1, t2)
            if c is None:
                return None
            return ev(e["c"][1] if c else e["c"][2], env, S_, t1, t2)
        if k == "BinaryOperator":
            op = e.get("op")
            if op in ("<", "<=", ">", ">="):
                l, r = strip(e["c"][0]), strip(e["c"][1])
                if is_dot_normal(l) and r.get("k") in ("FloatingLiteral", "IntegerLiteral") and float(r["v"]) == 0.0:
                    return S_ if op in ("<", "<=") else (not S_)
                if is_dot_normal(r) and l.get("k") in ("FloatingLiteral", "IntegerLiteral") and float(l["v"]) == 0.0:
                    return (not S_) if op in ("<", "<=") else S_
                return None
            a, b = ev(e["c"][0], env, S_, t1, t2), ev(e["c"][1], env, S_, t1, t2)
            if op == "&&":
                if a is False or b is False:
                    return False
                return None if a is None or b is None else True
            if op == "||":
                if a is True or b is True:
                    return True
                return None if a is None or b is None else False
            if op in ("==", "!="):
                if a is None or b is None:
                    return None
                return (a == b) if op == "==" else (a != b)
        return None

    def run_stmt(st, env, S_, t1, t2):
        k = st.get("k")
        if k == "DeclStmt":
            for d in st.get("decls", []):
                if d.get("k") == "Var" and isinstance(d.get("init"), dict) and re.search(r"\b(bool|int|short|unsigned|long)\b", d.get("t", "")):
                    env[d["did"]] = ev(d["init"], env, S_, t1, t2)
        elif k == "BinaryOperator" and st.get("op") == "=":
            l = strip(st["c"][0])
            if l.get("k") == "DeclRefExpr":
                env[l["ref"]["did"]] = ev(st["c"][1], env, S_, t1, t2)
        elif k == "IfStmt" and st.get("else") is None:
            assigns = [x for x in walk(st["then"]) if x.get("k") == "BinaryOperator" and x.get("op") == "=" and strip(x["c"][0]).get("k") == "DeclRefExpr"]
            if assigns and not any(x.get("k") in ("ForStmt", "WhileStmt", "CXXForRangeStmt") for x in walk(st["then"])):
                c = ev(st["cond"], env, S_, t1, t2)
                if c is True:
                    for x in assigns:
                        env[strip(x["c"][0])["ref"]["did"]] = ev(x["c"][1], env, S_, t1, t2)
                elif c is None:
                    for x in assigns:
                        env[strip(x["c"][0])["ref"]["did"]] = None

    # statements that execute before the block: for every enclosing compound statement, the children in front of the one that leads to it
    chain = []
    child = blk
    for p_, slot, ch in fi.ancestors(blk):
        if p_.get("k") == "CompoundStmt":
            idx = [i for i, c in enumerate(p_.get("c", [])) if c is child or any(x is child for x in walk(c))]
            if idx:
                chain.append(p_["c"][:idx[0]])
        child = p_
    chain.reverse()
    guards = list(fi.guards(blk))

    def reachable(S_, t1, t2):
        env = {}
        for stmts in chain:
            for st in stmts:
                run_stmt(strip(st) if st.get("k") not in ("DeclStmt", "IfStmt") else st, env, S_, t1, t2)
        for cond, pol in guards:
            v = ev(cond, env, S_, t1, t2)
            if v is not None and v != pol:
                return False
        return True

    types = range(5)
    table = {(S_, a, b): reachable(S_, a, b) for S_ in (True, False) for a in types for b in types}
    if all(table[(True, a, b)] == table[(False, a, b)] for a in types for b in types):
        return None
    plain = [(a, b) for a in types for b in types if table[(True, a, b)] and not table[(False, a, b)]]
    inverted = [(a, b) for a in types for b in types if table[(False, a, b)] and not table[(True, a, b)]]
    other = [(a, b) for a in types for b in types if (a, b) not in plain and (a, b) not in inverted]
    res = {"repulsive_iff_dot_normal_negative": len(plain) > len(inverted), "inversion_pairs(node_cell_type,face_cell_type)": sorted(inverted)}
    if other:
        res["always_or_never_repulsive"] = sorted(other)
    return res


def decision_table(prog, fn, flag):
    """('repulsive' | 'adhesive' flag, comparison op of dot(normal) vs 0, sorted inversion pairs)"""
    init = None
    pairs = []
    for n in walk(fn["body"]):
        if n.get("k") == "Var" and n.get("did") == flag["did"] and isinstance(n.get("init"), dict):
            c = strip(n["init"])
            if c.get("k") == "BinaryOperator" and c.get("op") in ("<", ">", "<=", ">="):
                l = strip(c["c"][0])
                if l.get("k") == "CXXMemberCallExpr" and l.get("callee") == "vec3::dot":
                    arg = strip(call_args(l)[0])
                    init = (c["op"], "normal" in render(arg))
        if n.get("k") == "IfStmt":
            body_assign = [x for x in walk(n["then"]) if x.get("k") == "BinaryOperator" and x.get("op") == "=" and strip(x["c"][0]).get("k") == "DeclRefExpr" and strip(x["c"][0])["ref"]["did"] == flag["did"]]
            if body_assign:
                r = strip(body_assign[0]["c"][1])
                if r.get("k") == "UnaryOperator" and r.get("op") == "!":
                    lits = []
                    for x in walk(n["cond"]):
                        if x.get("k") == "BinaryOperator" and x.get("op") == "==":
                            a, b = strip(x["c"][0]), strip(x["c"][1])
                            if a.get("callee") == "cell::get_cell_type_id" and b.get("k") == "IntegerLiteral":
                                lits.append((render(call_obj(a)).split("#")[0], int(b["v"])))
                    if len(lits) == 2:
                        pairs.append(tuple(v for _, v in sorted(lits)))
    if init is None:
        return None
    op, on_normal = init
    rep_when_negative = (("repuls" in flag["name"]) == (op in ("<", "<=")))
    return {"repulsive_iff_dot_normal_negative": rep_when_negative and on_normal, "inversion_pairs(node_cell_type,face_cell_type)": sorted(pairs)}


def cross_config(rep, progs, tier):
    tables = {}
    for i in rep.instances:
        if i["rule"] == "C07.decision-table" and i.get("table"):
            tables[i["config"]] = i["table"]
    vals = {repr(sorted(t.items())) for t in tables.values()}
    ref = {"repulsive_iff_dot_normal_negative": True, "inversion_pairs(node_cell_type,face_cell_type)": [(0, 1), (3, 0)]}
    some = next(iter(progs.values()))
    for cfg, t in sorted(tables.items()):
        if t != ref:
            rep.violation("C07.decision-table", None, None, None, "decision table of %s differs" % cfg.split("_")[0],
                          "configuration %s decides repulsive/adhesive with %s, the documented rule is %s (inside an ordinary cell; outside an enclosing matrix (0,1); outside an enclosing cell for a nucleus (3,0))" % (cfg, t, ref))
