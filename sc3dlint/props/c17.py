"""C17 - malformed input is rejected with an exception, never a crash (structural clauses)."""
import re

from .. import e2
from ..model import walk, strip, is_call, call_obj, call_args, render, short, children, AnalysisBroken
from .c10 import product_fns

EXPLANATION = ("Exception-discipline and input-validation rules over clang's resolved AST: (1) every throw expression of "
               "the product throws a type derived from std::exception; (2) nothing that may throw in main lies outside its "
               "try/catch(std::exception); (3) no noexcept function on the start-up call-graph cone lets an exception from "
               "its callees escape (std::terminate); (4) every pointer obtained from tinyxml2's nullable accessors is tested "
               "before it is dereferenced or turned into a std::string; (5) in mesh_reader every vector subscript / iterator "
               "offset computed from file-derived integers is dominated by a bound check against that container. Decides these "
               "mechanisms for all inputs; does not decide termination, memory proportionality or the regex engine's behaviour.")
ASSUMPTIONS = [
    "tinyxml2 is summarised: FirstChildElement/NextSiblingElement/GetText/Attribute/FirstChild/ToElement may return null and never throw",
    "std calls that throw are a frozen table (stoi/stod/at/substr/regex/filesystem/rethrow_exception)",
    "optional::value() inside noexcept accessors (edge::f1/f2) is excluded from rule 3: its guard lives in callers (is_manifold idiom)",
]

NULLABLE = re.compile(r"^tinyxml2::XML(Node|Element|Document|Handle|ConstHandle)::(FirstChildElement|NextSiblingElement|PreviousSiblingElement|LastChildElement|FirstChild|LastChild|NextSibling|GetText|Attribute|FindAttribute|ToElement|RootElement|FirstAttribute)$")
STARTUP_ROOTS = ["simulation_initializer::simulation_initializer", "solver::solver", "parameter_reader::parameter_reader", "mesh_reader::mesh_reader"]
# callee -> guard idiom accepted at call sites (callee's own throw condition negated)
GUARDED_THROW_IDIOMS = {
    "edge::add_face": ("is_manifold", False, "edge::add_face throws only when both face slots are taken, i.e. when is_manifold() is true; the call is dominated by !is_manifold() on the same edge"),
}


def declare(rep):
    rep.rule("C17.throw-types", "every throw expression throws a type derived from std::exception", floor=80)
    rep.rule("C17.what-message", "what() of every exception class of the product returns the c_str() of a std::string member (a NUL-terminated text owned by the exception object): main prints it when it reports the error, so a buffer that may lack its terminator is read past its end", floor=8)
    rep.rule("C17.main-catches", "every statement of main that may throw lies inside try{...}catch(std::exception)", floor=1)
    rep.rule("C17.noexcept-escape", "no noexcept function on the start-up cone lets a callee's exception escape (=> std::terminate)", floor=40)
    rep.rule("C17.nullable-xml", "a pointer returned by a nullable tinyxml2 accessor is tested before dereference / std::string construction", floor=8)
    rep.rule("C17.input-driven-loops", "every loop of the readers that appends to a container or writes through a subscript advances by consuming the input itself (regex_search / getline / iterator / XML sibling) or runs a fixed number of times - "
             "never a number of times announced by the file without an exit on exhausted input - and subscript writes with a running index are bounded by the container's size", floor=6)
    rep.rule("C17.file-index", "in mesh_reader, subscripts / iterator offsets derived from file content are dominated by a bound check on that container", floor=4)


def run(rep, prog, tier):
    if not rep.rules:
        declare(rep)
    X = e2.Exceptions(prog)
    throw_types(rep, prog, X)
    what_message(rep, prog, X)
    main_catches(rep, prog, X)
    noexcept_escape(rep, prog, X, STARTUP_ROOTS, "C17.noexcept-escape")
    nullable_xml(rep, prog)
    file_index(rep, prog)
    input_driven_loops(rep, prog)


# ------------------------------------------------------------------------------------------
def throw_types(rep, prog, X):
    for fn in product_fns(prog):
        if not isinstance(fn.get("body"), dict):
            continue
        for n in walk(fn["body"]):
            if n.get("k") == "CXXThrowExpr" and not n.get("rethrow"):
                t = n.get("thrown_t", "?")
                if X.derives_from_std_exception(t):
                    rep.ok("C17.throw-types", prog, fn, n, "throw %s (derived from std::exception)" % t)
                else:
                    rep.violation("C17.throw-types", prog, fn, n, "throw of %s" % t,
                                  "%s throws a %s, which is not publicly derived from std::exception (a private or protected base does not make a handler match): main's catch(std::exception const&) and cell_divider::divide_cell's handler do not catch it => std::terminate" % (fn["qn"], t))


def what_message(rep, prog, X):
    for qn_, fns in sorted(prog.by_qn.items()):
        if not qn_.endswith("::what"):
            continue
        cls = qn_[:-6]
        if cls not in prog.records or not X.derives_from_std_exception(cls) or cls.startswith("std::"):
            continue
        fn = fns[0]
        if "/lib/" in (fn.get("file") or "") or not isinstance(fn.get("body"), dict):
            continue
        rets = [r for r in walk(fn["body"]) if r.get("k") == "ReturnStmt" and isinstance(r.get("value"), dict)]
        for r in rets:
            v = strip(r["value"])
            while v.get("k") in ("ImplicitCastExpr", "ParenExpr", "ExprWithCleanups") and v.get("c"):
                v = strip(v["c"][0])
            if v.get("k") == "CXXMemberCallExpr" and v.get("callee", "").endswith("::c_str") or (v.get("k") == "CXXMemberCallExpr" and v.get("callee", "").endswith("basic_string<char>::data")):
                o = strip(call_obj(v) or {})
                if o.get("k") == "MemberExpr" and (o.get("ref") or {}).get("dk") == "Field":
                    rep.ok("C17.what-message", prog, fn, r, "%s::what() returns %s.c_str() (std::string member)" % (cls, o["ref"].get("name")))
                    continue
                rep.violation("C17.what-message", prog, fn, r, "what() returns the text of a temporary", "%s::what() returns the c_str() of '%s', which is not a data member of the exception: the pointer dangles when main prints it" % (cls, short(o, 50)))
                continue
            if v.get("k") == "StringLiteral":
                rep.ok("C17.what-message", prog, fn, r, "%s::what() returns a string literal" % cls)
                continue
            if v.get("k") == "MemberExpr" and (v.get("ref") or {}).get("dk") == "Field" and "char[" in (v.get("t") or "").replace(" ", ""):
                # a fixed buffer: it must be terminated whatever the length of the message
                name = v["ref"].get("name")
                fills = []
                for m_qn, m_fns in prog.by_qn.items():
                    if not m_qn.startswith(cls + "::"):
                        continue
                    for g in m_fns:
                        for root in ([g["body"]] if isinstance(g.get("body"), dict) else []):
                            for c in walk(root):
                                if is_call(c) and c.get("callee", "").split("::")[-1] in ("strncpy", "memcpy", "strcpy", "snprintf", "sprintf") and call_args(c) and name in render(call_args(c)[0]):
                                    fills.append((g, c))
                terminated = any(x.get("k") == "BinaryOperator" and x.get("op") == "=" and name in render(x["c"][0]) and strip(x["c"][0]).get("k") == "ArraySubscriptExpr" and render(strip(x["c"][1])) in ("0", "'\\0'", "(char)0")
                                 for m_qn, m_fns in prog.by_qn.items() if m_qn.startswith(cls + "::") for g in m_fns if isinstance(g.get("body"), dict) for x in walk(g["body"]))
                bad = [(g, c) for g, c in fills if c.get("callee", "").split("::")[-1] in ("strncpy", "memcpy") and any(y.get("k") == "UnaryExprOrTypeTraitExpr" for y in walk(call_args(c)[-1])) and not any(y.get("k") == "BinaryOperator" and y.get("op") == "-" for y in walk(call_args(c)[-1]))] + [(g, c) for g, c in fills if c.get("callee", "").split("::")[-1] in ("strcpy", "sprintf")]
                if bad and not terminated:
                    g, c = bad[0]
                    rep.violation("C17.what-message", prog, g, c, "message buffer may lack its terminator",
                                  "%s fills the fixed buffer %s with '%s' and never stores a terminating NUL: for a message of sizeof(%s) characters or more (the readers quote names taken from the input file in their messages) the buffer is not terminated, and main's e.what() reads past the end of the exception object - an out-of-bounds read triggered by the content of the input file" % (g["qn"], name, short(c, 70), name))
                    continue
                raise AnalysisBroken("%s::what() returns the fixed buffer %s: whether it is always NUL-terminated is not decided by this checker" % (cls, name))
            raise AnalysisBroken("%s::what() returns '%s', a form this checker does not decide" % (cls, short(v, 60)))


def main_catches(rep, prog, X):
    fn = prog.fn("main")
    all_ok = all(X.derives_from_std_exception(t) for f in X.throws.values() for t in f if t != e2.ANY)
    esc = X.escapes(fn, fn["body"])
    esc.pop("<rethrow>", None)
    if all_ok:
        # a rethrown stored exception is one of the product's thrown types, all std::exception-derived (rule 1)
        for t in list(esc):
            if t == e2.ANY:
                tries = [n for n in walk(fn["body"]) if n.get("k") == "CXXTryStmt"]
                if tries and all(any(h["type"] in ("std::exception", "...") for h in t_["handlers"]) for t_ in tries):
                    # only valid if the ANY source is inside the try: recompute with ANY treated as std::exception
                    pass
    # recompute treating ANY as std::exception-derived when rule 1 holds product-wide
    class X2(e2.Exceptions):
        pass
    if all_ok:
        old = X.handler_catches
        X.handler_catches = lambda h, t: True if (t == e2.ANY and h in ("std::exception", "...")) else old(h, t)
        try:
            esc = X.escapes(fn, fn["body"])
        finally:
            X.handler_catches = old
        esc.pop("<rethrow>", None)
    if esc:
        for t, site in sorted(esc.items()):
            rep.violation("C17.main-catches", prog, fn, None, "main lets %s escape" % t,
                          "an exception of type %s can leave main uncaught (%s)" % (t, site))
    else:
        tries = [n for n in walk(fn["body"]) if n.get("k") == "CXXTryStmt"]
        rep.ok("C17.main-catches", prog, fn, tries[0] if tries else None, "nothing that may throw lies outside main's try; handler catches std::exception")
    # the handler must report: returns non-zero / prints
    tries = [n for n in walk(fn["body"]) if n.get("k") == "CXXTryStmt"]
    if not tries or not any(h["type"] == "std::exception" for h in tries[0]["handlers"]):
        rep.violation("C17.main-catches", prog, fn, None, "main has no catch(std::exception)", "main no longer catches std::exception")


def _canon_obj(t):
    return t.replace("this->", "").replace(" ", "").replace("(", "").replace(")", "")


def _alias_text(fn, e):
    """canonical text of the object an expression designates: reference locals (bound once) replaced by what they are bound to,
    value locals by their initialisers"""
    from ..model import expand_text
    x = strip(e)
    for _ in range(4):
        if x.get("k") == "DeclRefExpr" and (x.get("ref") or {}).get("dk") == "Var":
            v = [v_ for v_ in walk(fn["body"]) if v_.get("k") == "Var" and v_.get("did") == x["ref"].get("did") and (v_.get("t") or "").rstrip().endswith("&") and isinstance(v_.get("init"), dict)]
            if len(v) == 1:
                x = strip(v[0]["init"])
                continue
        break
    return _canon_obj(expand_text(fn, x))


def helper_idiom_guarded(prog, fn, call, X):
    """call of a repository helper whose only throwing sites are calls listed in GUARDED_THROW_IDIOMS on objects named through its
    parameters / members, each of which is known at this call (with the arguments substituted) not to be in the throwing state."""
    tks = [tk for tk in prog.call_targets(call)]
    if len(tks) != 1:
        return False
    g = prog.functions[tks[0]]
    if not isinstance(g.get("body"), dict) or g.get("noexcept") or g["qn"] in GUARDED_THROW_IDIOMS or "/lib/" in g.get("file", ""):
        return False
    sites = [n for n in walk(g["body"]) if is_call(n) and n.get("callee", "") in GUARDED_THROW_IDIOMS and call_obj(n) is not None]
    if not sites:
        return False
    saved = [(n, n.get("ckey")) for n in sites]
    for n, _ in saved:
        n["ckey"] = None
    try:
        rest = X.escapes(g, g["body"])
    finally:
        for n, ck in saved:
            n["ckey"] = ck
    rest.pop("<rethrow>", None)
    if rest:
        return False
    params = [p_.get("name") for p_ in g.get("params", []) if isinstance(p_, dict)]
    args = call_args(call)
    if len(args) < len(params):
        return False
    from ..model import facts_at, expand_text
    fi = prog.index(fn)
    facts = [(atom, truth) for atom, truth in facts_at(fn, fi, call) if atom.get("k") == "CXXMemberCallExpr" and call_obj(atom) is not None]
    written = {(strip(t_).get("ref") or {}).get("name") for w in walk(g["body"]) if w.get("k") in ("BinaryOperator", "CompoundAssignOperator", "UnaryOperator") and w.get("op") in ("=", "+=", "-=", "++", "--", "post++", "pre++", "post--", "pre--") for t_ in w.get("c", [])[:1]}
    for n in sites:
        meth, needed_pol, _ = GUARDED_THROW_IDIOMS[n["callee"]]
        obj_t = render(call_obj(n))
        for pn, a in zip(params, args):
            if pn and re.search(r"\b%s\b" % re.escape(pn), obj_t):
                if pn in written:
                    return False
                obj_t = re.sub(r"\b%s\b" % re.escape(pn), expand_text(fn, a), obj_t)
        key = _canon_obj(obj_t)
        if not any(atom.get("callee", "").endswith("::" + meth) and truth == needed_pol and _alias_text(fn, call_obj(atom)) == key for atom, truth in facts):
            return False
    return True


def idiom_guarded(prog, fn, call, X=None):
    """call to a callee listed in GUARDED_THROW_IDIOMS dominated by the negation of its throw condition."""
    callee = call.get("callee", "")
    if callee not in GUARDED_THROW_IDIOMS:
        return X is not None and helper_idiom_guarded(prog, fn, call, X)
    meth, needed_pol, _ = GUARDED_THROW_IDIOMS[callee]
    obj = call_obj(call)
    if obj is None:
        return False
    key = render(obj)
    fi = prog.index(fn)
    # atomic facts that hold at the call (guards with locals expanded, negations pushed inwards, conjunctions that hold and
    # disjunctions that do not hold split): is `obj.<meth>()` known to have the needed truth value?
    from ..model import facts_at, expand_text
    for atom, truth in facts_at(fn, fi, call):
        if atom.get("k") == "CXXMemberCallExpr" and atom.get("callee", "").endswith("::" + meth) and truth == needed_pol and call_obj(atom) is not None and (render(call_obj(atom)) == key or _alias_text(fn, call_obj(atom)) == _alias_text(fn, obj)):
            return True
    return False


def noexcept_escape(rep, prog, X, roots, rule):
    keys = set()
    for r in roots:
        for f in prog.fns(r):
            keys.add(f["key"])
    cone = prog.closure(keys)
    n = 0
    for k in sorted(cone):
        fn = prog.functions[k]
        if "/lib/" in fn["file"] or not fn.get("noexcept") or not isinstance(fn.get("body"), dict) or fn.get("pseudo"):
            continue
        n += 1
        esc = escapes_with_idioms(prog, X, fn)
        if not esc:
            rep.ok(rule, prog, fn, None, "noexcept function on the cone: no callee exception can escape")
        else:
            for t, site in sorted(esc.items()):
                rep.violation(rule, prog, fn, None, "%s escapes noexcept" % t,
                              "%s is declared noexcept but an exception of type %s can reach its frame (%s): std::terminate (abort) instead of an exception reported by main" % (fn["qn"], t, site))
    return n


def escapes_with_idioms(prog, X, fn):
    """X.escapes, minus throws of idiom-guarded callees."""
    guarded_sites = set()
    for n in walk(fn["body"]):
        if is_call(n) and idiom_guarded(prog, fn, n, X):
            guarded_sites.add(id(n))
    if not guarded_sites:
        esc = X.escapes(fn, fn["body"])
    else:
        saved = {}
        for n in walk(fn["body"]):
            if id(n) in guarded_sites:
                saved[id(n)] = (n, n.get("ckey"))
                n["ckey"] = None
        try:
            esc = X.escapes(fn, fn["body"])
        finally:
            for n, ck in saved.values():
                n["ckey"] = ck
    esc.pop("<rethrow>", None)
    return esc


# ------------------------------------------------------------------------------------------
def _null_guarded(fi, use, did, name_render=None):
    """Is `use` structurally dominated by a test that variable `did` is non-null?"""
    for cond, pol in fi.guards(use):
        v = _nonnull_value(cond, did)
        if v is None:
            continue
        ops = {y.get("op") for y in walk(cond) if y.get("k") == "BinaryOperator" and y.get("op") in ("&&", "||")}
        if pol and ops <= {"&&"} and v is True:
            return True
        if (not pol) and ops <= {"||"} and v is False:
            return True
    return False


def _nonnull_value(cond, did):
    """If cond contains a test of variable did against null, return the truth value of that test
    that corresponds to 'non-null' (True: test true => non-null; False: test false => non-null)."""
    for x in walk(cond):
        k = x.get("k")
        if k == "BinaryOperator" and x.get("op") in ("==", "!="):
            a, b = strip(x["c"][0]), strip(x["c"][1])
            for p, q in ((a, b), (b, a)):
                if p.get("k") == "DeclRefExpr" and p["ref"]["did"] == did and q.get("k") in ("CXXNullPtrLiteralExpr", "GNUNullExpr", "IntegerLiteral"):
                    neg = e2._negations_above(cond, x)
                    val = (x["op"] == "!=")
                    return val != neg
        if k == "ImplicitCastExpr" and x.get("ck") == "PointerToBoolean":
            p = strip(x)
            if p.get("k") == "DeclRefExpr" and p["ref"]["did"] == did:
                neg = e2._negations_above(cond, x)
                return not neg
    return None


def derefs_unguarded(prog, fn):
    """parameter indices of pointer type that fn dereferences without a dominating null test."""
    out = set()
    if not isinstance(fn.get("body"), dict):
        return out
    fi = prog.index(fn)
    for i, p in enumerate(fn.get("params", [])):
        if not p["t"].rstrip().endswith("*"):
            continue
        for n in walk(fn["body"]):
            if n.get("k") == "MemberExpr" and n.get("arrow") and n.get("c"):
                b = strip(n["c"][0])
                if b.get("k") == "DeclRefExpr" and b["ref"]["did"] == p["did"] and not _null_guarded(fi, n, p["did"]):
                    out.add(i)
            if n.get("k") == "UnaryOperator" and n.get("op") == "*":
                b = strip(n["c"][0])
                if b.get("k") == "DeclRefExpr" and b["ref"]["did"] == p["did"] and not _null_guarded(fi, n, p["did"]):
                    out.add(i)
    return out


def nullable_xml(rep, prog):
    deref_params = {}
    for fn in product_fns(prog):
        deref_params[fn["key"]] = derefs_unguarded(prog, fn)
    for fn in product_fns(prog):
        if not isinstance(fn.get("body"), dict):
            continue
        fi = prog.index(fn)
        for n in walk(fn["body"]):
            if not (n.get("k") == "CXXMemberCallExpr" and NULLABLE.match(n.get("callee", ""))):
                continue
            # where does the result go?
            p, slot = fi.parent.get(id(n), (None, None))
            cur = n
            while p is not None and p.get("k") in ("ImplicitCastExpr", "ParenExpr", "ExprWithCleanups", "MaterializeTemporaryExpr", "CXXBindTemporaryExpr"):
                cur = p
                p, slot = fi.parent.get(id(p), (None, None))
            cname = n["callee"].split("::")[-1]
            if p is None:
                continue
            pk = p.get("k")
            if pk in ("Var",) and slot == "init":
                did = p["did"]
                bad = _uses_unguarded(prog, fn, fi, did, deref_params)
                if bad:
                    u = bad[0]
                    rep.violation("C17.nullable-xml", prog, fn, u[0], "%s result '%s' used unchecked" % (cname, p["name"]),
                                  "'%s' holds the result of %s (may be null for a missing / empty element) and is %s at line %s without a dominating null test: null dereference / std::logic_error instead of a parameter_reader_exception"
                                  % (p["name"], n["callee"], u[1], u[0].get("l")))
                else:
                    rep.ok("C17.nullable-xml", prog, fn, n, "result of %s stored in '%s': every dereference / string construction is dominated by a null test" % (cname, p["name"]))
            elif pk in ("BinaryOperator",) and p.get("op") == "=" and p["c"][1] is cur:
                lhs = strip(p["c"][0])
                if lhs.get("k") == "DeclRefExpr":
                    did = lhs["ref"]["did"]
                    bad = _uses_unguarded(prog, fn, fi, did, deref_params)
                    if bad:
                        u = bad[0]
                        rep.violation("C17.nullable-xml", prog, fn, u[0], "%s result '%s' used unchecked" % (cname, lhs["ref"]["name"]),
                                      "'%s' is assigned the result of %s (may be null) and is %s at line %s without a dominating null test" % (lhs["ref"]["name"], n["callee"], u[1], u[0].get("l")))
                    else:
                        rep.ok("C17.nullable-xml", prog, fn, n, "result of %s assigned to '%s': uses are dominated by a null test" % (cname, lhs["ref"]["name"]))
                else:
                    rep.ok("C17.nullable-xml", prog, fn, n, "result of %s stored in a member" % cname)
            elif pk == "MemberExpr" and p.get("arrow"):
                rep.violation("C17.nullable-xml", prog, fn, n, "%s result dereferenced directly" % cname,
                              "the result of %s (may be null) is dereferenced directly (%s)" % (n["callee"], short(p, 80)))
            elif pk in ("CXXConstructExpr", "CXXTemporaryObjectExpr") and "basic_string" in p.get("cls", ""):
                rep.violation("C17.nullable-xml", prog, fn, n, "std::string from %s result" % cname,
                              "a std::string is constructed directly from the result of %s, which is null for an empty element: std::logic_error (inside a noexcept function: std::terminate)" % n["callee"])
            elif pk == "BinaryOperator" and p.get("op") in ("==", "!="):
                rep.ok("C17.nullable-xml", prog, fn, n, "result of %s is only compared against null" % cname)
            elif pk == "ReturnStmt":
                rep.ok("C17.nullable-xml", prog, fn, n, "result of %s is returned to the caller (checked there)" % cname)
            else:
                rep.ok("C17.nullable-xml", prog, fn, n, "result of %s flows into %s (no dereference)" % (cname, pk))


def _uses_unguarded(prog, fn, fi, did, deref_params):
    bad = []
    for u in walk(fn["body"]):
        if not (u.get("k") == "DeclRefExpr" and u["ref"]["did"] == did):
            continue
        p, slot = fi.parent.get(id(u), (None, None))
        cur = u
        while p is not None and p.get("k") in ("ImplicitCastExpr", "ParenExpr"):
            if p.get("k") == "ImplicitCastExpr" and p.get("ck") == "PointerToBoolean":
                break
            cur = p
            p, slot = fi.parent.get(id(p), (None, None))
        if p is None:
            continue
        pk = p.get("k")
        what = None
        if pk == "MemberExpr" and p.get("arrow"):
            what = "dereferenced (%s)" % short(p, 50)
        elif pk == "UnaryOperator" and p.get("op") == "*":
            what = "dereferenced"
        elif pk in ("CXXConstructExpr", "CXXTemporaryObjectExpr") and "basic_string" in p.get("cls", ""):
            what = "turned into a std::string"
        elif is_call(p) and prog.call_targets(p):
            args = call_args(p)
            for i, a in enumerate(args):
                if a is cur or strip(a) is u:
                    for tk in prog.call_targets(p):
                        if i in deref_params.get(tk, ()):
                            what = "passed to %s, which dereferences that parameter unchecked" % prog.functions[tk]["qn"]
        if what and not _null_guarded(fi, u, did):
            bad.append((u, what))
    return bad


# ------------------------------------------------------------------------------------------
INT32 = ("int", "unsigned int", "const int", "const unsigned int", "short", "unsigned short")


def wraps_in_32bit(fn, expr, tainted):
    """arithmetic (+, *) carried out in a 32-bit type on a value that depends on file content"""
    for x in walk(expr):
        if x.get("k") == "BinaryOperator" and x.get("op") in ("*", "+", "<<") and x.get("t", "") in INT32:
            for y in walk(x):
                if y.get("k") == "DeclRefExpr" and y["ref"]["did"] in tainted:
                    # a literal-only partner cannot be excluded from wrapping either: id*3, id+3
                    return True
    return False


def wrapped_locals(fn, tainted):
    out = set()
    for n in walk(fn["body"]):
        if n.get("k") == "Var" and isinstance(n.get("init"), dict) and n.get("t", "").replace("const ", "") in ("int", "unsigned int") and wraps_in_32bit(fn, n["init"], tainted):
            out.add(n["did"])
    return out


INT_VEC = re.compile(r"std::vector<(std::vector<)?(unsigned int|int|unsigned long|long|short|unsigned short)")


class _NoLinear(Exception):
    pass


def _linear_bound_check(prog, fn, fi, sink_expr, cont_expr):
    """Is 'end position of sink_expr <= size of its container' implied by a dominating throwing guard, in linear integer
    arithmetic over (position of the iterator at the guard, file values, container size)?  Returns (True|False, explanation)
    or None when the sink or the guards are not linear iterator arithmetic."""
    import sympy as sp
    S = sp.Symbol("size", integer=True)

    def pos(e, shift):
        """symbolic position of an iterator-valued expression; shift: did -> increments applied to iterator variables"""
        e = strip(e)
        k = e.get("k")
        if k == "CXXMemberCallExpr" and e.get("callee", "").split("::")[-1] in ("begin", "cbegin"):
            return sp.Integer(0)
        if k == "CXXMemberCallExpr" and e.get("callee", "").split("::")[-1] in ("end", "cend"):
            return S
        if k == "DeclRefExpr" and "__normal_iterator" in e.get("t", ""):
            return sp.Symbol("pos_%s" % e["ref"]["did"], integer=True) + shift.get(e["ref"]["did"], 0)
        if k == "CXXOperatorCallExpr" and e.get("op") == "+" and len(e["c"]) == 3:
            return pos(e["c"][1], shift) + val(e["c"][2], shift)
        if k == "CXXOperatorCallExpr" and e.get("op") == "-" and len(e["c"]) == 3 and "__normal_iterator" in e.get("t", ""):
            return pos(e["c"][1], shift) - val(e["c"][2], shift)
        if k == "CallExpr" and e.get("callee") == "std::next" and len(call_args(e)) == 2:
            return pos(call_args(e)[0], shift) + val(call_args(e)[1], shift)
        if k in ("CXXConstructExpr", "CXXFunctionalCastExpr") and e.get("c") and len(e["c"]) == 1:
            return pos(e["c"][0], shift)
        raise _NoLinear()

    def val(e, shift):
        e = strip(e)
        k = e.get("k")
        if k == "IntegerLiteral":
            return sp.Integer(int(e["v"]))
        if k == "DeclRefExpr":
            return sp.Symbol("v_%s" % e["ref"]["did"], integer=True)
        if k in ("CStyleCastExpr", "CXXStaticCastExpr", "CXXFunctionalCastExpr") and e.get("c"):
            return val(e["c"][-1], shift)
        if k == "BinaryOperator" and e.get("op") in ("+", "-", "*"):
            a, b = val(e["c"][0], shift), val(e["c"][1], shift)
            r = a + b if e["op"] == "+" else (a - b if e["op"] == "-" else a * b)
            if e["op"] == "*" and not (a.is_number or b.is_number):
                raise _NoLinear()
            return r
        if k == "CXXMemberCallExpr" and e.get("callee", "").split("::")[-1] == "size":
            return S
        if k == "CallExpr" and e.get("callee") == "std::distance" and len(call_args(e)) == 2:
            return pos(call_args(e)[1], shift) - pos(call_args(e)[0], shift)
        if k == "CXXOperatorCallExpr" and e.get("op") == "-" and len(e["c"]) == 3:
            return pos(e["c"][1], shift) - pos(e["c"][2], shift)
        raise _NoLinear()

    def shifts_between(a, b):
        """increments applied to iterator variables by the statements strictly between nodes a and b (program order), provided
        they are unconditional siblings in the same block"""
        sh = {}
        anc = {id(p_) for p_, _, _ in fi.ancestors(b)}
        for n in fi.nodes:
            if not (fi.order[id(a)] < fi.order[id(n)] < fi.order[id(b)]) or id(n) in anc:
                continue
            k = n.get("k")
            tgt = None
            inc = None
            if k == "CXXOperatorCallExpr" and n.get("op") in ("++", "--") and "__normal_iterator" in strip(n["c"][1]).get("t", ""):
                tgt, inc = strip(n["c"][1]), (1 if n["op"] == "++" else -1)
            elif k == "CXXOperatorCallExpr" and n.get("op") == "+=" and "__normal_iterator" in strip(n["c"][1]).get("t", ""):
                tgt, inc = strip(n["c"][1]), val(n["c"][2], sh)
            elif k in ("CXXOperatorCallExpr", "BinaryOperator") and n.get("op") == "=" and "__normal_iterator" in strip(n["c"][-2]).get("t", ""):
                t_ = strip(n["c"][-2])
                if t_.get("k") == "DeclRefExpr":
                    newp = pos(n["c"][-1], sh)
                    cur = sp.Symbol("pos_%s" % t_["ref"]["did"], integer=True)
                    tgt, inc = t_, sp.simplify(newp - cur - sh.get(t_["ref"]["did"], 0))
            if tgt is not None and tgt.get("k") == "DeclRefExpr":
                if fi.enclosing(n, ("IfStmt",)) is not None and fi.enclosing(n, ("IfStmt",)) is not fi.enclosing(b, ("IfStmt",)) and fi.order[id(fi.enclosing(n, ("IfStmt",)))] > fi.order[id(a)]:
                    raise _NoLinear()
                sh[tgt["ref"]["did"]] = sh.get(tgt["ref"]["did"], 0) + inc
        return sh

    from ..model import always_exits
    guards = []
    for cond, pol in fi.guards(sink_expr):
        c = strip(cond)
        if c.get("k") != "BinaryOperator" or c.get("op") not in ("<", "<=", ">", ">="):
            continue
        # only 'if(cond) throw' guards seen from after the if (pol False)
        if pol:
            continue
        try:
            sh0 = {}
            L, R = val(c["c"][0], sh0), val(c["c"][1], sh0)
        except _NoLinear:
            continue
        op = c["op"]
        # continuing means NOT (L op R)
        g = {">": L - R, ">=": L - R + 1, "<": R - L, "<=": R - L + 1}[op]      # g <= 0 holds afterwards
        guards.append((g, cond))
    if not guards:
        return None
    results = []
    for g, cond in guards:
        try:
            sh = shifts_between(cond, sink_expr)
            E = pos(sink_expr, sh)
        except _NoLinear:
            continue
        d = sp.simplify((E - S) - g)
        if d.is_number:
            results.append((bool(d <= 0), "end position - size = guard %+d" % int(d), cond))
    if not results:
        return None
    for ok, why, cond in results:
        if ok:
            return True, why
    return False, results[0][1]


def _signed(t):
    t = t.replace("const ", "").strip()
    return t in ("int", "short", "long", "long long", "char", "signed char", "std::ptrdiff_t", "ptrdiff_t") or t.startswith("int") and "unsigned" not in t


def file_index(rep, prog):
    """Taint: integers parsed from the file (std::stoi & co, elements of integer-vector parameters).
    Sinks: vector subscript, iterator + offset, std::next(it, off), element [0]/front()/back() of a
    parameter container. Each sink needs a dominating condition that mentions the tainted variable (or,
    for constant subscripts, the container) together with size()/end()/empty()/distance of that container."""
    fns = [f for f in product_fns(prog) if f.get("cls") == "mesh_reader" and isinstance(f.get("body"), dict)]
    if len(fns) < 5:
        raise AnalysisBroken("mesh_reader functions not found")
    # consumers of the reader's integer vectors outside the reader (the initializer indexes the cell type list with them)
    consumers = [f for f in product_fns(prog) if f.get("cls") != "mesh_reader" and isinstance(f.get("body"), dict)
                 and any(n.get("k") == "Var" and INT_VEC.search(n.get("t", "")) and isinstance(n.get("init"), dict) and any(is_call(x) and x.get("callee", "").startswith("mesh_reader::") for x in walk(n["init"])) for n in walk(f["body"]))]
    for fn in fns + consumers:
        fi = prog.index(fn)
        tainted = {}   # did -> name
        containers = {}  # did -> name  (file-derived integer containers)
        origin = {}    # iterator did -> dids of the containers it points into
        if fn.get("cls") == "mesh_reader":
            for p in fn.get("params", []):
                if INT_VEC.search(p["t"]):
                    containers[p["did"]] = p["name"]
        for n in walk(fn["body"]):
            if n.get("k") == "Var" and INT_VEC.search(n.get("t", "")) and isinstance(n.get("init"), dict) and any(is_call(x) and x.get("callee", "").startswith("mesh_reader::") for x in walk(n["init"])):
                containers[n["did"]] = n["name"]
        # propagate to a fixpoint over declarations / assignments
        def expr_tainted(e):
            for x in walk(e):
                if x.get("k") == "DeclRefExpr" and (x["ref"]["did"] in tainted or x["ref"]["did"] in containers):
                    return True
                if x.get("k") == "CallExpr" and re.match(r"^std::sto(i|l|ul|ull|ll)$", x.get("callee", "")):
                    return True
            return False
        for _ in range(6):
            changed = False
            for n in walk(fn["body"]):
                k = n.get("k")
                if k == "CXXForRangeStmt" and expr_tainted(n["range"]):
                    v = n["var"]
                    if INT_VEC.search(v.get("t", "")) or "vector" in v.get("t", ""):
                        if v["did"] not in containers:
                            containers[v["did"]] = v["name"]
                            changed = True
                    elif v["did"] not in tainted:
                        tainted[v["did"]] = v["name"]
                        changed = True
                elif k == "Var" and isinstance(n.get("init"), dict) and expr_tainted(n["init"]):
                    t = n.get("t", "")
                    if re.search(r"^(const )?(unsigned |)(int|long|short|char)|^(const )?unsigned", t) and n["did"] not in tainted:
                        tainted[n["did"]] = n["name"]
                        changed = True
                    elif "iterator" in t and n["did"] not in tainted:
                        tainted[n["did"]] = n["name"]   # iterator into a file-derived container: *it is file data
                        origin[n["did"]] = {x["ref"]["did"] for x in walk(n["init"]) if x.get("k") == "DeclRefExpr" and x["ref"]["did"] in containers}
                        changed = True
                elif k == "CXXMemberCallExpr" and n.get("callee", "").split("::")[-1] in ("push_back", "insert", "emplace_back", "assign", "emplace"):
                    o = strip(call_obj(n) or {})
                    if o.get("k") == "DeclRefExpr" and o["ref"]["did"] not in containers and any(expr_tainted(a) for a in call_args(n)):
                        containers[o["ref"]["did"]] = o["ref"]["name"]
                        changed = True
                elif k == "CallExpr" and n.get("callee") in ("std::copy", "std::move", "std::transform", "std::copy_n") and len(call_args(n)) >= 3:
                    a = call_args(n)
                    if expr_tainted(a[0]) or expr_tainted(a[1]):
                        for x in walk(a[-1]):
                            if x.get("k") == "DeclRefExpr" and x["ref"].get("dk") == "Var" and "vector" in x.get("t", "") and x["ref"]["did"] not in containers:
                                containers[x["ref"]["did"]] = x["ref"]["name"]
                                changed = True
                elif k == "BinaryOperator" and n.get("op") == "=" and expr_tainted(n["c"][1]):
                    l = strip(n["c"][0])
                    if l.get("k") == "DeclRefExpr" and re.search(r"int|long|short|unsigned", l.get("t", "")) and l["ref"]["did"] not in tainted:
                        tainted[l["ref"]["did"]] = l["ref"]["name"]
                        changed = True
            if not changed:
                break
        # sinks
        for n in walk(fn["body"]):
            k = n.get("k")
            sink = None
            if k == "CXXOperatorCallExpr" and n.get("op") == "[]" and n.get("callee", "").startswith("std::vector<"):
                cont, idx = n["c"][1], n["c"][2]
                sidx = strip(idx)
                cvar = strip(cont)
                if expr_tainted(idx):
                    sink = ("subscript %s" % short(n, 60), idx, cont)
                elif sidx.get("k") == "IntegerLiteral" and cvar.get("k") == "DeclRefExpr" and cvar["ref"]["did"] in containers:
                    sink = ("element %s of a file-derived record" % short(n, 60), None, cont)
            elif k == "CXXOperatorCallExpr" and n.get("op") in ("+", "+=") and "__normal_iterator" in n.get("t", "") and len(n.get("c", [])) == 3:
                if expr_tainted(n["c"][2]):
                    sink = ("iterator offset %s" % short(n, 70), n["c"][2], n["c"][1])
                elif strip(n["c"][1]).get("k") == "CXXOperatorCallExpr" and strip(n["c"][1]).get("op") == "+" and expr_tainted(strip(n["c"][1])["c"][2]):
                    # (begin + tainted) + constant: the outer position is what is dereferenced up to
                    sink = ("iterator offset %s" % short(n, 70), strip(n["c"][1])["c"][2], strip(n["c"][1])["c"][1])
            elif k == "CallExpr" and n.get("callee") in ("std::next", "std::advance") and len(call_args(n)) == 2:
                a = call_args(n)
                if expr_tainted(a[1]) and strip(a[1]).get("k") != "IntegerLiteral":
                    sink = ("%s" % short(n, 70), a[1], a[0])
            if not sink:
                continue
            what, idx, cont = sink
            names = set()
            if idx is not None:
                for x in walk(idx):
                    if x.get("k") == "DeclRefExpr" and x["ref"]["did"] in tainted:
                        names.add(x["ref"]["did"])
            cont_ids = {x["ref"]["did"] for x in walk(cont) if x.get("k") == "DeclRefExpr"}
            for d in list(cont_ids):
                cont_ids |= origin.get(d, set())
            # a sink that is itself part of a validating condition ('if(distance(begin, it+1+n) > size()) throw') is the check
            in_check = False
            for p_, slot_, ch_ in fi.ancestors(n):
                if p_.get("k") == "IfStmt" and slot_ == "cond":
                    from ..model import always_exits
                    if always_exits(p_["then"]):
                        in_check = True
                    break
            if in_check:
                rep.ok("C17.file-index", prog, fn, n, "%s: part of the validating condition itself" % what)
                continue
            cont_fields = {x["ref"].get("qn") for x in walk(cont) if x.get("k") == "MemberExpr"}
            ok = False
            wrap_note = ""
            from ..model import expand as _expand
            # variables that a dominating condition relates to the size of this container (aliases of the size through const locals
            # are looked through): an index compared with such a variable is bounded through it (one step of transitivity)
            anchored = set()
            glist = []
            for cond0, pol in fi.guards(n):
                cond = _expand(fn, cond0)
                from ..model import def_chain as _dc
                refs0 = {x["ref"]["did"] for d__ in _dc(fn, cond0, depth=4) for x in walk(d__) if x.get("k") == "DeclRefExpr"}      # through const locals
                anch = False
                for x in walk(cond):
                    if x.get("k") == "CXXMemberCallExpr" and x.get("callee", "").split("::")[-1] in ("size", "end", "cend", "empty"):
                        o = call_obj(x)
                        if o is not None:
                            oid = {y["ref"]["did"] for y in walk(o) if y.get("k") == "DeclRefExpr"}
                            of = {y["ref"].get("qn") for y in walk(o) if y.get("k") == "MemberExpr"}
                            if (oid & cont_ids) or (of & cont_fields and of):
                                anch = True
                glist.append((cond0, cond, pol, refs0, anch))
                if anch:
                    anchored |= refs0
            for cond0, cond, pol, refs0, anch in glist:
                if not anch and idx is not None and (names & refs0) and (refs0 & anchored) - names and not wraps_in_32bit(fn, cond0, tainted):
                    if any(x.get("k") == "BinaryOperator" and x.get("op") in ("<", "<=", "!=", ">", ">=") for x in walk(cond0)):
                        ok = True
            for cond, pol in ([] if ok else [(g[1], g[2]) for g in glist]):
                refs = {x["ref"]["did"] for x in walk(cond) if x.get("k") == "DeclRefExpr"} | {d for g in glist if g[1] is cond for d in g[3]}
                if wraps_in_32bit(fn, cond, tainted) or any(d in wrapped_locals(fn, tainted) for d in (names & refs)):
                    wrap_note = " (a condition relating it to the container size exists but computes with the file value in 32-bit arithmetic, which wraps for large values)"
                    continue
                mentions_idx = bool(names & refs) if idx is not None else True
                size_of_cont = False
                for x in walk(cond):
                    if x.get("k") == "CXXMemberCallExpr" and x.get("callee", "").split("::")[-1] in ("size", "end", "cend", "empty"):
                        o = call_obj(x)
                        if o is not None:
                            oid = {y["ref"]["did"] for y in walk(o) if y.get("k") == "DeclRefExpr"}
                            of = {y["ref"].get("qn") for y in walk(o) if y.get("k") == "MemberExpr"}
                            if (oid & cont_ids) or (of & cont_fields and of):
                                size_of_cont = True
                if mentions_idx and size_of_cont:
                    ok = True
                    break
            # a signed index must also be kept from being negative: either the bound comparison is carried out in unsigned
            # arithmetic (the index is converted to the size type) or a separate test excludes negative values
            if ok and idx is not None and names and _signed(strip(idx).get("t", "")):
                nonneg = False
                for cond, pol in fi.guards(n):
                    for x in walk(cond):
                        if x.get("k") == "BinaryOperator" and x.get("op") in ("<", "<=", ">", ">=", "==", "!="):
                            for side, other in ((x["c"][0], x["c"][1]), (x["c"][1], x["c"][0])):
                                if any(y.get("k") == "DeclRefExpr" and y["ref"]["did"] in names for y in walk(side)):
                                    if not _signed(side.get("t", "")) or not _signed(other.get("t", "")) and "unsigned" in other.get("t", ""):
                                        nonneg = True
                                    o = strip(other)
                                    if o.get("k") == "IntegerLiteral" and str(o.get("v")) == "0" and x["op"] in ("<", ">=", ">", "<="):
                                        nonneg = True
                if not nonneg:
                    nonneg = all(_nonneg_by_definitions(prog, fn, fi, d_, 0) for d_ in names)
                if not nonneg:
                    rep.violation("C17.file-index", prog, fn, n, "negative %s not excluded" % re.sub(r"#\d+", "", what),
                                  "%s: the index (%s, signed) is compared with the container size in signed arithmetic and no test excludes negative values: a negative id parsed from the input file passes the check and reads before the start of the container" % (what, ", ".join(sorted(tainted[d] for d in names))))
                    continue
            if ok and k != "CXXOperatorCallExpr" or (ok and n.get("op") != "[]"):
                lin = None
                try:
                    lin = _linear_bound_check(prog, fn, fi, n, cont)
                except _NoLinear:
                    lin = None
                if lin is not None and not lin[0]:
                    rep.violation("C17.file-index", prog, fn, n, "bound check too weak for %s" % re.sub(r"#\d+", "", what),
                                  "%s: the dominating check relates the file value to the container size but does not imply that the position reached stays within the container (%s, must be <= 0): a record that declares one element too many reads past the end instead of raising mesh_reader_exception" % (what, lin[1]))
                    continue
                if lin is not None:
                    what = what + " [linear: %s]" % lin[1]
            if ok:
                rep.ok("C17.file-index", prog, fn, n, "%s: dominated by a bound check on the same container" % what)
            else:
                rep.violation("C17.file-index", prog, fn, n, "unchecked %s" % re.sub(r"#\d+", "", what),
                              "%s uses a value parsed from the input mesh file (%s) and no dominating condition relates it to the size of the indexed container: a face list that references non-existent points / an empty record reads out of bounds instead of raising mesh_reader_exception"
                              % (what, (", ".join(sorted(tainted[d] for d in names)) or "record may be empty") + wrap_note))


def _nonneg_by_definitions(prog, fn, fi, did, depth):
    """A signed index variable cannot be negative if every value it is ever given is: a non-negative literal; a non-negative
    variable plus a non-negative literal (or ++); or a value that a dominating, exiting check compares with a size in UNSIGNED
    arithmetic (a negative value converts to a huge one and is rejected by that very check)."""
    if depth > 3:
        return False
    defs = []
    for n in walk(fn["body"]):
        if n.get("k") == "Var" and n.get("did") == did and isinstance(n.get("init"), dict):
            defs.append((n, n["init"]))
        elif n.get("k") == "BinaryOperator" and n.get("op") == "=" and strip(n["c"][0]).get("k") == "DeclRefExpr" and strip(n["c"][0])["ref"].get("did") == did:
            defs.append((n, n["c"][1]))
        elif n.get("k") == "CompoundAssignOperator" and strip(n["c"][0]).get("k") == "DeclRefExpr" and strip(n["c"][0])["ref"].get("did") == did:
            if n.get("op") != "+=":
                return False
            defs.append((n, n["c"][1]))
        elif n.get("k") == "UnaryOperator" and "--" in n.get("op", "") and strip(n["c"][0]).get("k") == "DeclRefExpr" and strip(n["c"][0])["ref"].get("did") == did:
            return False
    if not defs:
        return False

    def nn(e, site):
        e = strip(e)
        k = e.get("k")
        if k == "IntegerLiteral":
            return int(e.get("v", "-1")) >= 0
        if k in ("CXXStaticCastExpr", "CStyleCastExpr", "CXXFunctionalCastExpr", "ParenExpr") and e.get("c"):
            if "unsigned" in (strip(e["c"][0]).get("t") or "") or "size_t" in (strip(e["c"][0]).get("t") or ""):
                return True
            return nn(e["c"][0], site)
        if k == "CXXMemberCallExpr" and e.get("callee", "").split("::")[-1] in ("size", "length"):
            return True
        if "unsigned" in (e.get("t") or ""):
            return True
        if k == "BinaryOperator" and e.get("op") == "+":
            return nn(e["c"][0], site) and nn(e["c"][1], site)
        if k == "DeclRefExpr" and e["ref"].get("dk") == "Var":
            v = e["ref"]["did"]
            # validated in unsigned arithmetic by a dominating exiting check?
            for cond, pol in fi.guards(site):
                for x in walk(cond):
                    if x.get("k") == "BinaryOperator" and x.get("op") in ("<", "<=", ">", ">="):
                        for side, other in ((x["c"][0], x["c"][1]), (x["c"][1], x["c"][0])):
                            if any(y.get("k") == "DeclRefExpr" and y["ref"].get("did") == v for y in walk(side)) and ("unsigned" in (side.get("t") or "") or "size_t" in (side.get("t") or "") or "unsigned" in (strip(side).get("t") or "")):
                                return True
            return v == did or _nonneg_by_definitions(prog, fn, fi, v, depth + 1)
        return False
    return all(nn(e, site) for site, e in defs)


PARSE_CALLS = ("std::stoi", "std::stol", "std::stoll", "std::stoul", "std::stoull", "std::stod", "std::stof", "atoi", "std::atoi", "atol", "std::atol", "strtol", "std::strtol", "strtoul", "std::strtoul")


def input_driven_loops(rep, prog):
    from ..model import def_chain
    rule = "C17.input-driven-loops"
    for fn in product_fns(prog):
        if fn.get("cls") not in ("mesh_reader", "parameter_reader", "simulation_initializer") or not isinstance(fn.get("body"), dict):
            continue
        fi = prog.index(fn)
        # variables filled by stream extraction: their value is whatever the file says
        extracted = set()
        for x in walk(fn["body"]):
            if x.get("k") == "CXXOperatorCallExpr" and x.get("op") == ">>" and len(x.get("c", [])) >= 3:
                t = strip(x["c"][2])
                if t.get("k") == "DeclRefExpr":
                    extracted.add(t["ref"].get("did"))
        for l in walk(fn["body"]):
            if l.get("k") not in ("ForStmt", "WhileStmt", "DoStmt"):
                continue
            body = l.get("body") or {}
            grows = [x for x in walk(body) if x.get("k") == "CXXMemberCallExpr" and x.get("callee", "").split("::")[-1] in ("push_back", "emplace_back", "insert", "resize") and "std::" in x.get("callee", "")]
            writes = []
            for x in walk(body):
                if x.get("k") in ("BinaryOperator", "CompoundAssignOperator", "CXXOperatorCallExpr") and (x.get("op") == "=" or x.get("k") == "CompoundAssignOperator"):
                    lhs = strip(x["c"][0] if x["k"] != "CXXOperatorCallExpr" else x["c"][1]) if x.get("c") else {}
                    if lhs.get("k") == "CXXOperatorCallExpr" and lhs.get("op") == "[]" and "std::vector" in (lhs.get("callee") or ""):
                        writes.append((x, lhs))
            if not grows and not writes:
                continue
            cond = l.get("cond") or {}
            announced = None
            for d_ in def_chain(fn, cond, depth=6):
                for y in walk(d_):
                    if y.get("k") == "CallExpr" and y.get("callee") in PARSE_CALLS:
                        announced = announced or ("%s at line %s" % (y["callee"], y.get("l")))
                    if y.get("k") == "DeclRefExpr" and y["ref"].get("did") in extracted:
                        announced = announced or ("'%s', read from the file with operator>>" % y["ref"]["name"])
            exits = [x for x in walk(body, into_lambdas=False) if x.get("k") in ("BreakStmt", "ReturnStmt", "CXXThrowExpr") and fi.enclosing(x, ("IfStmt",)) is not None and any(p_ is l for p_, _s, _c in fi.ancestors(x))]
            bad = None
            if announced and grows and not exits:
                bad = ("loop runs a number of times announced by the file", "%s: the loop '%s' runs as many times as %s says and %s in every pass, without leaving the loop when the input is exhausted: a few bytes announcing a huge count make the "
                       "reader iterate and allocate in proportion to that number, not to the size of the file" % (fn["qn"], short(cond, 50), announced, short(grows[0], 40)))
            for w, lhs in writes:
                idx = strip(lhs["c"][2])
                running = [y for y in walk(idx) if y.get("k") == "UnaryOperator" and ("++" in y.get("op", "") or "--" in y.get("op", ""))]
                ivars = {y["ref"].get("did"): y["ref"]["name"] for y in walk(idx) if y.get("k") == "DeclRefExpr" and y["ref"].get("dk") == "Var"}
                # the loop's own induction variable compared with the container's size in the loop condition is a bound
                bounded = False
                vec_txt = render(lhs["c"][1]).replace(" ", "")
                for c_, pol in [(cond, True)] + list(fi.guards(w)):
                    if pol:
                        for y in walk(c_):
                            if y.get("k") == "BinaryOperator" and y.get("op") in ("<", "<=", "!=", ">", ">="):
                                t_ = render(y).replace(" ", "")
                                if any(nm.split("#")[0] in t_ for nm in ivars.values()) and (vec_txt + ".size()" in t_ or any(vec_txt in render(d2).replace(" ", "") for d2 in def_chain(fn, y, depth=4) if d2 is not y)):
                                    bounded = True
                if (running or ivars) and not bounded and announced is None and not any(render(strip(cond)).startswith(("(" + nm.split("#")[0], nm.split("#")[0])) for nm in ivars.values()):
                    bad = bad or ("subscript write with an unbounded running index", "%s: %s writes element %s of a vector inside the loop '%s', whose number of passes is decided by the file content, and nothing compares the index with the size of the vector: "
                                  "a file with more values than announced writes past the end of the buffer" % (fn["qn"], short(w, 60), short(idx, 30), short(cond, 50)))
                elif (running or ivars) and not bounded and announced is not None:
                    bad = bad or ("subscript write bounded only by a count announced by the file", "%s: %s inside a loop bounded by %s" % (fn["qn"], short(w, 60), announced))
            if bad:
                rep.violation(rule, prog, fn, l, bad[0], bad[1])
            else:
                rep.ok(rule, prog, fn, l, "loop '%s': %s" % (short(cond, 50), "advances by consuming the input / fixed bound" if not announced else "bounded by an announced count but leaves on exhausted input"))
