"""C18 - every XML parameter reaches the simulation with its value and meaning intact (binding tables, E5)."""
import re

from ..model import walk, strip, is_call, call_obj, call_args, render, short, always_exits, AnalysisBroken, def_chain
from .c10 import product_fns

EXPLANATION = ("Binding-table extraction (E5): for each of the three reader functions the table (XML tag, lower-casing, presence test, "
               "conversion, INF handling, assigned field, validations) is extracted from the AST by dataflow (string literal -> "
               "get_string_value -> optional local -> has_value test -> conversion -> field) and compared row by row with a reference "
               "frozen from doc/parameter_file_doc.md and the struct definitions; plus internal rules: the optional is tested (and the "
               "function throws) before .value() is used; every validation that follows an assignment tests the field just assigned; "
               "the two documented INF tags are lower-cased and mapped to infinity; cell types and face types are appended in document "
               "order (sibling iteration + push_back). Consumer wiring: each numerical parameter and each biomechanical field is read at "
               "the site that the frozen consumer table names (time step -> integrator and growth, duration -> run loop, sampling period "
               "-> save_mesh, edge length -> refiner/divider/contact grid, swap flag -> refiner, densities/moduli/tensions -> the force "
               "routines of the matching kind). Not decided: numeric parsing of arbitrary magnitudes by std::stod.")
ASSUMPTIONS = ["the reference tables in this checker are frozen from the documentation; rows added to the reader are tolerated, reference rows must match"]

READERS = {
    "parameter_reader::read_numerical_parameters": {
        # tag: (field, conversion, inf, lower, validations[(op, rhs)])
        "input_mesh_file_path": ("input_mesh_path_", None, False, False, []),
        "output_mesh_folder_path": ("output_folder_path_", None, False, False, []),
        "damping_coefficient": ("damping_coefficient_", "std::stod", False, False, [("<", "0")]),
        "perform_initial_triangulation": ("perform_initial_triangulation_", "std::stoi", False, False, []),
        "simulation_duration": ("simulation_duration_", "std::stod", False, False, [("<=", "0")]),
        "time_step": ("time_step_", "std::stod", False, False, [("<=", "0")]),
        "sampling_period": ("sampling_period_", "std::stod", False, False, [("<=", "0"), ("<", "time_step_")]),
        "min_edge_length": ("min_edge_len_", "std::stod", False, False, [("<=", "0")]),
        "contact_cutoff_adhesion": ("contact_cutoff_adhesion_", "std::stod", False, False, [("<=", "0")]),
        "contact_cutoff_repulsion": ("contact_cutoff_repulsion_", "std::stod", False, False, [("<=", "0")]),
        "enable_edge_swap_operation": ("enable_edge_swap_operation_", "std::stoi", False, False, []),
    },
    "parameter_reader::read_cell_type_parameters": {
        "cell_type_name": ("name_", None, False, False, []),
        "global_cell_id": ("global_type_id_", "std::stoi", False, False, []),
        "cell_mass_density": ("mass_density_", "std::stod", False, False, []),
        "cell_bulk_modulus": ("bulk_modulus_", "std::stod", False, False, []),
        "max_inner_pressure": ("max_pressure_", "std::stod", True, True, []),
        "area_elasticity_modulus": ("area_elasticity_modulus_", "std::stod", False, False, []),
        "avg_division_volume": ("avg_division_vol_", "std::stod", True, True, []),
        "std_division_volume": ("std_division_vol_", "std::stod", False, False, []),
        "avg_growth_rate": ("avg_growth_rate_", "std::stod", False, False, []),
        "std_growth_rate": ("std_growth_rate_", "std::stod", False, False, []),
        "target_isoperimetric_ratio": ("target_isoperimetric_ratio_", "std::stod", False, False, [("<=", "0")]),
        "angle_regularization_factor": ("angle_regularization_factor_", "std::stod", False, False, []),
        "min_vol": ("min_vol_", "std::stod", False, False, []),
        "surface_coupling_max_curvature": ("surface_coupling_max_curvature_", "std::stod", False, False, [("<=", "0")]),
    },
    "parameter_reader::read_face_type_parameters": {
        "face_type_name": ("name_", None, False, False, []),
        "global_face_id": ("face_type_global_id_", "std::stoi", False, False, [("<", "0")]),
        "surface_tension": ("surface_tension_", "std::stod", False, False, [("<", "0")]),
        "adherence_strength": ("adherence_strength_", "std::stod", False, False, [("<", "0")]),
        "repulsion_strength": ("repulsion_strength_", "std::stod", False, False, [("<", "0")]),
        "bending_modulus": ("bending_modulus_", "std::stod", False, False, [("<", "0")]),
    },
}

# field -> functions that must read it (consumer table, frozen from reading the code and the docs)
CONSUMERS = {
    "global_simulation_parameters::time_step_": ["time_integration_scheme::time_integration_scheme", "solver::run_iteration"],
    "global_simulation_parameters::damping_coefficient_": ["time_integration_scheme::time_integration_scheme"],
    "global_simulation_parameters::simulation_duration_": ["solver::run"],
    "global_simulation_parameters::sampling_period_": ["solver::save_mesh"],
    "global_simulation_parameters::min_edge_len_": ["solver::solver", "solver::run_iteration", "contact_model_abstract::contact_model_abstract", "simulation_initializer::triangulate_surface"],
    "global_simulation_parameters::contact_cutoff_adhesion_": ["contact_model_abstract::contact_model_abstract"],
    "global_simulation_parameters::contact_cutoff_repulsion_": ["contact_model_abstract::contact_model_abstract"],
    "global_simulation_parameters::enable_edge_swap_operation_": ["solver::solver"],
    "global_simulation_parameters::perform_initial_triangulation_": ["simulation_initializer::simulation_initializer"],
    "global_simulation_parameters::input_mesh_path_": ["simulation_initializer::run"],
    "global_simulation_parameters::output_folder_path_": ["solver::solver"],
    "cell_type_parameters::mass_density_": ["cell::get_mass"],
    "cell_type_parameters::bulk_modulus_": ["cell::update_pressure", "solver::solver"],
    "cell_type_parameters::max_pressure_": ["cell::update_pressure"],
    "cell_type_parameters::area_elasticity_modulus_": ["cell::apply_surface_tension_and_membrane_elasticity"],
    "cell_type_parameters::avg_division_vol_": ["cell::initialize_random_properties"],
    "cell_type_parameters::std_division_vol_": ["cell::initialize_random_properties"],
    "cell_type_parameters::avg_growth_rate_": ["cell::initialize_random_properties"],
    "cell_type_parameters::std_growth_rate_": ["cell::initialize_random_properties"],
    "cell_type_parameters::target_isoperimetric_ratio_": ["cell::apply_surface_tension_and_membrane_elasticity"],
    "cell_type_parameters::angle_regularization_factor_": ["cell::regularize_face_angles"],
    "cell_type_parameters::min_vol_": ["cell::update_target_volume", "cell::is_below_min_vol"],
    "cell_type_parameters::global_type_id_": ["cell::get_cell_type_id", "simulation_initializer::triangulate_surface"],
    "face_type_parameters::surface_tension_": ["cell::apply_surface_tension_and_membrane_elasticity"],
    "face_type_parameters::bending_modulus_": ["cell::apply_bending_forces"],
}


def declare(rep):
    rep.rule("C18.binding-table", "each XML tag is presence-tested, converted and stored in the field of that name (reference table)", floor=31)
    rep.rule("C18.validation-field", "every sign validation tests the field that was just assigned, with the documented comparison", floor=12)
    rep.rule("C18.order-preserved", "cell types and face types are appended in document order", floor=2)
    rep.rule("C18.type-binding", "a mesh cell whose cell_type_id is k is built with the k-th cell type of the parameter file (positional binding, the convention of doc/parameter_file_doc.md and of the reader's order-preserving lists): simulation_initializer::run hands triangulate_surface cell_type_param_lst[cell_type_id]", floor=1)
    rep.rule("C18.wiring-order", "a constructor does not initialise a member from another member that only receives its value later in the same constructor (mem-initializer evaluated before the body assigns the source): the copy would hold the source's default, not the value read from the parameter file", floor=3)
    rep.rule("C18.consumers", "each parameter field is read at the site(s) named by the frozen consumer table", floor=25)
    rep.rule("C18.contact-strengths", "the repulsive contact block reads repulsion_strength_, the adhesive one adherence_strength_", floor=1)


def _wrappers(fn):
    """local lambdas that wrap 'get_string_value(section, <param>) + presence test + throw + return value':
    did of the lambda variable -> lower-casing flag"""
    out = {}
    for d in walk(fn["body"]):
        if d.get("k") != "Var" or not isinstance(d.get("init"), dict):
            continue
        lam = strip(d["init"])
        if lam.get("k") != "LambdaExpr" or not lam.get("params"):
            continue
        body = lam.get("body") or {}
        pdids = {p_.get("did") for p_ in lam["params"]}
        gs = [n for n in walk(body) if is_call(n) and n.get("callee") == "parameter_reader::get_string_value"]
        if len(gs) != 1:
            continue
        a = call_args(gs[0])
        if not any(x.get("k") == "DeclRefExpr" and x["ref"].get("did") in pdids for x in walk(a[1])):
            continue
        presence = False
        for s_ in walk(body):
            if s_.get("k") == "IfStmt":
                c = strip(s_["cond"])
                if c.get("k") == "UnaryOperator" and c.get("op") == "!" and "has_value" in render(c) and always_exits(s_["then"]) and any(x.get("k") == "CXXThrowExpr" for x in walk(s_["then"])):
                    presence = True
        rets = [r for r in walk(body) if r.get("k") == "ReturnStmt"]
        returns_value = bool(rets) and all(".value()" in render(r.get("value") or {}).replace(" ", "") for r in rets)
        if presence and returns_value:
            lower = False
            if len(a) > 2:
                v = strip(a[2])
                if v.get("k") == "CXXDefaultArgExpr":
                    v = strip(v.get("default_arg", {}))
                lower = bool(v.get("v")) if v.get("k") == "CXXBoolLiteralExpr" else None
            out[d.get("did")] = lower
    return out


def _lower_flag(a):
    if len(a) > 2:
        v = strip(a[2])
        if v.get("k") == "CXXDefaultArgExpr":
            v = strip(v.get("default_arg", {}))
        return bool(v.get("v")) if v.get("k") == "CXXBoolLiteralExpr" else None
    return False


def _tag_of(fn, e):
    from ..model import expand
    lits = [x.get("v") for x in walk(expand(fn, e)) if x.get("k") == "StringLiteral"]
    if len(lits) != 1:
        raise AnalysisBroken("%s: the tag handed to get_string_value (%s) is not a string literal: table-driven reader, the tag -> field binding is not decided" % (fn["qn"], short(e, 50)))
    return lits[0]


def _presence_fact(cond, pol, did):
    """does (cond, pol) establish that optional local `did` holds a value?  None if the condition is not about it"""
    c = strip(cond)
    while True:
        if c.get("k") == "ParenExpr" and c.get("c"):
            c = strip(c["c"][0])
            continue
        if c.get("k") == "UnaryOperator" and c.get("op") == "!":
            pol = not pol
            c = strip(c["c"][0])
            continue
        break
    if c.get("k") == "BinaryOperator" and c.get("op") in ("==", "!="):
        l, r = strip(c["c"][0]), strip(c["c"][1])
        for x, y in ((l, r), (r, l)):
            if y.get("k") == "CXXBoolLiteralExpr":
                sub = _presence_fact(x, pol if (bool(y.get("v")) == (c["op"] == "==")) else not pol, did)
                if sub is not None:
                    return sub
        return None
    if c.get("k") == "CXXMemberCallExpr" and (c.get("callee", "").endswith("::has_value") or c.get("callee", "").endswith("operator bool")):
        o = call_obj(c)
        o = strip(o) if isinstance(o, dict) else {}
        if o.get("k") == "DeclRefExpr" and o["ref"].get("did") == did:
            return pol
    return None


def _value_uses(fn, did):
    """nodes that read the contained value of optional local `did`"""
    out = []
    for n in walk(fn["body"]):
        k = n.get("k")
        if k == "CXXMemberCallExpr" and n.get("callee", "").endswith("::value"):
            o = call_obj(n)
            o = strip(o) if isinstance(o, dict) else {}
            if o.get("k") == "DeclRefExpr" and o["ref"].get("did") == did:
                out.append(n)
        elif k == "CXXOperatorCallExpr" and n.get("op") in ("*", "->") and len(n.get("c", [])) >= 2:
            o = strip(n["c"][1])
            if o.get("k") == "DeclRefExpr" and o["ref"].get("did") == did:
                out.append(n)
    return out


def _field_name(fn, e, assigned_from_local):
    """the field an operand designates: a member access, a reference local bound to one, a value local initialised from one, or a
    local whose value was stored in exactly one field"""
    e = strip(e)
    while e.get("k") == "ParenExpr" and e.get("c"):
        e = strip(e["c"][0])
    if e.get("k") == "MemberExpr" and (e.get("ref") or {}).get("dk") == "Field":
        return e["ref"]["name"]
    if e.get("k") == "DeclRefExpr" and (e.get("ref") or {}).get("dk") == "Var":
        did = e["ref"]["did"]
        from ..model import stable_locals
        st = dict(stable_locals(fn))
        if did not in st:
            # a reference local is bound once: assigning to it writes the object it designates
            for v in walk(fn["body"]):
                if v.get("k") == "Var" and v.get("did") == did and (v.get("t") or "").rstrip().endswith("&") and isinstance(v.get("init"), dict):
                    st[did] = v["init"]
        if did in st:
            i = strip(st[did])
            while i.get("k") == "ParenExpr" and i.get("c"):
                i = strip(i["c"][0])
            if i.get("k") == "MemberExpr" and (i.get("ref") or {}).get("dk") == "Field":
                return i["ref"]["name"]
        fs = assigned_from_local.get(did, set())
        if len(fs) == 1:
            return next(iter(fs))
    return None


def _on_stable_local(fn, cond, field, afl):
    """the condition mentions `field` through a local that is initialised once and never written again, and stored in that field"""
    from ..model import stable_locals
    st = stable_locals(fn)
    for x in walk(cond):
        if x.get("k") == "DeclRefExpr" and (x.get("ref") or {}).get("dk") == "Var" and x["ref"].get("did") in st and afl.get(x["ref"]["did"]) == {field}:
            return True
    return False


def _operand(fn, e, afl):
    f = _field_name(fn, e, afl)
    if f is not None:
        return f
    e = strip(e)
    if e.get("k") in ("IntegerLiteral", "FloatingLiteral") and float(e["v"]) == int(float(e["v"])):
        return str(int(float(e["v"])))
    return render(e)


_FLIP = {"<": ">", "<=": ">=", ">": "<", ">=": "<=", "==": "==", "!=": "!="}


def _conversions(prog, fn, chain):
    """std::sto* conversions and INF handling on the value path (looking one level into repository helpers that were not inlined)"""
    conv, text = [], []
    seen = set()
    repo_keys = {g["key"] for g in prog.repo_functions()}

    def visit(nodes, depth):
        for e in nodes:
            text.append(render(e))
            for x in walk(e):
                if x.get("k") == "StringLiteral":
                    text.append('"%s"' % x.get("v"))
                if is_call(x) and "infinity" in x.get("callee", ""):
                    text.append("infinity")
                if is_call(x):
                    c = x.get("callee", "")
                    if c.startswith("std::sto"):
                        conv.append(c)
                    elif depth < 2 and c not in seen:
                        seen.add(c)
                        for g in prog.by_qn.get(c, []):
                            if isinstance(g.get("body"), dict) and g["key"] in repo_keys:
                                visit([g["body"]], depth + 1)
    visit(chain, 0)
    t = " ".join(text)
    return sorted(set(conv)), ("infinity" in t and '"inf"' in t)


def extract_table(prog, fn):
    """value-flow extraction: every read of a tag (string literal -> get_string_value), the optional local holding it, the presence
    test that guards the uses of its value, the field(s) the value flows into (through locals, def_chain), the conversions on that
    path and the throwing comparisons on the field.  Independent of statement order and nesting."""
    fi = prog.index(fn)
    wrappers = _wrappers(fn)
    reads = []
    for n in walk(fn["body"]):
        if fi.in_lambda(n) is not None:
            continue
        if n.get("k") == "CXXOperatorCallExpr" and n.get("op") == "()" and len(n.get("c", [])) >= 3 and strip(n["c"][1]).get("k") == "DeclRefExpr" and strip(n["c"][1])["ref"].get("did") in wrappers:
            reads.append({"tag": _tag_of(fn, n["c"][2]), "lower": wrappers[strip(n["c"][1])["ref"]["did"]], "node": n, "wrapper": True})
        elif is_call(n) and n.get("callee") == "parameter_reader::get_string_value":
            a = call_args(n)
            reads.append({"tag": _tag_of(fn, a[1]), "lower": _lower_flag(a), "node": n, "wrapper": False})
    # the local that holds each read
    holders = {}
    for v in walk(fn["body"]):
        if v.get("k") == "Var" and isinstance(v.get("init"), dict):
            for r in reads:
                if any(x is r["node"] for x in walk(v["init"])):
                    holders[id(r["node"])] = v
    # field assignments
    assigns = []
    afl = {}
    for a in walk(fn["body"]):
        if a.get("k") in ("BinaryOperator", "CXXOperatorCallExpr") and a.get("op") == "=":
            lhs = a["c"][0] if a["k"] == "BinaryOperator" else a["c"][1]
            rhs = a["c"][1] if a["k"] == "BinaryOperator" else a["c"][2]
            f = _field_name(fn, lhs, {})
            if f is None:
                continue
            chain = list(def_chain(fn, rhs, depth=6))
            assigns.append((f, a, rhs, chain))
            r0 = strip(rhs)
            if r0.get("k") == "DeclRefExpr" and (r0.get("ref") or {}).get("dk") == "Var":
                afl.setdefault(r0["ref"]["did"], set()).add(f)
    # throwing comparisons
    valids = []
    unknown_valid = []
    weakened = []
    for s_ in walk(fn["body"]):
        if s_.get("k") != "IfStmt" or fi.in_lambda(s_) is not None:
            continue
        if not (always_exits(s_["then"]) and any(x.get("k") == "CXXThrowExpr" for x in walk(s_["then"]))):
            continue
        c = strip(s_["cond"])
        if "has_value" in render(c):
            continue
        disj = []
        todo = [c]
        while todo:
            x = strip(todo.pop())
            while x.get("k") == "ParenExpr" and x.get("c"):
                x = strip(x["c"][0])
            if x.get("k") == "BinaryOperator" and x.get("op") == "||":
                todo.extend(x["c"])
            else:
                disj.append(x)
        for x in disj:
            if x.get("k") == "BinaryOperator" and x.get("op") in _FLIP:
                l, r = _operand(fn, x["c"][0], afl), _operand(fn, x["c"][1], afl)
                valids.append((l, x["op"], r, s_))
                valids.append((r, _FLIP[x["op"]], l, s_))
            elif x.get("k") == "BinaryOperator" and x.get("op") == "&&":
                # the exception is thrown only when ALL conjuncts hold: each comparison among them is a validation that another
                # condition switches off
                conj, todo2 = [], [x]
                while todo2:
                    y = strip(todo2.pop())
                    while y.get("k") == "ParenExpr" and y.get("c"):
                        y = strip(y["c"][0])
                    if y.get("k") == "BinaryOperator" and y.get("op") == "&&":
                        todo2.extend(y["c"])
                    else:
                        conj.append(y)
                for y in conj:
                    if y.get("k") == "BinaryOperator" and y.get("op") in _FLIP:
                        l, r = _operand(fn, y["c"][0], afl), _operand(fn, y["c"][1], afl)
                        others = [z for z in conj if z is not y]
                        weakened.append((l, y["op"], r, s_, others))
                        weakened.append((r, _FLIP[y["op"]], l, s_, others))
                unknown_valid.append((x, s_))
            else:
                unknown_valid.append((x, s_))
    rows = []
    for r in reads:
        row = {"tag": r["tag"], "lower": r["lower"], "node": r["node"], "assign": [], "valid": [], "value_before_presence": False, "unknown_valid": []}
        h = holders.get(id(r["node"]))
        row["var"] = h.get("did") if h else None
        for (f, a, rhs, chain) in assigns:
            flows = any(x is r["node"] for e in chain for x in walk(e)) or (h is not None and any(x.get("k") == "DeclRefExpr" and (x.get("ref") or {}).get("did") == h.get("did") for e in chain for x in walk(e)))
            if flows:
                conv, inf = _conversions(prog, fn, chain)
                if not inf:
                    # the INF case written as a branch: this assignment runs when the text is not "inf", and the same field gets
                    # infinity where it is
                    from ..model import facts_at
                    guarded = any('"inf"' in render(at_) for at_, _t in facts_at(fn, fi, a))
                    other_inf = any(f2 == f and a2 is not a and "infinity" in render(rhs2) for (f2, a2, rhs2, _c2) in assigns)
                    inf = guarded and other_inf
                row["assign"].append((f, conv[0] if len(conv) == 1 else (None if not conv else "+".join(conv)), inf, a))
        if r["wrapper"]:
            row["presence"] = True
        elif h is None:
            row["presence"] = None
        else:
            did = h.get("did")
            uses = _value_uses(fn, did)
            unguarded = [u for u in uses if not any(_presence_fact(c_, p_, did) is True for (c_, p_) in fi.guards(u))]
            row["value_before_presence"] = bool(unguarded)
            mandatory = False
            for s_ in walk(fn["body"]):
                if s_.get("k") != "IfStmt":
                    continue
                pf = _presence_fact(s_["cond"], True, did)
                if pf is None:
                    continue
                absent = s_.get("else") if pf else s_["then"]
                if isinstance(absent, dict) and always_exits(absent) and any(x.get("k") == "CXXThrowExpr" for x in walk(absent)):
                    mandatory = True
            row["presence"] = mandatory and bool(uses) and not unguarded
        fields = {f for (f, _, _, _) in row["assign"]}
        first_assign = min([fi.order[id(a)] for (_, _, _, a) in row["assign"]], default=None)
        for (l, op, rr, s_) in valids:
            # the check is made on the field after it was filled, or on the constant local whose value is then stored in the field
            if l in fields and first_assign is not None and (fi.order[id(s_)] > first_assign or _on_stable_local(fn, s_["cond"], l, afl)):
                row["valid"].append((l, op, rr, True, s_))
        for (x, s_) in unknown_valid:
            names = {_field_name(fn, y, afl) for y in walk(x)}
            if names & fields:
                row["unknown_valid"].append(s_)
        row["weakened"] = [(l, op, rr, s_, others) for (l, op, rr, s_, others) in weakened if l in fields]
        rows.append(row)
    return rows


def run(rep, prog, tier):
    if not rep.rules:
        declare(rep)
    for qn, ref in READERS.items():
        fn = prog.fn(qn)
        rows = {r["tag"]: r for r in extract_table(prog, fn)}
        for tag, (field, conv, inf, lower, valids) in ref.items():
            r = rows.get(tag)
            if r is None:
                rep.violation("C18.binding-table", prog, fn, None, "tag <%s> is not read" % tag, "%s no longer reads the XML tag <%s>: the parameter silently keeps its default" % (qn, tag))
                continue
            problems = []
            if r["presence"] is not True:
                problems.append("no 'if(!opt.has_value()) throw' before use")
            if r["value_before_presence"]:
                problems.append(".value() used before the presence test")
            if len(r["assign"]) != 1:
                problems.append("%d fields assigned from this tag (%s)" % (len(r["assign"]), [a[0] for a in r["assign"]]))
            else:
                f, c, i, node = r["assign"][0]
                if f != field:
                    problems.append("stored in %s, expected %s" % (f, field))
                if c != conv:
                    problems.append("converted with %s, expected %s" % (c, conv))
                if i != inf:
                    problems.append("INF handling %s, expected %s" % (i, inf))
            if bool(r["lower"]) != lower:
                problems.append("lower-casing %s, expected %s" % (r["lower"], lower))
            if not problems:
                rep.ok("C18.binding-table", prog, fn, r["node"], "<%s> -> presence test -> %s -> %s%s" % (tag, conv or "string", field, " (INF -> infinity)" if inf else ""))
            else:
                rep.violation("C18.binding-table", prog, fn, r["node"], "tag <%s>: %s" % (tag, problems[0][:60]), "<%s> in %s: %s" % (tag, qn, "; ".join(problems)))
            # validations
            got = [(lf, op, rf) for (lf, op, rf, throws, s) in r["valid"] if throws]
            # a sign check on a field of unsigned type can never fire: negative input wraps around and is accepted
            for (lf, op, rf, throws, s_) in r["valid"]:
                if throws and lf == field and rf == "0" and op in ("<", "<="):
                    ft = [x.get("t") for x in walk(s_["cond"]) if x.get("k") == "MemberExpr" and (x.get("ref") or {}).get("name") == field]
                    if ft and re.match(r"^(const )?unsigned\b", ft[0] or ""):
                        got = [g_ for g_ in got if g_ != (lf, op, rf)] if op == "<" else got
                        rep.violation("C18.validation-field", prog, fn, s_, "<%s>: sign check on the unsigned field %s" % (tag, field),
                                      "the field %s that receives <%s> has type %s: the check '%s %s 0' can never %s, a negative value in the file wraps around (e.g. -1 -> 65535) and is accepted" % (field, tag, ft[0], field, op, "be true" if op == "<" else "detect a negative value"))
            for (op, rhs) in valids:
                if (field, op, rhs) in got:
                    rep.ok("C18.validation-field", prog, fn, r["node"], "<%s>: rejects %s %s %s" % (tag, field, op, rhs))
                elif any((l_, op_, r_) == (field, op, rhs) for (l_, op_, r_, _s, _o) in r.get("weakened", [])):
                    w_ = [x_ for x_ in r["weakened"] if (x_[0], x_[1], x_[2]) == (field, op, rhs)][0]
                    rep.violation("C18.validation-field", prog, fn, w_[3], "<%s>: the check %s %s %s only applies under another condition" % (tag, field, op, rhs),
                                  "after reading <%s> the reader must throw whenever %s %s %s; here the exception is thrown only if in addition %s holds, so an out-of-range value is accepted whenever that other condition is false" % (tag, field, op, rhs, " and ".join("'%s'" % short(o_, 50) for o_ in w_[4])))
                elif r.get("unknown_valid"):
                    raise AnalysisBroken("%s: the check on %s after reading <%s> has a form that is not decided (%s)" % (qn, field, tag, short(r["unknown_valid"][0]["cond"], 60)))
                else:
                    rep.violation("C18.validation-field", prog, fn, r["node"], "<%s>: missing validation %s %s %s" % (tag, field, op, rhs),
                                  "after reading <%s> the reader must throw when %s %s %s; found validations %s" % (tag, field, op, rhs, sorted(set(got))))
    order_preserved(rep, prog)
    type_binding(rep, prog)
    wiring_order(rep, prog)
    consumers(rep, prog)
    contact_strengths(rep, prog)


def order_preserved(rep, prog):
    fn = prog.fn("parameter_reader::read_biomechanical_parameters")
    fi = prog.index(fn)
    loops = [n for n in walk(fn["body"]) if n.get("k") in ("ForStmt", "WhileStmt")]
    found = {"cell": False, "face": False}
    wrong = {"cell": None, "face": None}
    def is_sibling_loop(l):
        if l is None or l.get("k") not in ("ForStmt", "WhileStmt"):
            return False
        txt = render(l.get("inc") or {}) + " " + " ".join(render(x) for x in walk(l["body"]) if x.get("k") in ("BinaryOperator", "CXXOperatorCallExpr") and x.get("op") == "=")
        return "NextSiblingElement" in txt
    for x in walk(fn["body"]):
        if x.get("k") == "CXXMemberCallExpr" and x.get("callee", "").split("::")[-1] in ("push_back", "add_face_type", "emplace_back", "insert"):
            kind = "face" if (x["callee"].endswith("add_face_type") or "std::vector<face_type_parameters" in x["callee"]) else ("cell" if "shared_ptr<cell_type_parameters>" in x["callee"] and "std::vector" in x["callee"] else None)
            if kind is None:
                continue
            # the innermost loop of ANY kind around the append must be the document-order sibling loop itself: an append made
            # while walking another container (e.g. a std::map keyed by id) re-orders the types
            inner_loop = fi.enclosing(x, ("ForStmt", "WhileStmt", "CXXForRangeStmt", "DoStmt"))
            if is_sibling_loop(inner_loop) and x["callee"].split("::")[-1] in ("push_back", "add_face_type", "emplace_back"):
                found[kind] = True
            else:
                wrong[kind] = (x, inner_loop)
    for k_, w in wrong.items():
        if w is not None:
            found[k_] = False
            rep.violation("C18.order-preserved", prog, fn, w[0], "%s types appended outside the document-order loop" % k_,
                          "%s is executed %s, not directly in the loop that walks the <%s_type> elements with NextSiblingElement (e.g. while iterating a map ordered by id): the position of a type in the list - which is what "
                          "faces and cells refer to - no longer is its position in the file" % (short(w[0], 70), ("inside the loop at line %s" % w[1].get("l")) if w[1] else "outside any loop", k_))
    add = prog.fn("cell_type_parameters::add_face_type", required=False)
    if add is not None and not any(x.get("k") == "CXXMemberCallExpr" and x.get("callee", "").endswith("::push_back") for x in walk(add["body"])):
        found["face"] = False
    for k, v in found.items():
        if v:
            rep.ok("C18.order-preserved", prog, fn, None, "%s types: sibling iteration in document order + push_back" % k)
        else:
            rep.violation("C18.order-preserved", prog, fn, None, "%s types are not appended in document order" % k, "read_biomechanical_parameters must iterate the <%s_type> elements with NextSiblingElement and append each at the end of the list: the order in the file defines the type indices" % k)


def type_binding(rep, prog):
    from ..model import expand
    fn = prog.fn("simulation_initializer::run")
    plist = fn["params"][0]
    calls = [n for n in walk(fn["body"]) if is_call(n) and n.get("callee") == "simulation_initializer::triangulate_surface"]
    if not calls:
        raise AnalysisBroken("simulation_initializer::run: call of triangulate_surface not found")
    for c in calls:
        a = call_args(c)
        e = strip(expand(fn, a[2])) if len(a) >= 3 else {}
        while e.get("k") in ("ParenExpr", "ImplicitCastExpr", "MaterializeTemporaryExpr", "CXXBindTemporaryExpr", "CXXConstructExpr") and len([x for x in e.get("c", []) if isinstance(x, dict)]) == 1:
            e = strip([x for x in e["c"] if isinstance(x, dict)][0])
        positional = False
        if e.get("k") == "CXXOperatorCallExpr" and e.get("op") == "[]" and len(e.get("c", [])) == 3:
            o = strip(e["c"][1])
            if o.get("k") == "DeclRefExpr" and (o.get("ref") or {}).get("did") == plist["did"]:
                idx_txt = render(expand(fn, e["c"][2]))
                if "cell_type_id_lst" in idx_txt or "get_cell_types" in idx_txt:
                    positional = True
        if e.get("k") == "CXXMemberCallExpr" and e.get("callee", "").endswith("::at"):
            o = strip(call_obj(e) or {})
            if o.get("k") == "DeclRefExpr" and (o.get("ref") or {}).get("did") == plist["did"]:
                positional = True
        if positional:
            rep.ok("C18.type-binding", prog, fn, c, "triangulate_surface(.., %s)" % short(e, 50))
        elif any(is_call(x) and x.get("callee", "") in ("std::find_if", "std::find") for d_ in def_chain(fn, a[2], depth=5) for x in walk(d_)) or e.get("k") == "UnaryOperator":
            rep.violation("C18.type-binding", prog, fn, c, "cell type looked up by value instead of by position",
                          "simulation_initializer::run no longer takes cell_type_param_lst[cell_type_id] (the k-th cell type of the parameter file for a mesh cell of type id k) but searches the list (%s): with cell types whose position differs from their global id - several sets of the same class, or types listed in another order - a cell gets the parameters (class, densities, moduli, tensions) of another type or is rejected" % short(a[2], 60))
        else:
            raise AnalysisBroken("simulation_initializer::run: the cell type handed to triangulate_surface (%s) is in a form this checker does not decide" % short(a[2], 60))


def wiring_order(rep, prog):
    n = 0
    for fn in product_fns(prog):
        if not fn.get("ctor") and fn.get("name") != (fn.get("cls") or "").split("::")[-1]:
            continue
        inits = [i for i in fn.get("inits", []) if isinstance(i.get("init"), dict)]
        if not inits or not isinstance(fn.get("body"), dict):
            continue
        # members assigned as a whole in the constructor body
        assigned = {}
        for a in walk(fn["body"]):
            if a.get("k") in ("BinaryOperator", "CXXOperatorCallExpr") and a.get("op") == "=":
                lhs = strip(a["c"][0] if a["k"] == "BinaryOperator" else a["c"][1])
                if lhs.get("k") == "MemberExpr" and (lhs.get("ref") or {}).get("dk") == "Field" and lhs.get("c") and strip(lhs["c"][0]).get("k") == "CXXThisExpr":
                    assigned.setdefault(lhs["ref"]["name"], a)
        n += 1
        bad = False
        for i in inits:
            for x in walk(i["init"]):
                if x.get("k") == "MemberExpr" and (x.get("ref") or {}).get("dk") == "Field" and x.get("c") and strip(x["c"][0]).get("k") == "CXXThisExpr" and x["ref"]["name"] in assigned:
                    bad = True
                    rep.violation("C18.wiring-order", prog, fn, i["init"], "%s initialised from %s before %s is assigned" % (i.get("name") or i.get("qn", "?").split("::")[-1], x["ref"]["name"], x["ref"]["name"]),
                                  "%s initialises the member %s in its mem-initializer list from this->%s, but %s only receives its value in the constructor body (line %s): the mem-initializer runs first and copies the default-constructed value, so the parameter read from the file never reaches %s" % (fn["qn"], i.get("name") or i.get("qn", "?"), x["ref"]["name"], x["ref"]["name"], assigned[x["ref"]["name"]].get("l"), i.get("name") or i.get("qn", "?")))
        if not bad:
            rep.ok("C18.wiring-order", prog, fn, None, "%s: no mem-initializer reads a member that the body assigns later" % fn["qn"])


def consumers(rep, prog):
    readers = {}
    for f in product_fns(prog):
        if not isinstance(f.get("body"), dict) and not f.get("inits"):
            continue
        roots = ([f["body"]] if isinstance(f.get("body"), dict) else []) + [i["init"] for i in f.get("inits", []) if isinstance(i.get("init"), dict)]
        for r in roots:
            for n in walk(r):
                if n.get("k") == "MemberExpr" and n["ref"].get("qn") in CONSUMERS:
                    readers.setdefault(n["ref"]["qn"], set()).add(f["qn"])
    for field, wants in CONSUMERS.items():
        got = readers.get(field, set())
        for w in wants:
            if w in got:
                rep.ok("C18.consumers", prog, None, None, "%s is read by %s" % (field.split("::")[1], w))
            elif not prog.by_qn.get(w):
                # the consumer named by the frozen table no longer exists as a function (merged into its caller, renamed): the
                # parameter must then be read by another function of the same class that the table does not already name
                cls_ = w.rsplit("::", 1)[0]
                others = sorted(g for g in got if g.startswith(cls_ + "::") and g not in wants)
                if others:
                    rep.ok("C18.consumers", prog, None, None, "%s is read by %s (%s no longer exists: merged / renamed)" % (field.split("::")[1], ", ".join(others), w))
                else:
                    rep.violation("C18.consumers", prog, None, None, "%s no longer read by %s" % (field.split("::")[1], w),
                                  "the parameter %s must be consumed by %s, which no longer exists, and no other function of %s reads it; readers found: %s" % (field, w, cls_, ", ".join(sorted(got)) or "none"))
            else:
                rep.violation("C18.consumers", prog, None, None, "%s no longer read by %s" % (field.split("::")[1], w),
                              "the parameter %s must be consumed by %s (it governs that behaviour); readers found: %s" % (field, w, ", ".join(sorted(got)) or "none"))
    # specific wiring expressions
    ctor = [f for f in prog.fns("solver::solver") if f.get("ctor") and len(f.get("params", [])) >= 2][0]
    mk = [n for n in walk(ctor["body"]) if n.get("k") == "CallExpr" and n.get("callee") == "std::make_unique" and "local_mesh_refiner" in n.get("t", "")]
    if mk:
        a = [render(x) for x in call_args(mk[0])]
        if len(a) >= 3 and a[0].endswith("min_edge_len_") and "min_edge_len_" in a[1] and "3" in a[1] and a[2].endswith("enable_edge_swap_operation_"):
            rep.ok("C18.consumers", prog, ctor, mk[0], "refiner(l_min = min_edge_len_, l_max = 3*min_edge_len_, enable_edge_swap_operation_)")
        else:
            rep.violation("C18.consumers", prog, ctor, mk[0], "refiner wired to (%s)" % ", ".join(a)[:70], "the refiner must be built with (min_edge_len_, 3*min_edge_len_, enable_edge_swap_operation_), found (%s)" % ", ".join(a))
    it = prog.fn("solver::run_iteration")
    for n in walk(it["body"]):
        if n.get("k") == "CXXMemberCallExpr" and n.get("callee") == "cell::apply_internal_forces":
            from ..model import expand_text
            a = expand_text(it, call_args(n)[0]).strip("()")
            if a.endswith("time_step_"):
                rep.ok("C18.consumers", prog, it, n, "apply_internal_forces(time_step_)")
            else:
                rep.violation("C18.consumers", prog, it, n, "growth uses %s as time step" % a, "apply_internal_forces must receive sim_parameters_.time_step_, found %s" % a)
        if n.get("k") == "CallExpr" and n.get("callee") == "cell_divider::run":
            a = render(call_args(n)[1])
            if a.endswith("min_edge_len_"):
                rep.ok("C18.consumers", prog, it, n, "cell_divider::run(..., min_edge_len_, ...)")
            else:
                rep.violation("C18.consumers", prog, it, n, "divider given %s as edge length" % a, "cell_divider::run must receive sim_parameters_.min_edge_len_")
    rn = prog.fn("solver::run")
    conds = [render(n["cond"]) for n in walk(rn["body"]) if n.get("k") in ("WhileStmt", "ForStmt", "DoStmt") and isinstance(n.get("cond"), dict)]
    # the iteration is executed only while simulated time < simulation_duration_: a condition that dominates the call of
    # run_iteration (the loop condition, or an 'if(!(t < T)) break;' in front of it)
    ri = prog.index(rn)
    good = False
    for cl in [n for n in walk(rn["body"]) if is_call(n) and n.get("callee") == "solver::run_iteration"]:
        if ri.enclosing(cl, ("WhileStmt", "ForStmt", "DoStmt")) is None:
            continue
        from ..model import facts_at
        for x, truth in facts_at(rn, ri, cl):
            if x.get("k") == "BinaryOperator" and x.get("op") in ("<", ">", "<=", ">="):
                def _is_T(e_):
                    e_ = strip(e_)
                    while e_.get("k") == "ParenExpr" and e_.get("c"):
                        e_ = strip(e_["c"][0])
                    return e_.get("k") == "MemberExpr" and (e_.get("ref") or {}).get("name") == "simulation_duration_"
                def _is_t(e_):
                    e_ = strip(e_)
                    while e_.get("k") == "ParenExpr" and e_.get("c"):
                        e_ = strip(e_["c"][0])
                    return e_.get("k") == "CXXMemberCallExpr" and e_.get("callee", "").endswith("::get_simulation_time")
                # the bound is the duration itself, not an expression built from it (T - dt/2 stops up to half a step early)
                lt = (_is_t(x["c"][0]) and _is_T(x["c"][1]) and x["op"] == "<") or (_is_T(x["c"][0]) and _is_t(x["c"][1]) and x["op"] == ">")
                ge = (_is_t(x["c"][0]) and _is_T(x["c"][1]) and x["op"] == ">=") or (_is_T(x["c"][0]) and _is_t(x["c"][1]) and x["op"] == "<=")
                if (lt and truth) or (ge and not truth):
                    good = True
    if good:
        rep.ok("C18.consumers", prog, rn, None, "run loop: simulation time < simulation_duration_")
    else:
        rep.violation("C18.consumers", prog, rn, None, "run loop not bounded by simulation_duration_", "solver::run must loop while get_simulation_time() < simulation_duration_ (found %s)" % conds)


def contact_strengths(rep, prog):
    from . import c07
    cm = prog.config[0]
    fn = prog.fn(c07.ENTRY[cm])
    fi = prog.index(fn)
    n_blocks = 0
    for blk, calls in c07.force_blocks(fn):
        kind = c07.block_kind(fi, calls[0])      # guards of the first force: include the early exits inside the block
        if kind is None:
            continue
        n_blocks += 1
        strengths = set()
        # strength fields used in the definitions the block's forces depend on
        seen = set()
        stack = [call_args(c)[0] for c in calls]
        while stack:
            e = stack.pop()
            for x in walk(e):
                if x.get("k") == "MemberExpr" and x["ref"]["name"] in ("repulsion_strength_", "adherence_strength_"):
                    strengths.add(x["ref"]["name"])
                if x.get("k") == "DeclRefExpr" and x["ref"].get("dk") == "Var" and x["ref"]["did"] not in seen:
                    seen.add(x["ref"]["did"])
                    for d in walk(fn["body"]):
                        if d.get("k") == "Var" and d.get("did") == x["ref"]["did"] and isinstance(d.get("init"), dict):
                            stack.append(d["init"])
                    # non-const locals assigned in branches (force_amplitude)
                    for a in walk(fn["body"]):
                        if a.get("k") == "BinaryOperator" and a.get("op") == "=" and strip(a["c"][0]).get("k") == "DeclRefExpr" and strip(a["c"][0])["ref"]["did"] == x["ref"]["did"]:
                            stack.append(a["c"][1])
        want = {"repulsive": {"repulsion_strength_"}, "adhesive": {"adherence_strength_"}}[kind]
        if strengths == want:
            rep.ok("C18.contact-strengths", prog, fn, blk, "%s block at line %s uses %s" % (kind, blk.get("l"), ", ".join(want)))
        else:
            rep.violation("C18.contact-strengths", prog, fn, blk, "%s block uses %s" % (kind, ",".join(sorted(strengths)) or "no strength"),
                          "the %s contact block at line %s computes its force from %s; the parameter that governs it is %s" % (kind, blk.get("l"), sorted(strengths), sorted(want)))
    if n_blocks == 0:
        raise AnalysisBroken("no classified contact block in %s" % fn["qn"])
