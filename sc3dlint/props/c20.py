"""C20 - spatial grids: sibling agreement of the index arithmetic (algebraic clauses)."""
import re

import sympy as sp

from ..model import walk, strip, is_call, call_obj, call_args, render, short, AnalysisBroken
from .. import sym as S
from .c10 import product_fns

EXPLANATION = ("LF engine over every grid class instantiation (uspg_abstract, uspg_3d<T>, uspg_4d<T>): (1) every voxel-flattening "
               "expression has the normal form x + y*nx + z*nx*ny with x,y,z the indices bounded by nx,ny,nz resp. the 1st/2nd/3rd index "
               "parameter; (2) it is computed in size_t (a 32-bit product wraps for grids of more than 2^32 voxels), as is the total voxel "
               "count used to size the storage; (3) every coordinate quantisation is floor((coord - min_axis)/voxel_size) with the matching "
               "axis; (4) update_dimensions of both grids assigns nb_voxels_a = ceil((max_a + delta - min_a)/voxel_size), min_a_ and max_a_ "
               "axis-consistently and sizes the storage with nx*ny*nz; (5) get_grid_content ranges over [0,n_a) in each axis and "
               "get_neighborhood over [i-1 clamped at 0, i+2 clamped at n_a). Not decided: the behaviour of points on the boundary of the "
               "box under floating point (absolute epsilon padding), which is the value-level heart of the property.")
ASSUMPTIONS = ["axis of an index variable is established from the bound it is compared with / its parameter position, not from its name"]

GRID_RE = re.compile(r"^(uspg_abstract|uspg_3d|uspg_4d)(<.*>)?$")


def declare(rep):
    rep.rule("C20.flatten-form", "every voxel flattening is x + y*nx + z*nx*ny with axis-consistent indices", floor=3)
    rep.rule("C20.flatten-width", "flattening and total voxel count are computed in size_t, not in 32-bit arithmetic", floor=4)
    rep.rule("C20.quantisation", "every coordinate quantisation is floor((coord - min_axis)/voxel_size) of the matching axis", floor=3)
    rep.rule("C20.index-within-count", "every quantised coordinate is limited to the last voxel of its axis before it addresses a voxel (the count is ceil(extent/size), "
             "so floor((max - min)/size) is one past the end whenever the extent is a multiple of the voxel size)", floor=12)
    rep.rule("C20.free-layer", "the region grid of the polarizer extends at least two voxel sizes beyond the node extrema on every side: its ray marching steps from a "
             "voxel that holds a node to the next one without a bounds test, and with ceil(extent/size) voxels one voxel of margin leaves no free layer when the extent is a multiple of the voxel size", floor=6)
    rep.rule("C20.extent-covers-placed", "the region grid of the polarizer is dimensioned from the same set of points that is later placed into it (the used nodes of every cell; an extent merged from cell::get_aabb() counts when only used nodes are placed)", floor=6)
    rep.rule("C20.closed-box", "no entry point of the grids rejects, skips or answers empty for a coordinate on a face of the declared box: a range test on a coordinate against min_/max_ of its axis that survives NDEBUG states the closed interval [min, max]", floor=4)
    rep.rule("C20.query-fresh", "get_neighborhood / get_grid_content answer from the voxels as they are at the call: every returned list is a local filled during the call (or the result of another query), never a data member kept from an earlier call", floor=4)
    rep.rule("C20.update-dimensions", "update_dimensions assigns counts, origin and extent axis-consistently and sizes the storage with nx*ny*nz", floor=2)
    rep.rule("C20.loop-ranges", "get_grid_content visits [0,n) per axis; get_neighborhood visits [i-1 (clamped at 0), i+2 (clamped at n))", floor=2)


def grid_fns(prog):
    return [f for f in prog.repo_functions() if GRID_RE.match(f.get("cls") or "") and isinstance(f.get("body"), dict) and not prog.fully_inlined(f)]


def axis_of_count(sym_name):
    m = re.search(r"nb_voxels_([xyz])_", sym_name)
    return m.group(1) if m else None


def run(rep, prog, tier):
    if not rep.rules:
        declare(rep)
    fns = grid_fns(prog)
    if len(fns) < 10:
        raise AnalysisBroken("grid classes not found (%d functions)" % len(fns))
    index_within_count(rep, prog)
    free_layer(rep, prog)
    extent_covers_placed(rep, prog)
    for fn in fns:
        closed_box(rep, prog, fn)
        flatten(rep, prog, fn)
        quantisation(rep, prog, fn)
        if fn["name"] == "update_dimensions":
            update_dimensions(rep, prog, fn)
        if fn["name"] in ("get_grid_content", "get_neighborhood"):
            loop_ranges(rep, prog, fn)
            query_fresh(rep, prog, fn)


def closed_box(rep, prog, fn):
    coords = {p_["did"]: p_["name"] for p_ in fn.get("params", []) if p_.get("t", "").replace("const ", "").strip() in ("double", "float")}
    if not coords:
        return
    bad = []
    for n in walk(fn["body"]):
        if n.get("k") != "BinaryOperator" or n.get("op") not in ("<", ">", "<=", ">="):
            continue
        l, r = strip(n["c"][0]), strip(n["c"][1])
        for a, b, op in ((l, r, n["op"]), (r, l, {"<": ">", ">": "<", "<=": ">=", ">=": "<="}[n["op"]])):
            if a.get("k") == "DeclRefExpr" and (a.get("ref") or {}).get("did") in coords and b.get("k") == "MemberExpr" and re.match(r"^(min|max)_[xyz]_$", (b.get("ref") or {}).get("name", "")):
                which = b["ref"]["name"][:3]
                # coordinate  op  bound: the closed box is  c >= min, c <= max  (and its negations  c < min,  c > max)
                if (which == "max" and op in ("<", ">=")) or (which == "min" and op in (">", "<=")):
                    bad.append((n, coords[a["ref"]["did"]], b["ref"]["name"], op))
    for n, c, bnd, op in bad:
        rep.violation("C20.closed-box", prog, fn, n, "%s tested with '%s %s %s'" % (c, c, op, bnd),
                      "%s tests the coordinate %s with '%s %s %s': the declared box is closed, a point with %s == %s (a face or corner of the box, which place_object accepts and get_3d_voxel_index maps to the last voxel) is treated as outside - the query returns nothing / the object is not stored. (max_ equals the declared maximum whenever the extent is a multiple of the voxel size and the epsilon padding is absorbed by rounding.)" % (fn["qn"], c, c, op, bnd, c, bnd))
    if not bad:
        rep.ok("C20.closed-box", prog, fn, None, "%s: no range test excludes a face of the box" % fn["qn"])


def query_fresh(rep, prog, fn):
    # a query does not change what is stored: it is a const member function (the compiler then rejects any write to the voxels)
    if fn.get("const"):
        rep.ok("C20.query-fresh", prog, fn, None, "%s is a const member function: it cannot modify the stored objects" % fn["qn"])
    else:
        writes = [x for x in walk(fn["body"]) if x.get("k") == "CXXMemberCallExpr" and not x.get("cconst") and "voxel_lst_" in render(call_obj(x) or {})]
        rep.violation("C20.query-fresh", prog, fn, writes[0] if writes else None, "query is not const",
                      "%s is no longer a const member function%s: a query that moves / removes what it returns leaves the grid empty (or partly empty) for every later look-up - objects placed earlier are not retrievable, neighbours are missed, a second content query returns nothing" % (fn["qn"], (" and calls the non-const %s on the voxel storage" % writes[0].get("callee", "?").split("::")[-1]) if writes else ""))
    rets = [r for r in walk(fn["body"], into_lambdas=False) if r.get("k") == "ReturnStmt" and isinstance(r.get("value"), dict)]
    for r in rets:
        v = strip(r["value"])
        while v.get("k") in ("CXXConstructExpr", "MaterializeTemporaryExpr", "CXXBindTemporaryExpr", "ExprWithCleanups", "ImplicitCastExpr", "ParenExpr") and len([c for c in v.get("c", []) if isinstance(c, dict)]) == 1:
            v = strip([c for c in v["c"] if isinstance(c, dict)][0])
        shared = [d_ for d_ in walk(fn["body"]) if d_.get("k") == "Var" and d_.get("static_local") and v.get("k") == "DeclRefExpr" and d_.get("did") == (v.get("ref") or {}).get("did")]
        if shared:
            rep.violation("C20.query-fresh", prog, fn, r, "query answers from a buffer shared between calls",
                          "%s returns the function-local static '%s' (%s): every call of the query on the same thread - on any grid of that element type - refills that one list, so a result that the caller still holds (a reference bound to the first neighbourhood while a second one is taken) silently becomes the answer to another query: neighbours of the first point are missing" % (fn["qn"], shared[0].get("name"), shared[0].get("t")))
            continue
        if v.get("k") == "MemberExpr" and (v.get("ref") or {}).get("dk") == "Field":
            rep.violation("C20.query-fresh", prog, fn, r, "query answers from the member %s" % v["ref"].get("name"),
                          "%s returns the data member %s: a result kept from an earlier call. An object placed in one of the 26 surrounding voxels after that call is missing from the answer although it lies within one voxel size of the query point" % (fn["qn"], v["ref"].get("name")))
        else:
            rep.ok("C20.query-fresh", prog, fn, r, "returns %s" % short(v, 50))


def is32(t):
    return t.replace("const ", "") in ("unsigned int", "int")


def flatten(rep, prog, fn):
    from ..model import def_chain
    fi = prog.index(fn)
    cands = []
    for n in walk(fn["body"]):
        if n.get("k") == "Var" and isinstance(n.get("init"), dict) and re.search(r"\b(long|size_t|int|unsigned)\b", n.get("t", "")):
            cands.append((n, n["init"]))
        elif n.get("k") == "ReturnStmt" and isinstance(n.get("value"), dict) and re.search(r"\b(long|size_t|int|unsigned)\b", strip(n["value"]).get("t", "") or n["value"].get("t", "")):
            cands.append((n, n["value"]))
    seen_forms = set()
    for n, init in cands:
        chain = list(def_chain(fn, init))
        fields = {x["ref"]["name"] for d_ in chain for x in walk(d_) if x.get("k") == "MemberExpr" and x["ref"].get("dk") == "Field"}
        if not ({"nb_voxels_x_", "nb_voxels_y_"} <= fields):
            continue
        muls = [x for d_ in chain for x in walk(d_) if x.get("k") == "BinaryOperator" and x.get("op") == "*"]
        if not muls:
            continue
        # a local that merely abbreviates part of a flattening (nx*ny, a row offset) is judged where it is used
        if n.get("k") == "Var" and any(x.get("k") == "DeclRefExpr" and x["ref"].get("did") == n.get("did") for (m_, i_) in cands if m_ is not n for d_ in def_chain(fn, i_) for x in walk(d_)):
            continue
        ev = S.SymEval(prog, fn, lazy_scalars=True)
        try:
            v0 = ev.ev(init)
            if not isinstance(v0, (sp.Basic, int, float)):
                continue       # not a scalar (e.g. an object of the element type in a newly instantiated member)
            v = sp.sympify(v0)
            for _ in range(4):
                v2, ch = ev.expand_once(v)
                if not ch:
                    break
                v = v2
            v = sp.expand(v)
        except S.Decline as e:
            raise AnalysisBroken("%s: %s" % (prog.loc(fn, n), e))
        nx, ny, nz = [ev.sym("this.nb_voxels_%s_" % a) for a in "xyz"]
        if nz in v.free_symbols and v == sp.expand(nx * ny * nz):
            # total count
            wide = all(not is32(m.get("t", "")) for m in muls)
            if wide:
                rep.ok("C20.flatten-width", prog, fn, n, "total voxel count nx*ny*nz computed in %s" % muls[0].get("t"))
            else:
                rep.violation("C20.flatten-width", prog, fn, n, "total voxel count computed in 32-bit arithmetic",
                              "%s multiplies the three 32-bit voxel counts in %s before widening to size_t: for grids of more than 2^32 voxels the storage is sized with the wrapped product and place_object writes out of bounds" % (short(n, 90), muls[0].get("t")))
            continue
        # flattening: a + b*nx + c*nx*ny
        poly = sp.Poly(v, nx, ny) if v.is_polynomial(nx, ny) else None
        if poly is None:
            continue
        coeffs = {m: c for m, c in zip(poly.monoms(), poly.coeffs())}
        a, b, c = coeffs.get((0, 0)), coeffs.get((1, 0)), coeffs.get((1, 1))
        if a is None or b is None or c is None or len(coeffs) != 3 or not all(x.is_Symbol for x in (a, b, c)) or len({a, b, c}) != 3:
            rep.violation("C20.flatten-form", prog, fn, n, "flattening is not x + y*nx + z*nx*ny",
                          "%s has the normal form %s, not x + y*nx + z*nx*ny over three distinct indices: two voxels share a slot or a slot is never addressed" % (short(n, 100), v))
            continue
        axes = [index_axis(prog, fn, fi, ev, s_, n) for s_ in (a, b, c)]
        if None in axes:
            rep.note("%s: the axis of an index of %s could not be established (bound computed out of sight); flattening not decided" % (prog.loc(fn, n), short(n, 60)))
            continue
        if axes == ["x", "y", "z"]:
            rep.ok("C20.flatten-form", prog, fn, n, "%s == x + y*nx + z*nx*ny with (x,y,z) = (%s,%s,%s)" % (n.get("name", "returned index"), clean(a), clean(b), clean(c)))
        else:
            rep.violation("C20.flatten-form", prog, fn, n, "flattening pairs indices with the wrong axes",
                          "%s uses (%s,%s,%s) as (x,y,z) but these indices are bounded by the counts of axes %s" % (short(n, 90), clean(a), clean(b), clean(c), axes))
        if all(not is32(m.get("t", "")) for m in muls):
            rep.ok("C20.flatten-width", prog, fn, n, "flattening computed in %s" % muls[0].get("t"))
        else:
            rep.violation("C20.flatten-width", prog, fn, n, "flattening computed in 32-bit arithmetic",
                          "%s multiplies 32-bit values in %s before widening to size_t: for grids of more than 2^32 voxels the index wraps and a different voxel is addressed" % (short(n, 100), [m.get("t") for m in muls if is32(m.get("t", ""))][0]))

    # the total count accumulated factor by factor (total = 1; total *= n_axis; ...) and handed to resize(): the products are
    # computed in the type of the accumulator
    for rz in [x for x in walk(fn["body"]) if x.get("k") == "CXXMemberCallExpr" and x.get("callee", "").endswith("::resize") and call_args(x)]:
        a0 = strip(call_args(rz)[0])
        if a0.get("k") != "DeclRefExpr" or (a0.get("ref") or {}).get("dk") != "Var":
            continue
        did = a0["ref"]["did"]
        ups = [x for x in walk(fn["body"]) if x.get("k") == "CompoundAssignOperator" and x.get("op") == "*=" and strip(x["c"][0]).get("k") == "DeclRefExpr" and strip(x["c"][0])["ref"].get("did") == did]
        decl = [v for v in walk(fn["body"]) if v.get("k") == "Var" and v.get("did") == did]
        if len(ups) >= 2 and decl:
            if not is32(decl[0].get("t", "")):
                rep.ok("C20.flatten-width", prog, fn, rz, "total voxel count accumulated by *= in %s" % decl[0].get("t"))
            else:
                rep.violation("C20.flatten-width", prog, fn, rz, "total voxel count computed in 32-bit arithmetic",
                              "%s accumulates the product of the voxel counts in a %s: for grids of more than 2^32 voxels the storage is sized with the wrapped product and place_object writes out of bounds" % (fn["qn"], decl[0].get("t")))


def clean(x):
    return re.sub(r"#\d+", "", str(x))


def index_axis(prog, fn, fi, ev, symb, site):
    """axis of an index variable: parameter position (x,y,z order) or the count its loop bound depends on."""
    name = symb.name
    for i, p in enumerate(fn.get("params", [])):
        if name == p["name"]:
            idx_params = [q for q in fn["params"] if "int" in q["t"] or "long" in q["t"]]
            if p in idx_params and len(idx_params) == 3:
                return "xyz"[idx_params.index(p)]
    m = re.match(r"^(.*)#(\d+)$", name)
    if m:
        did = int(m.group(2))
        # loop variable: find the loop whose init declares it
        for l in walk(fn["body"]):
            if l.get("k") == "ForStmt" and isinstance(l.get("init"), dict):
                for d in walk(l["init"]):
                    if d.get("k") == "Var" and d.get("did") == did and isinstance(l.get("cond"), dict):
                        try:
                            ev2 = S.SymEval(prog, fn)
                            c = ev2.ev(strip(l["cond"])["c"][1])
                            axes = {axis_of_count(s_.name) for s_ in sp.sympify(c).free_symbols} - {None}
                            if len(axes) == 1:
                                return axes.pop()
                        except (S.Decline, KeyError, IndexError):
                            pass
                        # the bound is computed elsewhere (a helper lambda, a structured binding): the voxel count its definition mentions
                        from ..model import def_chain
                        axes = set()
                        for d_ in def_chain(fn, l["cond"], depth=5):
                            for x_ in walk(d_):
                                if x_.get("k") == "MemberExpr" and x_["ref"].get("dk") == "Field" and axis_of_count(x_["ref"]["name"]):
                                    axes.add(axis_of_count(x_["ref"]["name"]))
                        if len(axes) == 1:
                            return axes.pop()
        # structured binding of get_3d_voxel_index(...) / plain local
        d = ev._var_decl(did)
        if isinstance(d, tuple) and d[0] == "binding":
            return "xyz"[d[2]] if d[2] < 3 else None
    return None


QUANT_FIELDS = {"min_x_": "x", "min_y_": "y", "min_z_": "z"}


def quantisation_sites(fn):
    for n in walk(fn["body"]):
        if n.get("k") == "CallExpr" and n.get("callee") in ("std::floor", "floor"):
            fields = {x["ref"]["name"] for x in walk(n) if x.get("k") == "MemberExpr" and x["ref"].get("dk") == "Field"}
            if fields & set(QUANT_FIELDS) or "voxel_size_" in fields:
                yield n


def coord_axis(prog, fn, ev, expr_sym):
    """axis of the coordinate that is quantised: .dx_/.dy_/.dz_ atom, or positional (1st/2nd/3rd double parameter),
    or a local defined from such."""
    n = expr_sym.name
    for suf, ax in ((".dx_", "x"), (".dy_", "y"), (".dz_", "z")):
        if n.endswith(suf):
            return ax
    dbl = [p for p in fn.get("params", []) if p["t"].replace("const ", "") == "double"]
    for i, p in enumerate(dbl):
        if n == p["name"] and len(dbl) in (3, 6, 7):
            return "xyz"[i % 3]
    return None


def check_quant(rep, prog, fn, n, rule, grid_prefixes):
    ev = S.SymEval(prog, fn)
    try:
        v = sp.sympify(ev.ev(n))
    except S.Decline as e:
        raise AnalysisBroken("%s: %s" % (prog.loc(fn, n), e))
    if not isinstance(v, sp.floor):
        rep.violation(rule, prog, fn, n, "quantisation is not a floor", "%s does not evaluate to floor(...)" % short(n, 80))
        return
    arg = sp.together(v.args[0])
    num, den = sp.fraction(arg)
    num = sp.expand(num)
    mins = [s_ for s_ in num.free_symbols if re.search(r"\.min_[xyz]_$", s_.name)]
    vs = [s_ for s_ in den.free_symbols if s_.name.endswith(".voxel_size_")]
    if len(mins) != 1 or len(vs) != 1 or den != vs[0]:
        rep.violation(rule, prog, fn, n, "quantisation is not (coord - min)/voxel_size", "%s evaluates to floor(%s), not floor((coord - min_axis)/voxel_size)" % (short(n, 80), arg))
        return
    m = mins[0]
    rest = sp.expand(num + m)
    ax_min = m.name[-2]
    coords = [s_ for s_ in rest.free_symbols]
    if len(coords) != 1 or sp.expand(rest - coords[0]) != 0:
        # local such as face_min_x: accept a single opaque symbol with coefficient 1
        rep.violation(rule, prog, fn, n, "quantised quantity is not a single coordinate", "%s quantises %s" % (short(n, 80), rest))
        return
    ax = coord_axis(prog, fn, ev, coords[0])
    if ax is None:
        ax = local_axis(prog, fn, coords[0])
    if ax is None:
        # element of the flat box array: slot k of (min xyz, max xyz) -> axis k mod 3 (layout: C06.aabb-layout)
        mm = re.search(r"face_aabb_lst_\[(.*)\]$", coords[0].name)
        if mm:
            inner = mm.group(1)
            k = re.search(r"\+\s*(\d+)$", inner) or re.match(r"^(\d+)\s*\+", inner)
            ax = "xyz"[(int(k.group(1)) if k else 0) % 3]
    if m.name.rsplit(".", 1)[0] != vs[0].name.rsplit(".", 1)[0]:
        rep.violation(rule, prog, fn, n, "min and voxel size of different grids", "%s mixes %s and %s" % (short(n, 80), m, vs[0]))
    elif ax == ax_min:
        rep.ok(rule, prog, fn, n, "floor((%s - %s)/%s): axis %s" % (clean(coords[0]), clean(m), clean(vs[0]), ax))
    else:
        rep.violation(rule, prog, fn, n, "coordinate of axis %s quantised with the origin of axis %s" % (ax, ax_min),
                      "%s subtracts %s from a coordinate of axis %s: points are filed under / looked up in the wrong voxel column" % (short(n, 90), clean(m), ax))


def local_axis(prog, fn, symb):
    """axis of an opaque local (face_min_x = min over dx() ...): follow its definition to the coordinate atoms."""
    m = re.match(r"^(.*)#(\d+)$", symb.name)
    if not m:
        return None
    did = int(m.group(2))
    for d in walk(fn["body"]):
        if d.get("k") == "Var" and d.get("did") == did and isinstance(d.get("init"), dict):
            axes = set()
            for x in walk(d["init"]):
                if x.get("k") == "CXXMemberCallExpr" and x.get("callee") in ("vec3::dx", "vec3::dy", "vec3::dz"):
                    axes.add(x["callee"][-1])
                if x.get("k") == "CXXOperatorCallExpr" and x.get("op") == "[]":
                    idx = strip(x["c"][2])
                    # face_aabb_lst_[pos + k]: k mod 3 gives the axis (layout checked by C06.aabb-layout)
                    lits = [int(y["v"]) for y in walk(idx) if y.get("k") == "IntegerLiteral"]
                    k = lits[-1] if lits and strip(idx).get("k") == "BinaryOperator" else 0
                    axes.add("xyz"[k % 3])
            if len(axes) == 1:
                return axes.pop()
    return None


def quantisation(rep, prog, fn):
    for n in quantisation_sites(fn):
        check_quant(rep, prog, fn, n, "C20.quantisation", None)


def _positive_constant(prog, name):
    """name designates a static / global constant whose initialiser is machine epsilon or a positive literal"""
    base = re.sub(r"<[^<>]*(<[^<>]*>[^<>]*)*>", "", name).split("::")[-1].split(".")[-1]
    for k, f in prog.functions.items():
        if f.get("pseudo") and k.startswith("<init> ") and k.split("::")[-1].split(" ")[-1] == base and isinstance(f.get("body"), dict):
            txt = render(f["body"]["c"][0]) if f["body"].get("c") else ""
            if "epsilon()" in txt and not txt.strip().startswith("-"):
                return True
            i = strip(f["body"]["c"][0]) if f["body"].get("c") else {}
            if i.get("k") in ("FloatingLiteral", "IntegerLiteral") and float(i.get("v", "0")) > 0:
                return True
    return False


def _fold_written_locals(prog, fn, ev, value, upto):
    """value with every symbol that names a local scalar which is written by top-level statements only (declaration, =, *=, +=)
    before `upto` replaced by the value those statements leave in it"""
    fi = prog.index(fn)
    def flat(stmts):
        for st_ in stmts:
            if strip(st_).get("k") == "CompoundStmt":
                yield from flat(strip(st_).get("c", []))
            else:
                yield st_
    top = list(flat(fn["body"].get("c", [])))
    for sym_ in list(value.free_symbols):
        decl = [v for v in walk(fn["body"]) if v.get("k") == "Var" and sym_.name in (v.get("name"), "%s#%s" % (v.get("name"), v.get("did")))]
        if len(decl) != 1:
            continue
        did = decl[0]["did"]
        cur = None
        for st_ in top:
            if fi.order[id(st_)] > fi.order[id(upto)]:
                break
            x = strip(st_)
            hits = [y for y in walk(x) if y.get("k") in ("BinaryOperator", "CompoundAssignOperator", "UnaryOperator") and (y.get("op") in ("=", "*=", "+=", "-=", "/=") or "++" in y.get("op", "") or "--" in y.get("op", "")) and strip(y["c"][0]).get("k") == "DeclRefExpr" and strip(y["c"][0])["ref"].get("did") == did]
            if x.get("k") == "DeclStmt" and any(d_ is decl[0] for d_ in x.get("decls", [])):
                cur = sp.sympify(ev.ev(decl[0]["init"])) if isinstance(decl[0].get("init"), dict) else None
                continue
            if not hits:
                continue
            if len(hits) != 1 or hits[0] is not x or cur is None and x.get("op") != "=":
                raise S.Decline("the local '%s' is written inside a nested statement" % sym_.name)
            rhs = sp.sympify(ev.ev(x["c"][1])).subs(sym_, cur) if cur is not None else sp.sympify(ev.ev(x["c"][1]))
            cur = {"=": rhs, "*=": (cur * rhs) if cur is not None else None, "+=": (cur + rhs) if cur is not None else None}.get(x.get("op"))
            if cur is None:
                raise S.Decline("the local '%s' is updated with '%s'" % (sym_.name, x.get("op")))
        if cur is not None:
            value = value.subs(sym_, cur)
    return sp.expand(value)


def update_dimensions(rep, prog, fn):
    ev = S.SymEval(prog, fn)
    try:
        for s in fn["body"].get("c", []):
            try:
                ev.exec_stmt(s)
            except S.Decline:
                ev.havoc(s)
    except S.Decline as e:
        raise AnalysisBroken("%s: %s" % (prog.loc(fn), e))
    st = ev.store
    vs = ev.sym("this.voxel_size_")
    ok = True
    msgs = []
    P = {p["name"]: sp.Symbol(p["name"], real=True) for p in fn["params"]}
    for a in "xyz":
        nb = st.get("this.nb_voxels_%s_" % a)
        mn = st.get("this.min_%s_" % a)
        mx = st.get("this.max_%s_" % a)
        lo, hi = P.get("min_" + a), P.get("max_" + a)
        if nb is None or mn is None or mx is None or lo is None:
            ok = False
            msgs.append("axis %s: a field is not assigned" % a)
            continue
        nbs = sp.sympify(nb)
        # strip the integer truncation atom: trunc_unsigned_int(ceiling(...))
        inner = None
        for s_ in nbs.free_symbols:
            m = re.match(r"^trunc_unsigned_int\((.*)\)$", s_.name)
            if m:
                inner = m.group(1)
        form = "ceiling((%s + DELTA - %s)/this.voxel_size_)" % (hi, lo)
        if inner is None or not re.match(r"^ceiling\(\(.*%s.*-\s*%s.*\)/this\.voxel_size_\)$|^ceiling\(\(-%s \+ .*%s.*\)/this\.voxel_size_\)$" % (hi, lo, lo, hi), inner):
            ok = False
            msgs.append("nb_voxels_%s_ = %s, expected %s" % (a, clean(nbs), form))
        elif not nbs.is_Symbol:
            # the count is derived from the ceiling but is not the ceiling itself
            if isinstance(nbs, sp.Max) and any(x.is_Symbol and x.name.startswith("trunc_unsigned_int(") for x in nbs.args) and all(x.is_Symbol or x.is_number for x in nbs.args):
                pass        # at least the ceiling: the grid still covers the box
            elif isinstance(nbs, sp.Min) or nbs.has(sp.Min):
                ok = False
                msgs.append("nb_voxels_%s_ = %s: a count smaller than %s leaves the part of the declared box beyond the last voxel without voxels - objects there are not registered (their index range is empty after clamping) or are looked up in a voxel that belongs to another place" % (a, clean(nbs), form))
            else:
                raise AnalysisBroken("%s: nb_voxels_%s_ = %s is derived from the ceiling of extent/size but is not that ceiling: whether the grid still covers the declared box is not decided" % (prog.loc(fn), a, clean(nbs)))
        d_mn = sp.simplify(sp.sympify(mn) - lo)
        const_pad = d_mn.is_number and d_mn <= 0
        if not const_pad and (-d_mn).is_Symbol and ((-d_mn) in nbs_pad_syms(nbs) or any((-d_mn).name in s_.name for s_ in nbs.free_symbols)) and ("epsilon" in (-d_mn).name or _positive_constant(prog, (-d_mn).name)):
            const_pad = True    # min - delta with the same machine-epsilon atom that pads the count (possibly through a named constant)
        if not const_pad:
            ok = False
            msgs.append("min_%s_ = %s, expected min_%s - delta" % (a, clean(mn), a))
        e_mx = sp.simplify(sp.sympify(mx) - lo - nbs * vs)
        if e_mx != 0:
            ok = False
            msgs.append("max_%s_ = %s, expected min_%s + nb_voxels_%s_*voxel_size_" % (a, clean(mx), a, a))
    # every call must leave every voxel empty: unconditional clear (or whole-container assignment) before the resize
    fi = prog.index(fn)
    clears = [n for n in walk(fn["body"]) if n.get("k") == "CXXMemberCallExpr" and n.get("callee", "").split("::")[-1] in ("clear", "assign") and render(call_obj(n)).endswith("voxel_lst_")]
    uncond = [c for c in clears if fi.enclosing(c, ("IfStmt", "ForStmt", "WhileStmt", "CXXForRangeStmt", "SwitchStmt", "ConditionalOperator")) is None]
    early = [r for r in walk(fn["body"]) if r.get("k") == "ReturnStmt" and uncond and fi.order[id(r)] < fi.order[id(uncond[0])]]
    if not uncond or early:
        ok = False
        msgs.append("the stored objects are not discarded on every call (voxel_lst_.clear() must run unconditionally before the storage is resized): objects of the previous grid survive a re-dimensioning and are returned again / dangle")
    resize = [n for n in walk(fn["body"]) if n.get("k") == "CXXMemberCallExpr" and n.get("callee", "").endswith("::resize")]
    if len(resize) != 1:
        ok = False
        msgs.append("storage is not resized exactly once")
    else:
        ev2 = S.SymEval(prog, fn)
        try:
            sz = sp.expand(sp.sympify(ev2.ev(call_args(resize[0])[0])))
            nx, ny, nz = [ev2.sym("this.nb_voxels_%s_" % a) for a in "xyz"]
            if sz != sp.expand(nx * ny * nz):
                # the size may be computed from locals that are also what the count members receive: compare the values
                try:
                    szv = _fold_written_locals(prog, fn, ev2, sz, resize[0])
                    vals = {sym_: sp.sympify(st.get("this.nb_voxels_%s_" % a)) for sym_, a in zip((nx, ny, nz), "xyz") if st.get("this.nb_voxels_%s_" % a) is not None}
                    same = len(vals) == 3 and sp.expand(szv.subs(vals) - vals[nx] * vals[ny] * vals[nz]) == 0
                except (S.Decline, sp.SympifyError, TypeError):
                    same = False
                if not same:
                    ok = False
                    msgs.append("storage sized with %s, expected nx*ny*nz" % clean(sz))
        except S.Decline as e:
            raise AnalysisBroken("%s: %s" % (prog.loc(fn, resize[0]), e))
    if ok:
        rep.ok("C20.update-dimensions", prog, fn, None, "counts = ceil((max+delta-min)/size), origin = min-delta, extent = min + n*size per axis; storage nx*ny*nz")
    else:
        rep.violation("C20.update-dimensions", prog, fn, None, "update_dimensions is not axis-consistent: " + msgs[0][:60], "%s::update_dimensions: %s" % (fn.get("cls"), "; ".join(msgs)))


def clears_unconditionally(prog, fn):
    fi = prog.index(fn)
    clears = [n for n in walk(fn["body"]) if n.get("k") == "CXXMemberCallExpr" and n.get("callee", "").split("::")[-1] in ("clear", "assign") and render(call_obj(n)).endswith("voxel_lst_")]
    uncond = [c for c in clears if fi.enclosing(c, ("IfStmt", "ForStmt", "WhileStmt", "CXXForRangeStmt", "SwitchStmt", "ConditionalOperator")) is None]
    early = [r for r in walk(fn["body"]) if r.get("k") == "ReturnStmt" and uncond and fi.order[id(r)] < fi.order[id(uncond[0])]]
    return bool(uncond) and not early


def nbs_pad_syms(nbs):
    out = set()
    for s_ in nbs.free_symbols:
        for m in re.finditer(r"std::numeric_limits<double>::epsilon\(\)", s_.name):
            out.add(sp.Symbol("std::numeric_limits<double>::epsilon()", real=True))
    return out


def _neighbour_range_cases(fn, lo_e, hi_e, axis):
    """(lo is max(i-1, 0), hi is min(i+2, n)) decided by substituting the two cases of each clamp into the bound expressions
    (expanded through single-assignment locals; ?:, std::min / std::max, + - and comparisons), or None if an expression has
    another form.  i = the voxel index of the object on this axis, n = the voxel count of the axis; both unsigned."""
    from ..model import expand
    syms = {}

    def leaf(txt):
        txt = txt.replace("this->", "").replace(" ", "")
        if txt not in syms:
            syms[txt] = sp.Symbol("v%d" % len(syms), integer=True, nonnegative=True)
        return syms[txt]

    def conv(e):
        e = strip(e)
        while e.get("k") in CASTS and e.get("c"):
            e = strip(e["c"][0])
        k = e.get("k")
        if k == "IntegerLiteral":
            return sp.Integer(int(e["v"]))
        if k in ("DeclRefExpr", "MemberExpr"):
            return leaf(render(e))
        if k == "ConditionalOperator" and len(e.get("c", [])) == 3:
            c_, a_, b_ = conv(e["c"][0]), conv(e["c"][1]), conv(e["c"][2])
            return sp.Piecewise((a_, c_), (b_, True))
        if k == "BinaryOperator" and len(e.get("c", [])) == 2:
            l_, r_ = conv(e["c"][0]), conv(e["c"][1])
            op = e.get("op")
            if op in ("+", "-", "*"):
                return {"+": l_ + r_, "-": l_ - r_, "*": l_ * r_}[op]
            if op in ("==", "!=", "<", "<=", ">", ">="):
                return {"==": sp.Eq, "!=": sp.Ne, "<": sp.Lt, "<=": sp.Le, ">": sp.Gt, ">=": sp.Ge}[op](l_, r_)
            if op in ("&&", "||"):
                return (sp.And if op == "&&" else sp.Or)(l_, r_)
        if k == "UnaryOperator" and e.get("op") == "!" and e.get("c"):
            return sp.Not(conv(e["c"][0]))
        if k == "CallExpr" and e.get("callee") in ("std::min", "std::max") and len(call_args(e)) == 2:
            a_ = [conv(x) for x in call_args(e)]
            return (sp.Min if e["callee"] == "std::min" else sp.Max)(*a_)
        raise ValueError(k)
    try:
        lo, hi = conv(expand(fn, lo_e, depth=8)), conv(expand(fn, hi_e, depth=8))
    except (ValueError, KeyError, TypeError):
        return None
    n_s = [s_ for t_, s_ in syms.items() if t_.endswith("nb_voxels_%s_" % axis)]
    i_s = [s_ for t_, s_ in syms.items() if not t_.endswith("nb_voxels_%s_" % axis)]
    if len(n_s) != 1 or len(i_s) != 1 or not (lo.free_symbols <= {i_s[0]}) or not (hi.free_symbols <= {i_s[0], n_s[0]}):
        return None
    i, n = i_s[0], n_s[0]
    k, j, m = sp.symbols("k_ j_ m_", integer=True, nonnegative=True)
    try:
        ok_lo = sp.simplify(lo.subs(i, 0)) == 0 and sp.simplify(lo.subs(i, k + 1) - k) == 0
        ok_hi = sp.simplify(hi.subs({i: m, n: m + 1}, simultaneous=True) - (m + 1)) == 0 and sp.simplify(hi.subs({i: k, n: k + 2 + j}, simultaneous=True) - (k + 2)) == 0
    except Exception:
        return None
    return bool(ok_lo), bool(ok_hi)


def loop_ranges(rep, prog, fn):
    loops = [n for n in walk(fn["body"]) if n.get("k") == "ForStmt"]
    if len(loops) != 3:
        return
    fi = prog.index(fn)
    ev = S.SymEval(prog, fn)
    seen_axes = []
    msgs = []
    for l in loops:
        c0 = strip(l.get("cond") or {})
        while c0.get("k") == "ParenExpr" and c0.get("c"):
            c0 = strip(c0["c"][0])
        early = [x for x in walk(l.get("body") or {}, into_lambdas=False) if x.get("k") in ("BreakStmt", "GotoStmt") and fi.enclosing(x, ("ForStmt", "WhileStmt", "DoStmt", "CXXForRangeStmt", "SwitchStmt")) is l]
        if (c0.get("k") == "BinaryOperator" and c0.get("op") in ("&&", "||")) or early:
            rep.violation("C20.loop-ranges", prog, fn, l, "%s: the scan can stop before the end of its range" % fn["name"],
                          "%s::%s: the loop at line %s runs under '%s'%s: the scan ends before all the voxels of its range were visited whenever that other condition says so - a count kept next to the voxels is maintained by some of the mutators only (place_object, not update_voxel), so objects stored in the voxels that were not visited are missing from the answer" % (fn.get("cls"), fn["name"], l.get("l"), short(c0, 70), " and has a break" if early else ""))
            return
        try:
            d = l["init"]["decls"][0]
            lo = sp.sympify(ev.ev(d["init"]))
            cond = strip(l["cond"])
            hi = sp.sympify(ev.ev(cond["c"][1]))
            op = cond["op"]
        except (S.Decline, KeyError, IndexError) as e:
            raise AnalysisBroken("%s: loop header not recognised: %s" % (prog.loc(fn, l), e))
        axes = {axis_of_count(s_.name) for s_ in hi.free_symbols} - {None}
        if len(axes) != 1:
            msgs.append("loop at line %s: upper bound %s does not depend on exactly one voxel count" % (l.get("l"), clean(hi)))
            continue
        a = axes.pop()
        seen_axes.append(a)
        n_a = ev.sym("this.nb_voxels_%s_" % a)
        if fn["name"] == "get_grid_content":
            if not (lo == 0 and hi == n_a and op == "<"):
                msgs.append("axis %s ranges over [%s, %s %s) instead of [0, n)" % (a, clean(lo), op, clean(hi)))
        else:
            # start = ite(i == 0, 0, i - 1), end = ite(i == n - 1, n, i + 2)
            ok_lo = any(re.match(r"^ite\(Eq\((.+), 0\),0,\1 - 1\)$", s_.name.replace(" ", " ")) for s_ in lo.free_symbols) if lo.free_symbols else False
            ok_hi = any(re.match(r"^ite\(Eq\((.+), this\.nb_voxels_%s_ - 1\),this\.nb_voxels_%s_,\1 \+ 2\)$" % (a, a), s_.name) for s_ in hi.free_symbols)
            # the same two clamps with the tests written the other way round
            ok_lo = ok_lo or (any(re.match(r"^ite\(Ne\((.+), 0\),\1 - 1,0\)$", s_.name) for s_ in lo.free_symbols) if lo.free_symbols else False)
            ok_hi = ok_hi or any(re.match(r"^ite\(Ne\((.+), this\.nb_voxels_%s_ - 1\),\1 \+ 2,this\.nb_voxels_%s_\)$" % (a, a), s_.name) for s_ in hi.free_symbols)
            if not (ok_lo and ok_hi):
                # any other way of writing the same two clamps (other polarity, std::max / std::min, an inlined helper with an
                # if): decided by case analysis on the values, i = 0 / i >= 1 and i = n - 1 / i <= n - 2
                sem = _neighbour_range_cases(fn, d["init"], cond["c"][1], a)
                if sem is None:
                    raise AnalysisBroken("%s: the bounds of the loop over axis %s (%s .. %s) are not in a form whose value this checker can enumerate" % (prog.loc(fn, l), a, clean(lo), clean(hi)))
                ok_lo, ok_hi = sem
            if not (ok_lo and ok_hi and op == "<"):
                msgs.append("axis %s ranges over [%s, %s %s), expected [i-1 clamped at 0, i+2 clamped at n)" % (a, clean(lo), op, clean(hi)))
    if sorted(seen_axes) != ["x", "y", "z"]:
        msgs.append("the three loops cover axes %s" % seen_axes)
    if not msgs:
        rep.ok("C20.loop-ranges", prog, fn, loops[0], "%s: three nested loops over x, y, z with the expected ranges" % fn["name"])
    else:
        rep.violation("C20.loop-ranges", prog, fn, loops[0], "%s: %s" % (fn["name"], msgs[0][:70]), "%s::%s: %s" % (fn.get("cls"), fn["name"], "; ".join(msgs)))


CASTS = ("ImplicitCastExpr", "CXXStaticCastExpr", "CStyleCastExpr", "CXXFunctionalCastExpr", "MaterializeTemporaryExpr", "ParenExpr", "ExprWithCleanups", "ConstantExpr")


def _site_axis_prefix(n):
    """(axis, grid prefix) of a quantisation site from the min field it subtracts: ('x', 'grid_.') / ('x', '')"""
    for x in walk(n):
        if x.get("k") == "MemberExpr" and x["ref"].get("dk") == "Field" and x["ref"]["name"] in QUANT_FIELDS:
            base = x["c"][0] if x.get("c") else None
            pre = "" if base is None or strip(base).get("k") == "CXXThisExpr" else render(base) + "."
            return QUANT_FIELDS[x["ref"]["name"]], pre
    return None, None


def _semantic_clamp(prog, fn, fi, n, axis, prefix):
    """Is the value in which the quantisation n ends (the largest expression around it, through casts / conditionals / min) of the
    form min(<something containing the quantisation>, nb_voxels_axis - 1)?  Decided on the symbolic value, so std::min, a
    conditional expression and an inlined helper with an if are all the same thing. Returns the top expression node or None."""
    top = n
    for p, slot, ch in fi.ancestors(n):
        k = p.get("k")
        if k in CASTS or k in ("ConditionalOperator", "BinaryOperator", "ParenExpr") or (k == "CallExpr" and p.get("callee") in ("std::min", "std::max")):
            if k == "BinaryOperator" and p.get("op") in ("=", ",", "+=", "-="):
                break
            top = p
            continue
        break
    if top is n:
        return None
    try:
        ev = S.SymEval(prog, fn)
        v = sp.sympify(ev.ev(top))
    except (S.Decline, TypeError, sp.SympifyError):
        return None
    if not isinstance(v, sp.Min):
        return None
    field = ("this." if not prefix else "this." + prefix) + "nb_voxels_%s_" % axis
    last = ev.sym(field) - 1
    for a in v.args:
        if sp.simplify(a - last) == 0 and any("floor" in str(o) for o in v.args if o is not a):
            return top
    return None


def _clamp_of(fi, n):
    """the std::min(...) call that directly limits the value of n (through casts only), with its other argument"""
    cur = n
    for p, slot, ch in fi.ancestors(n):
        if p.get("k") in CASTS:
            cur = p
            continue
        if p.get("k") == "CallExpr" and p.get("callee") == "std::min" and len(call_args(p)) == 2:
            a, b = call_args(p)
            other = b if any(x is cur or x is n for x in walk(a)) else a
            return p, other
        return p, None
    return None, None


def _is_last_voxel(expr, axis, prefix):
    e = strip(expr)
    if e.get("k") != "BinaryOperator" or e.get("op") != "-":
        return False
    l, r = strip(e["c"][0]), strip(e["c"][1])
    if r.get("k") != "IntegerLiteral" or r.get("v") != "1":
        return False
    if l.get("k") != "MemberExpr" or l["ref"].get("name") != "nb_voxels_%s_" % axis:
        return False
    base = l["c"][0] if l.get("c") else None
    pre = "" if base is None or strip(base).get("k") == "CXXThisExpr" else render(base) + "."
    return pre == prefix


def index_within_count(rep, prog):
    """D20: update_dimensions gives an axis ceil((max + eps - min)/size) voxels while coordinates are quantised with
    floor((p - (min - eps))/size): for p = max both are equal whenever the quotient is an integer. Every quantised coordinate must
    therefore be limited to nb_voxels - 1 (directly, or as the lower end of a range whose upper end is limited), or be a point
    that lies strictly inside the upper faces of the grid."""
    rule = "C20.index-within-count"
    for fn in prog.repo_functions():
        if not isinstance(fn.get("body"), dict):
            continue
        sites = list(quantisation_sites(fn))
        if not sites:
            continue
        fi = prog.index(fn)
        clamped_vars = {}      # did -> axis of a variable initialised with a clamped quantisation
        pending = []
        for n in sites:
            axis, prefix = _site_axis_prefix(n)
            if axis is None:
                continue       # not a voxel quantisation of a grid with an origin field (reported by C20.quantisation)
            parent, other = _clamp_of(fi, n)
            if other is None:
                topx = _semantic_clamp(prog, fn, fi, n, axis, prefix)
                if topx is not None:
                    rep.ok(rule, prog, fn, n, "the value %s evaluates to min(floor(...), %snb_voxels_%s_ - 1): limited to the last voxel of axis %s" % (short(topx, 50), prefix, axis, axis))
                    for p, slot, ch in fi.ancestors(topx):
                        if p.get("k") in CASTS:
                            continue
                        if p.get("k") == "Var":
                            clamped_vars[p["did"]] = (axis, prefix)
                        break
                    continue
            if other is not None:
                from ..model import expand as _exp3
                if _is_last_voxel(other, axis, prefix) or _is_last_voxel(_exp3(fn, other), axis, prefix):
                    rep.ok(rule, prog, fn, n, "min(%s, %snb_voxels_%s_ - 1): limited to the last voxel of axis %s" % (short(n, 60), prefix, axis, axis))
                    for p, slot, ch in fi.ancestors(parent):
                        if p.get("k") in CASTS:
                            continue
                        if p.get("k") == "Var":
                            clamped_vars[p["did"]] = (axis, prefix)
                        break
                else:
                    rep.violation(rule, prog, fn, n, "quantised index limited by something else than the last voxel of its axis",
                                  "%s is limited by %s, expected %snb_voxels_%s_ - 1: a point of the upper face of axis %s of the grid still maps to a voxel index one past the end (or points are folded into the wrong voxel)" % (short(n, 70), render(other), prefix, axis, axis))
                continue
            pending.append((n, axis, prefix, parent))
        for n, axis, prefix, parent in pending:
            why = None
            if parent is not None and parent.get("k") == "Var":
                did = parent["did"]
                uses = [x for x in walk(fn["body"]) if x.get("k") == "DeclRefExpr" and x["ref"].get("did") == did]
                # (a) lower end of a range whose upper end is a limited index of the same axis
                as_lower = []
                for u in uses:
                    loop = None
                    for p, slot, ch in fi.ancestors(u):
                        if p.get("k") in CASTS:
                            continue
                        if p.get("k") == "Var" and any(l.get("k") == "ForStmt" and isinstance(l.get("init"), dict) and any(d is p for d in l["init"].get("decls", [])) for l, _s, _c in fi.ancestors(p)):
                            loop = next(l for l, _s, _c in fi.ancestors(p) if l.get("k") == "ForStmt")
                            loopvar = p
                        break
                    if loop is None:
                        as_lower = None
                        break
                    cond = strip(loop.get("cond") or {})
                    okc = False
                    if cond.get("k") == "BinaryOperator" and cond.get("op") in ("<=", "<"):
                        l_, r_ = strip(cond["c"][0]), strip(cond["c"][1])
                        if l_.get("k") == "DeclRefExpr" and l_["ref"].get("did") == loopvar["did"] and r_.get("k") == "DeclRefExpr" and clamped_vars.get(r_["ref"].get("did")) == (axis, prefix):
                            okc = True
                            stopname = r_["ref"]["name"]
                    if not okc:
                        as_lower = None
                        break
                    as_lower.append(stopname)
                if as_lower:
                    why = "used only as the first index of the range closed by %s, which is limited to the last voxel of axis %s" % (as_lower[0], axis)
            if why is None:
                # (b) coordinate of a mesh node looked up by a contact model: nodes lie aabb_padding_ > 0 inside the upper faces of
                # the grid (grid bounds = node extrema + padding, C06.padding-dominates; cut-offs <= 0 are rejected by parameter_reader)
                from ..model import expand_text as _et
                coord_txt = _et(fn, n)      # through (reference) locals that only name the position
                cls = fn.get("cls") or ""
                if re.search(r"\.pos\(\)\)?\.d[xyz]\(\)", coord_txt) and (cls.startswith("contact_") and prefix == "grid_."):
                    why = "position of a mesh node in a contact look-up: strictly inside the upper faces of the grid by the positive box padding (C06.padding-dominates)"
            if why:
                rep.ok(rule, prog, fn, n, why)
            else:
                rep.violation(rule, prog, fn, n, "quantised index not limited to the last voxel of its axis",
                              "%s in %s is used as a voxel index of axis %s without min(..., %snb_voxels_%s_ - 1): the grid has ceil((max + eps - min)/size) voxels per axis, so a point on the upper face of the declared box "
                              "(which the asserts of the grid accept) gets the index nb_voxels whenever the extent is a multiple of the voxel size - the voxel access is out of bounds" % (short(n, 80), fn["qn"], axis, prefix, axis))


def free_layer(rep, prog):
    rule = "C20.free-layer"
    try:
        fn = prog.fn("automatic_polarizer::update_grid_dimensions")
        ray = prog.fn("automatic_polarizer::get_region_in_contact_with_face")
    except (KeyError, AnalysisBroken):
        raise AnalysisBroken("automatic_polarizer::update_grid_dimensions / get_region_in_contact_with_face not found")
    # is the marching guarded?  indices obtained from get_3d_voxel_index, advanced by a compound assignment, compared with nothing
    stepped = set()
    for n in walk(ray["body"]):
        if n.get("k") == "CompoundAssignOperator" and n.get("op") in ("+=", "-="):
            l = strip(n["c"][0])
            if l.get("k") == "DeclRefExpr" and "int" in (l.get("t") or ""):
                stepped.add(l["ref"].get("did"))
    guarded = set()
    for n in walk(ray["body"]):
        if n.get("k") == "BinaryOperator" and n.get("op") in ("<", "<=", ">", ">=", "==", "!="):
            for x in walk(n):
                if x.get("k") == "DeclRefExpr" and x["ref"].get("did") in stepped:
                    guarded.add(x["ref"]["did"])
    if not stepped:
        raise AnalysisBroken("%s: the ray marching no longer advances voxel indices by compound assignment" % prog.loc(ray))
    unguarded = stepped - guarded
    ev = S.SymEval(prog, fn)
    ctor = None
    for st in fn["body"].get("c", []):
        cs = [n for n in walk(st) if n.get("k") in ("CXXConstructExpr", "CXXTemporaryObjectExpr") and (n.get("t") or "").startswith("uspg_3d") and len(n.get("c", [])) >= 7]
        if cs:
            ctor = cs[0]
            break
        try:
            ev.exec_stmt(st)
        except S.Decline:
            ev.havoc(st)
    if ctor is None:
        raise AnalysisBroken("%s: construction of the uspg_3d region grid not found" % prog.loc(fn))
    args = ctor["c"]
    try:
        vs = sp.sympify(ev.ev(args[6]))
        vals = [sp.expand(sp.sympify(ev.ev(a))) for a in args[:6]]
    except S.Decline as e:
        raise AnalysisBroken("%s: %s" % (prog.loc(fn, ctor), e))
    for i, v in enumerate(vals):
        axis = "xyz"[i % 3]
        side = "lower" if i < 3 else "upper"
        if not unguarded:
            rep.ok(rule, prog, fn, args[i], "%s bound of axis %s: the ray marching tests its indices, no margin needed" % (side, axis))
            continue
        c = v.coeff(vs) if vs.is_Symbol else None
        rest = sp.expand(v - c * vs) if c is not None else None
        good = c is not None and c.is_number and rest is not None and len(rest.free_symbols) == 1 and rest.is_Symbol and ((i < 3 and c <= -2) or (i >= 3 and c >= 2))
        if good:
            rep.ok(rule, prog, fn, args[i], "%s bound of axis %s = node extremum %s %s*voxel size" % (side, axis, "-" if i < 3 else "+", abs(c)))
        else:
            rep.violation(rule, prog, fn, args[i], "region grid: %s margin of axis %s is less than two voxels" % (side, axis),
                          "%s passes %s as the %s bound of axis %s of the region grid (voxel size %s): get_region_in_contact_with_face steps from the voxel of a node to the next voxel without a bounds test "
                          "(%s), and the grid has ceil(extent/size) voxels, so with less than two voxel sizes of margin the outermost nodes lie in the last layer whenever the extent is a multiple of the voxel size: "
                          "the ray leaves the grid (assertion / out-of-bounds read of voxel_lst_)" % (fn["qn"], clean(v), side, axis, clean(vs), prog.loc(ray)))


def extent_covers_placed(rep, prog):
    rule = "C20.extent-covers-placed"
    ext = prog.fn("automatic_polarizer::update_grid_dimensions")
    plc = prog.fn("automatic_polarizer::mark_boundary_voxels")
    fe, fp = prog.index(ext), prog.index(plc)
    places = [n for n in walk(plc["body"]) if n.get("k") == "CXXMemberCallExpr" and n.get("callee", "").endswith("::place_object")]
    if len(places) != 1:
        raise AnalysisBroken("mark_boundary_voxels: expected one place_object call")
    def source(fi, n):
        """(texts of the enclosing range-for ranges, innermost first; texts of the enclosing if conditions); loop variables are
        replaced by $1, $2, ... (outermost first) so that their names do not matter"""
        ranges, conds, lvars = [], [], []
        for p_, slot, ch in fi.ancestors(n):
            if p_.get("k") == "CXXForRangeStmt":
                lvars.append(p_["var"]["name"])
        lvars.reverse()
        def norm(t):
            for i_, v_ in enumerate(lvars):
                t = re.sub(r"(?<![A-Za-z0-9_])%s(#\d+)?(?![A-Za-z0-9_])" % re.escape(v_), "$%d" % (i_ + 1), t)
            return t.replace(" ", "")
        source.norm = norm
        for p_, slot, ch in fi.ancestors(n):
            if p_.get("k") == "CXXForRangeStmt":
                ranges.append(norm(render(p_["range"])))
                continue
            if p_.get("k") == "IfStmt":
                conds.append(norm(render(p_["cond"])))
                continue
            if p_.get("k") in ("ForStmt", "WhileStmt"):
                ranges.append("<index loop %s>" % norm(render(p_.get("cond") or {})))
                continue
        return ranges, conds
        for p_, slot, ch in fi.ancestors(n):
            if p_.get("k") == "CXXForRangeStmt":
                ranges.append(render(p_["range"]).replace(" ", ""))
            elif p_.get("k") == "IfStmt":
                conds.append(render(p_["cond"]).replace(" ", ""))
            elif p_.get("k") in ("ForStmt", "WhileStmt"):
                ranges.append("<index loop %s>" % render(p_.get("cond") or {}).replace(" ", ""))
        return ranges, conds
    p_ranges, p_conds = source(fp, places[0])
    arg = source.norm(render(call_args(places[0])[-1]))
    # the six arguments of the grid constructor, traced back to the running extrema
    ctor = [n for n in walk(ext["body"]) if n.get("k") in ("CXXConstructExpr", "CXXTemporaryObjectExpr") and (n.get("t") or "").startswith("uspg_3d") and len(n.get("c", [])) >= 7]
    if not ctor:
        raise AnalysisBroken("update_grid_dimensions: grid construction not found")
    for i, a in enumerate(ctor[0]["c"][:6]):
        a = strip(a)
        axis, side = "xyz"[i % 3], ("lower" if i < 3 else "upper")
        if a.get("k") != "DeclRefExpr":
            raise AnalysisBroken("%s: bound %d of the region grid is not a local variable" % (prog.loc(ext, a), i))
        did = a["ref"]["did"]
        updates = [n for n in walk(ext["body"]) if n.get("k") in ("BinaryOperator",) and n.get("op") == "=" and strip(n["c"][0]).get("k") == "DeclRefExpr" and strip(n["c"][0])["ref"].get("did") == did
                   and fe.enclosing(n, ("CXXForRangeStmt", "ForStmt", "WhileStmt")) is not None]
        why = None
        # the extent taken from cell::get_aabb() of every cell (the extrema over the USED nodes of the cell, C12.aabb) covers the
        # points placed when only used nodes are placed
        from ..model import def_chain as _dc, facts_at as _fa
        via_aabb = [u_ for u_ in updates if any(is_call(x) and x.get("callee") == "cell::get_aabb" for d_ in _dc(ext, u_["c"][1], depth=4) for x in walk(d_))]
        placed_used_only = any(a_.get("k") == "CXXMemberCallExpr" and a_.get("callee") == "node::is_used" and t_ for a_, t_ in _fa(plc, fp, places[0]))
        if updates and len(via_aabb) == len(updates) and placed_used_only:
            u = updates[0]
            ranges, conds = source(fe, u)
            if ranges and ranges[-1] == p_ranges[-1] and not conds:
                rep.ok(rule, prog, ext, a, "%s bound of axis %s: merged from cell::get_aabb() of every cell of %s (extrema over the used nodes); only used nodes are placed" % (side, axis, p_ranges[-1]))
                continue
        if not updates:
            why = "it is not updated inside a loop over the points"
        else:
            u = updates[0]
            ranges, conds = source(fe, u)
            from ..model import expand_text as _et2
            rhs = source.norm(_et2(ext, u["c"][1]))       # through (reference) locals that only name the point
            tname = re.sub(r"#\d+", "", render(strip(u["c"][0])).replace(" ", ""))
            extra = [c for c in conds if tname not in re.sub(r"#\d+", "", c)]
            want_rhs = arg + ".d%s()" % axis
            if ranges != p_ranges:
                why = "it ranges over %s while mark_boundary_voxels places the points of %s" % (ranges or "nothing", p_ranges)
            elif extra != p_conds:
                why = "it only takes the points satisfying %s while mark_boundary_voxels places %s" % (extra, p_conds or "every point")
            elif want_rhs.replace("(", "").replace(")", "") not in rhs.replace("(", "").replace(")", "") or any((arg + ".d%s()" % o).replace("(", "").replace(")", "") in rhs.replace("(", "").replace(")", "") for o in "xyz" if o != axis):
                why = "it takes %s where the point placed is %s (axis %s)" % (rhs, arg, axis)
        if why is None:
            rep.ok(rule, prog, ext, a, "%s bound of axis %s: running extremum of %s.d%s() over %s" % (side, axis, arg, axis, " / ".join(p_ranges)))
        else:
            rep.violation(rule, prog, ext, a, "grid extent not taken over the points that are placed",
                          "update_grid_dimensions: the %s bound of axis %s (%s): %s. A point that is placed but was not used for the extent (e.g. a free node slot whose position was reset to the origin) lies outside "
                          "the declared box: assertion / out-of-range voxel index in place_object" % (side, axis, a["ref"]["name"], why))
