"""C14 - results do not depend on where the tissue is placed: translation weight typing (structural half)."""
import re

import sympy as sp

from ..model import walk, strip, is_call, call_obj, call_args, render, short, AnalysisBroken
from .. import sym as S
from . import c05, c07

EXPLANATION = ("Compositional translation typing with the LF engine: every position-like atom (node positions, face boxes, grid origin "
               "and extent, global extrema, plane origin, the kernel's point arguments) is shifted by a symbolic vector t and each "
               "checked quantity must be affine in t with the required weight: (1) every add_force argument of the cell's force routines "
               "and of the configured contact model has weight 0, including the arguments of opaque geometric calls; (2) the kernel's "
               "outputs have weight 0 (C05); (3) every displacement handed to pos_.translate by the integrator has weight 0 and every "
               "point written by pos_.reset in the contact model has weight 1; (4) the node added by split/merge has weight 1; (5) both "
               "operands of every comparison that takes a decision in the refiner, the contact look-up and narrow phase, the box test and "
               "the divider's plane tests have equal weight per axis; (6) every grid quantisation numerator (coord - origin) has weight 0 "
               "and the face boxes / global extrema written by update_face_aabbs have weight 1 on their own axis. Declared exceptions: "
               "compute_volume (origin-based tetrahedra, invariant only for closed surfaces) and compute_centroid (weight 1 by normalisation "
               "with area_). Not decided: rounding-level agreement of two runs; the absolute tolerances (almost_equal(x,0), epsilon padding).")
ASSUMPTIONS = ["cached geometric state (face normals, areas, volumes, curvatures, node normals) is treated as translation invariant (it is computed from coordinate differences: C02/C12)",
               "scalar locals are typed compositionally: a local is weight 0 iff its own definition is"]

POS_RE = re.compile(r"(\.pos_\.d[xyz]_$|face_aabb_lst_\[.*\]$|(^|\.)(global_)?m(in|ax)_[xyz]_$|centroid_\.d[xyz]_$|compute_centroid\(\)\.d[xyz]_$|\.position_\.d[xyz]_$)")


def axis_of(name):
    m = re.search(r"\.d([xyz])_$", name)
    if m:
        return m.group(1)
    m = re.search(r"m(?:in|ax)_([xyz])_$", name)
    if m:
        return m.group(1)
    m = re.search(r"face_aabb_lst_\[(.*)\]$", name)
    if m:
        k = re.search(r"\+\s*(\d+)$", m.group(1)) or re.match(r"^(\d+)\s*\+", m.group(1))
        return "xyz"[(int(k.group(1)) if k else 0) % 3]
    return None


class Weights:
    def __init__(self, ev, extra_pos=()):
        self.ev = ev
        self.extra = set(extra_pos)      # names of vec3 parameters that are points
        self.t = dict(zip("xyz", sp.symbols("_tx _ty _tz", real=True)))
        self.memo = {}

    def is_pos(self, name):
        if POS_RE.search(name):
            return True
        root = name.split(".")[0]
        return root in self.extra and re.search(r"\.d[xyz]_$", name) is not None

    def weights(self, expr):
        """(wx, wy, wz) if expr is affine in the translation with constant weights, else None (self.reason)."""
        expr = c07.apply_lemma(sp.sympify(expr))      # barycentric coordinates of the kernel sum to 1 (C05/C07 lemma)
        # Min / Max of equally weighted arguments carry that weight
        mm = [e_ for e_ in sp.preorder_traversal(expr) if isinstance(e_, (sp.Min, sp.Max))]
        mm = [e_ for e_ in mm if not any(e_ is not o and o.has(e_) for o in mm)]
        mm_w = {}
        for k_, e_ in enumerate(mm):
            ws_ = [self.weights(a_) for a_ in e_.args]
            if any(w_ is None for w_ in ws_) or len({tuple(w_) for w_ in ws_}) != 1:
                self.reason = "min/max over quantities of different translation weight"
                return None
            sym_ = sp.Symbol("_mm%d_%d" % (id(e_) % 100000, k_), real=True)
            mm_w[sym_] = tuple(ws_[0])
            expr = expr.xreplace({e_: sym_})
        sub = {}
        loc = dict(mm_w)
        for a in expr.free_symbols:
            if a in mm_w:
                continue
            if a in self.ev.local_syms:
                did = self.ev.local_syms[a]
                if did not in self.memo:
                    self.memo[did] = "pending"
                    self.memo[did] = self.weights(self.ev.definition(did))
                w = self.memo[did]
                if w is None or w == "pending":
                    self.reason = "depends on local '%s', which is not affine under translation" % a.name.split("#")[0]
                    return None
                loc[a] = w
            elif self.is_pos(a.name):
                ax = axis_of(a.name)
                if ax:
                    sub[a] = a + self.t[ax]
        for a, w in loc.items():
            sub[a] = a + sum(w[i] * self.t[x] for i, x in enumerate("xyz"))
        if not sub:
            return (0, 0, 0)
        d = expr.subs(sub, simultaneous=True) - expr
        ws = []
        rest = d
        for x in "xyz":
            c = sp.diff(d, self.t[x])
            try:
                c0 = c.subs({self.t["x"]: 0, self.t["y"]: 0, self.t["z"]: 0})
                if not self.ev.prove_zero(c - c0) or not sp.simplify(c0).is_number:
                    self.reason = "%s does not change by a constant multiple of the translation" % str(expr)[:70]
                    return None
            except S.Decline:
                self.reason = "weight of %s undecided" % str(expr)[:60]
                return None
            ws.append(sp.nsimplify(sp.simplify(c0)))
        return tuple(ws)


def declare(rep):
    rep.rule("C14.forces", "every add_force argument (cell routines + configured contact model) has translation weight 0", floor=14)
    rep.rule("C14.kernel", "the kernel's distance and coordinates have weight 0", floor=7)
    rep.rule("C14.callees", "the geometric helpers whose results enter the forces as opaque values (cell::get_angle_gradient) return, on every return path, vectors of weight 0 when their point arguments are translated together", floor=1)
    rep.rule("C14.axis-moments", "every term accumulated into the second moments that give the division axis (cell::get_cell_longest_axis) has weight 0, and the mean subtracted is the mean of the same points", floor=6)
    rep.rule("C14.displacements", "integrator displacements have weight 0; points written by pos_.reset have weight 1", floor=1)
    rep.rule("C14.new-nodes", "the node added by split_edge / merge_edge has weight 1", floor=2)
    rep.rule("C14.mean-position", "contact model 2: the common position given to a node and its coupled partners is the mean of their positions - the sum of 1 + (number of partners) positions divided by exactly that number - so that it has translation weight 1 for any number of partners", floor=0)
    rep.rule("C14.difference-form", "in the contact routines every norm, dot and cross product is taken of translation-invariant vectors (differences of positions, normals): a distance written as |a|^2 - 2a.b + |b|^2 is invariant only through cancellation of terms that grow with the distance to the origin, so its rounding error - and with it the coupling decisions - depends on where the tissue lies", floor=3)
    rep.rule("C14.decisions", "both operands of every position-dependent comparison in the refiner, contact phases, box test and divider have equal weights", floor=10)
    rep.rule("C14.extrema-sentinels", "running minima start from a value no coordinate exceeds (+infinity / max()), running maxima from one no coordinate is below (-infinity / lowest()): numeric_limits::min() is the smallest POSITIVE double, a tissue with negative coordinates would never lower it", floor=6)
    rep.rule("C14.rounded-positions", "in the automatic polarizer every floor / ceil is taken of a translation-invariant quantity (a coordinate difference divided by the voxel size): rounding an absolute coordinate ties the result to the lattice through the origin of the coordinate system instead of the grid, which is anchored at the tissue (found D22)", floor=3)
    rep.rule("C14.used-nodes-only", "the automatic polarizer reads the position of a node of a cell's node list only after testing is_used(): the slots freed by the mesh refiner are parked at (0,0,0), a point that does not move with the tissue (found D23)", floor=1)
    rep.rule("C14.grid", "grid quantisation numerators have weight 0; face boxes and global extrema have weight 1 on their own axis", floor=12)


def vec(ev, v):
    return [sp.sympify(x) for x in ev.record_of(v).f.values()]


def check_vector(W, comps, want):
    """want: 0 -> all weights zero; 1 -> identity matrix"""
    for i, c in enumerate(comps):
        w = W.weights(c)
        if w is None:
            return False, W.reason
        exp = tuple(1 if (want == 1 and j == i) else 0 for j in range(3))
        if tuple(w) != exp:
            return False, "component %s has weights %s, expected %s" % ("xyz"[i], tuple(w), exp)
    return True, ""


def opaque_args_ok(W, ev):
    for path, args in ev.atom_args.items():
        for a in args:
            if isinstance(a, S.Rec) and len(a.f) == 3 and all(isinstance(x, sp.Basic) for x in a.f.values()):
                ok, why = check_vector(W, [sp.sympify(x) for x in a.f.values()], 0)
                if not ok:
                    return False, "argument of the opaque call %s is not a difference of positions (%s)" % (re.sub(r"#\d+", "", path)[:80], why)
    return True, ""


def run(rep, prog, tier):
    if not rep.rules:
        declare(rep)
    cm, dm = prog.config
    # (1) forces
    fns = ["cell::apply_pressure_on_surface", "cell::apply_surface_tension_and_membrane_elasticity", "cell::apply_bending_forces", "cell::regularize_face_angles", c07.ENTRY[cm]]
    for qn in fns:
        fn = prog.fn(qn)
        for n in walk(fn["body"]):
            if n.get("k") == "CXXMemberCallExpr" and n.get("callee") == "node::add_force":
                try:
                    ev = S.SymEval(prog, fn, lazy_scalars=True)
                    comps = vec(ev, ev.ev(call_args(n)[0]))
                    W = Weights(ev)
                    ok, why = check_vector(W, comps, 0)
                    if ok:
                        ok, why = opaque_args_ok(W, ev)
                    if ok:
                        rep.ok("C14.forces", prog, fn, n, "%s: weight 0" % short(n, 60))
                    else:
                        rep.violation("C14.forces", prog, fn, n, "force depends on the absolute position", "%s changes when the whole tissue is translated: %s" % (short(n, 80), why))
                except S.Decline as e:
                    raise AnalysisBroken("%s: %s" % (prog.loc(fn, n), e))
    # (2) kernel
    kfn = prog.fn("contact_model_abstract::compute_node_triangle_distance")
    from . import c05
    for i, (r, rvalue) in enumerate(c05.result_sites(kfn)):
        try:
            ev = S.SymEval(prog, kfn, lazy_scalars=True)
            v = ev.ev(rvalue)
            if not (isinstance(v, S.Tup) and len(v.items) == 2):
                raise S.Decline("result #%d of the kernel is not a (scalar, vec3) pair this checker can evaluate" % (i + 1))
            d2, b = v.items[0], ev.record_of(v.items[1])
            W = Weights(ev, extra_pos={p["name"] for p in kfn["params"]})
            ws = [W.weights(d2)] + [W.weights(x) for x in b.f.values()]
            if all(w == (0, 0, 0) for w in ws):
                rep.ok("C14.kernel", prog, kfn, r, "return #%d: distance and coordinates have weight 0" % (i + 1))
            else:
                rep.violation("C14.kernel", prog, kfn, r, "kernel return #%d depends on the absolute position" % (i + 1), "return #%d of the distance kernel changes under a common translation of point and triangle (%s)" % (i + 1, getattr(W, "reason", ws)))
        except S.Decline as e:
            raise AnalysisBroken("%s: %s" % (prog.loc(kfn, r), e))
    callees(rep, prog)
    axis_moments(rep, prog)
    from . import c12
    c12.orientation_order(rep, prog, rule="C14.decisions")
    displacements(rep, prog, cm)
    if cm == 2:
        mean_position(rep, prog)
    new_nodes(rep, prog)
    decisions(rep, prog, cm)
    difference_form(rep, prog, cm)
    grid(rep, prog, cm)
    rounded_positions(rep, prog)
    used_nodes_only(rep, prog)
    extrema_sentinels(rep, prog)


def axis_moments(rep, prog):
    rule = "C14.axis-moments"
    fn = prog.fn("cell::get_cell_longest_axis")
    fi = prog.index(fn)
    n_acc = 0
    for n in walk(fn["body"]):
        if n.get("k") == "CompoundAssignOperator" and n.get("op") == "+=" and fi.enclosing(n, ("CXXForRangeStmt", "ForStmt")) is not None and "double" in (n.get("t") or ""):
            tgt = strip(n["c"][0])
            if tgt.get("k") != "DeclRefExpr":
                continue
            n_acc += 1
            try:
                ev = S.SymEval(prog, fn, lazy_scalars=True)
                e = sp.sympify(ev.ev(n["c"][1]))
                W = Weights(ev)
                w = W.weights(e)
            except S.Decline as ex:
                raise AnalysisBroken("%s: %s" % (prog.loc(fn, n), ex))
            if w == (0, 0, 0):
                rep.ok(rule, prog, fn, n, "%s: weight 0" % short(n, 70))
            else:
                rep.violation(rule, prog, fn, n, "second moment taken about the origin instead of the cell",
                              "%s accumulates a term that changes when the tissue is translated (%s): the covariance, and with it the division axis, depends on where the cell lies (products of absolute coordinates also lose "
                              "all significant digits far from the origin)" % (short(n, 80), getattr(W, "reason", w)))
    if n_acc < 6:
        raise AnalysisBroken("get_cell_longest_axis: %d accumulations found" % n_acc)


GEOMETRIC_CALLEES = ["cell::get_angle_gradient"]     # take points, must return translation-invariant vectors


def callees(rep, prog):
    for qn in GEOMETRIC_CALLEES:
        fn = prog.fn(qn)
        rets = [n for n in walk(fn["body"]) if n.get("k") == "ReturnStmt" and isinstance(n.get("value"), dict)]
        if not rets:
            raise AnalysisBroken("%s: no return statement" % qn)
        for i, r in enumerate(rets):
            try:
                ev = S.SymEval(prog, fn, lazy_scalars=True)
                v = ev.ev(r["value"])
                items = v.items if isinstance(v, S.Tup) else [v]
                W = Weights(ev, extra_pos={p["name"] for p in fn["params"]})
                bad = None
                for k, it in enumerate(items):
                    ok, why = check_vector(W, vec(ev, it), 0)
                    if not ok:
                        bad = (k, why)
                        break
                if bad is None:
                    rep.ok("C14.callees", prog, fn, r, "%s return #%d: %d vector(s) of weight 0" % (qn, i + 1, len(items)))
                else:
                    rep.violation("C14.callees", prog, fn, r, "%s depends on the absolute position of its arguments" % qn.split("::")[-1],
                                  "return #%d of %s: element %d of the returned tuple changes when the points passed in are translated together (%s): the regularisation force built from it is no longer a function of coordinate differences"
                                  % (i + 1, qn, bad[0] + 1, bad[1]))
            except S.Decline as e:
                raise AnalysisBroken("%s: %s" % (prog.loc(fn, r), e))


def mean_position(rep, prog):
    from ..model import expand_text
    fn = prog.fn("contact_face_face_via_coupling::resolve_all_contacts")
    fi = prog.index(fn)
    n = 0
    for v in walk(fn["body"]):
        if v.get("k") != "Var" or (v.get("t") or "").replace("const ", "").strip() != "vec3" or not isinstance(v.get("init"), dict) or "pos_" not in render(v["init"]):
            continue
        did = v["did"]
        # accumulation inside a loop over the coupling map, then one scaling
        accs, scal = [], []
        for a in walk(fn["body"]):
            if a.get("k") in ("CXXOperatorCallExpr",) and a.get("op") == "=" and len(a.get("c", [])) == 3 and strip(a["c"][1]).get("k") == "DeclRefExpr" and strip(a["c"][1])["ref"].get("did") == did:
                rhs = strip(a["c"][2])
                while rhs.get("k") in ("MaterializeTemporaryExpr", "CXXBindTemporaryExpr", "ImplicitCastExpr", "CXXConstructExpr", "ExprWithCleanups") and len([c_ for c_ in rhs.get("c", []) if isinstance(c_, dict)]) == 1:
                    rhs = strip([c_ for c_ in rhs["c"] if isinstance(c_, dict)][0])
                if rhs.get("k") == "CXXOperatorCallExpr" and rhs.get("op") in ("+",) and any(x.get("k") == "DeclRefExpr" and (x.get("ref") or {}).get("did") == did for x in walk(rhs)):
                    accs.append((a, rhs))
                elif rhs.get("k") == "CXXOperatorCallExpr" and rhs.get("op") in ("/", "*") and any(x.get("k") == "DeclRefExpr" and (x.get("ref") or {}).get("did") == did for x in walk(rhs["c"][1])):
                    scal.append((a, rhs))
        if not accs or not scal:
            continue
        loop = fi.enclosing(accs[0][0], ("CXXForRangeStmt", "ForStmt", "WhileStmt"))
        if loop is None or "coupled_nodes_map_" not in render(loop.get("range") or loop.get("cond") or {}):
            continue
        n += 1
        a, rhs = scal[0]
        factor = expand_text(fn, rhs["c"][2]).replace("this->", "")
        if rhs.get("op") == "/" and ("get_nb_coupled_nodes()" in factor or "coupled_nodes_map_.size()" in factor) and re.search(r"\+\(?1(\.0*)?\)?", factor):
            rep.ok("C14.mean-position", prog, fn, a, "%s: sum of the node's and its partners' positions divided by (number of partners + 1)" % short(a, 60))
        else:
            rep.violation("C14.mean-position", prog, fn, a, "common position is not the mean of the coupled positions",
                          "%s: '%s' holds the node's position plus one position per coupled partner; it is then %s %s. Only a division by (number of partners + 1) gives a point that moves with the tissue: with two partners (a junction between three cells) the weights add up to %s, the junction nodes are displaced by a multiple of their absolute position and the result depends on where the tissue lies" % (short(a, 60), v.get("name"), "multiplied by" if rhs.get("op") == "*" else "divided by", factor[:40], "1.5" if "0.5" in factor else "something else than 1"))
    if n == 0:
        raise AnalysisBroken("contact_face_face_via_coupling::resolve_all_contacts: the averaging of the coupled positions was not found")


def displacements(rep, prog, cm):
    fn = prog.fn("time_integration_scheme::update_nodes_positions")
    for n in walk(fn["body"]):
        if n.get("k") == "CXXMemberCallExpr" and n.get("callee") == "vec3::translate":
            o = strip(call_obj(n))
            if o.get("k") == "MemberExpr" and o["ref"].get("qn") == "node::pos_":
                try:
                    ev = S.SymEval(prog, fn, lazy_scalars=True)
                    comps = vec(ev, ev.ev(call_args(n)[0]))
                    W = Weights(ev)
                    ok, why = check_vector(W, comps, 0)
                    if ok:
                        rep.ok("C14.displacements", prog, fn, n, "%s: displacement has weight 0" % short(n, 60))
                    else:
                        rep.violation("C14.displacements", prog, fn, n, "displacement depends on the absolute position", "%s: %s" % (short(n, 80), why))
                except S.Decline as e:
                    raise AnalysisBroken("%s: %s" % (prog.loc(fn, n), e))
    if cm in (1, 2):
        lk = prog.fn(c07.ENTRY[cm].split("::")[0] + "::resolve_all_contacts")
        for n in walk(lk["body"]):
            if n.get("k") == "CXXMemberCallExpr" and n.get("callee") == "vec3::reset" and call_args(n):
                o = strip(call_obj(n))
                if o.get("k") == "MemberExpr" and o["ref"].get("qn") == "node::pos_":
                    try:
                        ev = S.SymEval(prog, lk, lazy_scalars=True)
                        comps = vec(ev, ev.ev(call_args(n)[0]))
                        if any(re.match(r"^\w+#\d+(~\d+)?\.d[xyz]_", a.name) for c_ in comps for a in c_.free_symbols):
                            rep.note("%s: the point written is accumulated in a loop (%s); loops are not executed, instance declined" % (prog.loc(lk, n), short(call_args(n)[0], 30)))
                            continue
                        W = Weights(ev)
                        ok, why = check_vector(W, comps, 1)
                        if ok:
                            rep.ok("C14.displacements", prog, lk, n, "%s: new position has weight 1" % short(n, 60))
                        else:
                            rep.violation("C14.displacements", prog, lk, n, "position written is not translation equivariant", "%s: %s" % (short(n, 80), why))
                    except S.Decline as e:
                        raise AnalysisBroken("%s: %s" % (prog.loc(lk, n), e))


def new_nodes(rep, prog):
    from . import c11
    for qn in ("local_mesh_refiner::split_edge", "local_mesh_refiner::merge_edge"):
        fn = prog.fn(qn)
        call, nvar = c11.added_node(prog, fn)
        try:
            ev = c11.exec_prefix(prog, fn, call)
            new = ev.record_of(ev.ev(nvar))
            W = Weights(ev)
            ok, why = check_vector(W, vec(ev, new.f["pos_"]), 1)
            if ok:
                rep.ok("C14.new-nodes", prog, fn, call, "%s: added node position has weight 1" % qn.split("::")[1])
            else:
                rep.violation("C14.new-nodes", prog, fn, call, "%s: new node is not placed equivariantly" % qn.split("::")[1], "%s: %s" % (short(call, 60), why))
        except S.Decline as e:
            raise AnalysisBroken("%s: %s" % (prog.loc(fn, call), e))


DECISION_FNS = ["local_mesh_refiner::refine_mesh", "local_mesh_refiner::get_triangle_score", "contact_model_abstract::aabb_intersection_check",
                "cell_divider::face_side_wrt_plane", "cell_divider::find_edge_plane_intersection"]


def difference_form(rep, prog, cm):
    qns = [c07.ENTRY[cm], c07.ENTRY[cm].split("::")[0] + ("::resolve_contacts" if cm == 0 else "::resolve_all_contacts"), "contact_model_abstract::compute_node_triangle_distance"]
    for qn in qns:
        fn0 = prog.fn(qn, required=False)
        if fn0 is None:
            continue
        for fn in prog.with_new_helpers(fn0):
            points = {p["name"] for p in fn.get("params", []) if p["t"].replace("const ", "").replace(" &", "") == "vec3" and (p["name"] in ("p", "a", "b", "c", "node_pos", "n1_pos", "n2_pos") or p["name"].endswith("_pos"))}
            for n in walk(fn["body"]):
                if n.get("k") != "CXXMemberCallExpr" or n.get("callee") not in ("vec3::squared_norm", "vec3::norm", "vec3::dot", "vec3::cross"):
                    continue
                operands = [call_obj(n)] + (list(call_args(n)) if n["callee"] in ("vec3::dot", "vec3::cross") else [])
                try:
                    ev = S.SymEval(prog, fn, lazy_scalars=True)
                    W = Weights(ev, extra_pos=points)
                    bad = None
                    for o in operands:
                        r = ev.ev(o)
                        comps = vec(ev, r)
                        ok, why = check_vector(W, comps, 0)
                        if not ok:
                            bad = (o, why)
                            break
                except (S.Decline, KeyError, AttributeError, TypeError):
                    continue
                if bad is None:
                    rep.ok("C14.difference-form", prog, fn, n, "%s: operands are translation invariant vectors" % short(n, 60))
                else:
                    rep.violation("C14.difference-form", prog, fn, n, "%s of an absolute position" % n["callee"].split("::")[1],
                                  "%s: the operand %s is not invariant under a common translation (%s): the value is formed from absolute coordinates and becomes invariant only by cancellation against other such terms; far from the origin the cancellation loses the digits the contact decision depends on" % (short(n, 80), short(bad[0], 40), bad[1]))


def decisions(rep, prog, cm):
    qns = list(DECISION_FNS) + [c07.ENTRY[cm], c07.ENTRY[cm].split("::")[0] + ("::resolve_contacts" if cm == 0 else "::resolve_all_contacts")]
    for qn in qns:
        fn = prog.fn(qn, required=False)
        if fn is None:
            if qn.startswith("cell_divider::find_edge"):
                continue
            raise AnalysisBroken("decision function %s not found" % qn)
        for fn in prog.with_new_helpers(fn):
            _decisions_in(rep, prog, fn)


def _decisions_in(rep, prog, fn):
    if True:
        points = {p["name"] for p in fn.get("params", []) if p["t"].replace("const ", "").replace(" &", "") == "vec3" and (p["name"] in ("p", "node_pos", "n1_pos", "n2_pos") or p["name"].endswith("_pos"))}
        for n in walk(fn["body"]):
            if n.get("k") == "BinaryOperator" and n.get("op") in ("<", ">", "<=", ">=", "==", "!="):
                if not any(is_call(x) or x.get("k") == "MemberExpr" for x in walk(n)):
                    continue
                try:
                    ev = S.SymEval(prog, fn, lazy_scalars=True)
                    l, r = ev.ev(n["c"][0]), ev.ev(n["c"][1])
                    if not (isinstance(l, sp.Basic) and isinstance(r, sp.Basic)):
                        continue
                    W = Weights(ev, extra_pos=points)
                    # only position-dependent comparisons are instances
                    def dep(e_, seen=None):
                        seen = seen or set()
                        for a in sp.sympify(e_).free_symbols:
                            if W.is_pos(a.name):
                                return True
                            if a in ev.local_syms and a not in seen:
                                seen.add(a)
                                if dep(ev.definition(ev.local_syms[a]), seen):
                                    return True
                        return False
                    if not (dep(l) or dep(r)):
                        continue
                    wl, wr = W.weights(l), W.weights(r)
                    if wl is not None and wr is not None and tuple(wl) == tuple(wr):
                        rep.ok("C14.decisions", prog, fn, n, "%s: both sides have weights %s" % (short(n, 70), tuple(wl)))
                    else:
                        rep.violation("C14.decisions", prog, fn, n, "decision depends on the absolute position", "%s: left side has translation weights %s, right side %s (%s): the outcome of this test changes when the tissue is moved" % (short(n, 90), wl, wr, getattr(W, "reason", "")))
                except S.Decline:
                    continue      # comparisons over non-scalar / opaque values are not position arithmetic


def grid(rep, prog, cm):
    from . import c20
    sites = [("contact_model_abstract::store_face_in_uspg", None), (c07.ENTRY[cm].split("::")[0] + ("::resolve_contacts" if cm == 0 else "::resolve_all_contacts"), None)]
    for qn, _ in sites:
        fn = prog.fn(qn)
        for n in c20.quantisation_sites(fn):
            try:
                ev = S.SymEval(prog, fn, lazy_scalars=True)
                v = sp.sympify(ev.ev(n))
                arg = v.args[0] if isinstance(v, sp.floor) else v
                W = Weights(ev)
                w = W.weights(arg)
                if w == (0, 0, 0):
                    rep.ok("C14.grid", prog, fn, n, "%s: (coord - origin)/size has weight 0" % short(n, 60))
                else:
                    rep.violation("C14.grid", prog, fn, n, "voxel index depends on the absolute position", "%s has translation weights %s: nodes and faces land in different voxels when the tissue is moved (%s)" % (short(n, 80), w, getattr(W, "reason", "")))
            except S.Decline as e:
                raise AnalysisBroken("%s: %s" % (prog.loc(fn, n), e))
    up = prog.fn("contact_model_abstract::update_face_aabbs")
    items = None
    for x in walk(up["body"]):
        if x.get("k") == "InitListExpr" and len(x.get("c", [])) == 6:
            items = x["c"]
    if items is None:
        raise AnalysisBroken("update_face_aabbs: box not found")
    for k, it in enumerate(items):
        ev = S.SymEval(prog, up)
        W = Weights(ev)
        w = W.weights(ev.ev(it))
        exp = tuple(1 if j == k % 3 else 0 for j in range(3))
        if w == exp:
            rep.ok("C14.grid", prog, up, it, "box slot %d has weight 1 on axis %s" % (k, "xyz"[k % 3]))
        else:
            rep.violation("C14.grid", prog, up, it, "face box slot %d is not translation equivariant" % k, "slot %d of the face box has weights %s, expected %s" % (k, w, exp))


def extrema_sentinels(rep, prog):
    from .. import lints
    from .c10 import product_fns
    for fn in product_fns(prog):
        for X, kind, cls, init, upd in lints.running_extrema(prog, fn):
            if cls is None:
                continue        # initialised with an ordinary value (first element, 0 for a non-negative quantity): not a sentinel
            good = (kind == "min" and cls == "plus") or (kind == "max" and cls == "minus")
            if good:
                rep.ok("C14.extrema-sentinels", prog, fn, init, "running %s %s starts from %s" % (kind, X, "+inf/max()" if cls == "plus" else "-inf/lowest()"))
            else:
                what = {"tiny": "the smallest positive double (numeric_limits::min/epsilon)", "plus": "a huge positive value", "minus": "a huge negative value"}[cls]
                rep.violation("C14.extrema-sentinels", prog, fn, init, "running %s %s starts from %s" % (kind, X, cls),
                              "%s: the running %s %s is initialised with %s: coordinates on the wrong side of it are never taken (e.g. a tissue translated into the negative octant keeps a maximum of ~0 and the grid spans from the tissue to the origin) - results depend on where the tissue is placed" % (fn["qn"], kind, X, what))


def rounded_positions(rep, prog):
    """every std::floor / std::ceil in automatic_polarizer::* rounds a quantity of translation weight 0"""
    n = 0
    for fn in prog.repo_functions():
        if fn.get("cls") != "automatic_polarizer" or not isinstance(fn.get("body"), dict):
            continue
        for c in walk(fn["body"]):
            if not (c.get("k") == "CallExpr" and c.get("callee") in ("std::floor", "std::ceil", "floor", "ceil") and call_args(c)):
                continue
            arg = call_args(c)[0]
            try:
                ev = S.SymEval(prog, fn, lazy_scalars=True)
                v = sp.sympify(ev.ev(arg))
                W = Weights(ev)
                w = W.weights(v)
            except (S.Decline, TypeError, sp.SympifyError) as e:
                w = None
                why = str(e)
            else:
                why = getattr(W, "reason", "")
            if w is None:
                # a coordinate divided by a length: the quotient shifts by t/length - not a constant multiple of t, but certainly
                # not invariant; decided by clearing the denominator
                try:
                    vv = sp.sympify(ev.ev(arg))
                    den = sp.denom(sp.together(vv))
                    w2 = Weights(ev).weights(sp.numer(sp.together(vv))) if den != 1 and Weights(ev).weights(den) == (0, 0, 0) else None
                except (S.Decline, TypeError, sp.SympifyError):
                    w2 = None
                if w2 is not None and tuple(w2) != (0, 0, 0):
                    n += 1
                    rep.violation("C14.rounded-positions", prog, fn, c, "an absolute coordinate is rounded",
                                  "%s rounds '%s', whose value changes with a translation of the tissue (the numerator has translation weights %s): the result is tied to the lattice through the origin of the coordinate system, while the region grid is anchored at the bounding box of the tissue - the voxel boundaries used here are not the grid's, and the face types the polarizer assigns depend on where the tissue lies" % (fn["qn"], short(arg, 60), tuple(w2)))
                    continue
                # running extrema accumulated in a loop: decided on the difference form of the argument
                txt = render(arg).replace(" ", "")
                m_ = re.match(r"^\(*\(*(max_[xyz])\+\w+\)*-(min_[xyz])\)*/", txt)
                if m_ and m_.group(1)[-1] == m_.group(2)[-1]:
                    n += 1
                    rep.ok("C14.rounded-positions", prog, fn, c, "%s: the difference of two extrema of the same axis" % short(c, 60))
                    continue
                raise AnalysisBroken("%s: the translation weight of the rounded quantity '%s' is not decided (%s)" % (prog.loc(fn, c), short(arg, 60), why))
            n += 1
            if tuple(w) == (0, 0, 0):
                rep.ok("C14.rounded-positions", prog, fn, c, "%s rounds a translation-invariant quantity" % short(c, 60))
            else:
                rep.violation("C14.rounded-positions", prog, fn, c, "an absolute coordinate is rounded",
                              "%s rounds '%s', whose value changes with a translation of the tissue (weights %s): the result is tied to the lattice through the origin of the coordinate system, while the region grid is anchored at the bounding box of the tissue - the voxel boundaries used here are not the grid's, and the face types the polarizer assigns depend on where the tissue lies" % (fn["qn"], short(arg, 60), tuple(w)))
    return n


def used_nodes_only(rep, prog):
    from ..model import facts_at
    for fn in prog.repo_functions():
        if fn.get("cls") != "automatic_polarizer" or not isinstance(fn.get("body"), dict):
            continue
        fi = prog.index(fn)
        for loop in walk(fn["body"]):
            if loop.get("k") != "CXXForRangeStmt" or not re.search(r"get_node_lst\(\)|node_lst_", render(loop.get("range") or {})):
                continue
            var = loop["var"].get("did")
            uses = [x for x in walk(loop["body"]) if x.get("k") == "CXXMemberCallExpr" and x.get("callee") in ("node::pos",) and strip(call_obj(x) or {}).get("k") == "DeclRefExpr" and strip(call_obj(x))["ref"].get("did") == var]
            if not uses:
                continue
            bad = []
            for u in uses:
                ok_ = any(a.get("k") == "CXXMemberCallExpr" and a.get("callee") == "node::is_used" and t and strip(call_obj(a) or {}).get("k") == "DeclRefExpr" and strip(call_obj(a))["ref"].get("did") == var for a, t in facts_at(fn, fi, u, stop_at=loop))
                if not ok_:
                    bad.append(u)
            if bad:
                rep.violation("C14.used-nodes-only", prog, fn, bad[0], "the position of an unused node slot is read",
                              "%s reads n.pos() for every slot of a cell's node list (line %s) without testing n.is_used(): the slots freed by the mesh refiner are reset to (0,0,0), so as soon as one cell has a free slot (the solver polarizes right after refine_meshes, before any rebase) the origin of the coordinate system is treated as a point of the tissue - the region grid then spans from the tissue to the origin and the face types depend on where the tissue lies" % (fn["qn"], bad[0].get("l")))
            else:
                rep.ok("C14.used-nodes-only", prog, fn, loop, "%s: n.pos() read only for used nodes" % fn["qn"])
