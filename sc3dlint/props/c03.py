"""C03 - a time step follows the documented integration law (store summaries + flow rules)."""
import re

import sympy as sp

from ..model import flat_stmts, walk, strip, is_call, call_obj, call_args, render, short, always_exits, AnalysisBroken
from .. import sym as S
from .c10 import product_fns

LATENT_OPENMP = True
EXPLANATION = ("LF engine store summaries of the straight-line update blocks of time_integration_scheme::update_nodes_positions, in all "
               "six configurations: at every 'X.momentum_.translate(A)' the argument is (F_cur(X) - gamma*p_cur(X)/m)*dt, at every "
               "'X.pos_.translate(B)' it is p_cur(X)*dt/m after the momentum update (semi-implicit) resp. F_cur(X)*dt/gamma (overdamped), "
               "with gamma = damping_coeff_, dt = dt_ and m the node mass of X's own cell (the mean of both cells' node masses for a "
               "coupled pair); averaging resets preserve the pair's total momentum and force and give both nodes the same displacement; "
               "every advanced node ends the block with force zero; every position/momentum write is dominated by the owning cell's "
               "'is_static_ -> continue' test, couplings are only created between cells whose type id is tested to be 0 and only the "
               "ecm/static classes set is_static_; simulation_time_ has exactly one writer '+= dt_' outside every loop, and dt_/"
               "damping_coeff_ come from time_step_/damping_coefficient_. Not decided: behaviour over many steps, floating-point exactness.")
ASSUMPTIONS = ["loops are not executed: values accumulated in loops (CM 2 averages) are opaque atoms, only the per-node update forms are checked there",
               "cell::get_node_mass is opened from its own body"]

FIELDS = {"node::pos_": "pos_", "node::momentum_": "momentum_", "node::force_": "force_"}


def declare(rep):
    rep.rule("C03.momentum-law", "momentum_.translate argument == (F - gamma*p/m)*dt for the node's current F, p", floor=1)
    rep.rule("C03.position-law", "pos_.translate argument == p'*dt/m (after the momentum update) resp. F*dt/gamma", floor=1)
    rep.rule("C03.mass", "the mass in the law is the node mass of the node's own cell (mean of both cells for a coupled pair)", floor=1)
    rep.rule("C03.pair", "coupled pair: averaging resets preserve total momentum and force; both nodes get the same displacement", floor=0)
    rep.rule("C03.force-reset", "every node whose position is advanced ends the block with force_ == 0", floor=1)
    rep.rule("C03.static", "position/momentum writes are dominated by the owning cell's is_static_ test; couplings only between type-0 cells; only ecm/static classes set is_static_", floor=3)
    rep.rule("C03.group-owner", "contact model 2: a group of mutually coupled nodes is integrated by exactly one of its members - the node whose cell index is greater than EVERY key of its coupled_nodes_map_ (all_of over the whole map, or a comparison with its largest key)", floor=0)
    rep.rule("C03.time", "simulation_time_ has exactly one writer '+= dt_' outside every loop; dt_ and damping_coeff_ are wired to time_step_ and damping_coefficient_", floor=3)


def node_field_call(n):
    """(object expr of the node, field name, method) for X.<field>.translate/reset(...) calls."""
    if n.get("k") != "CXXMemberCallExpr":
        return None
    callee = n.get("callee", "")
    if callee not in ("vec3::translate", "vec3::reset"):
        return None
    o = strip(call_obj(n))
    if o.get("k") == "MemberExpr" and o["ref"].get("qn") in FIELDS:
        return (o["c"][0], FIELDS[o["ref"]["qn"]], callee.split("::")[1], o)
    return None


def vec(ev, v):
    r = ev.record_of(v)
    return [sp.sympify(x) for x in r.f.values()]


def run(rep, prog, tier):
    if not rep.rules:
        declare(rep)
    cm, dm = prog.config
    fn = prog.fn("time_integration_scheme::update_nodes_positions")
    fi = prog.index(fn)
    # update blocks = nearest CompoundStmt around each pos_.translate
    blocks = []
    for n in walk(fn["body"]):
        c = node_field_call(n)
        if c and c[1] == "pos_" and c[2] == "translate":
            b = fi.enclosing(n, ("CompoundStmt",))
            while b is not None and b.get("inlined_lambda"):
                b = fi.enclosing(b, ("CompoundStmt",))
            if b is not None and all(b is not x for x in blocks):
                blocks.append(b)
    if not blocks:
        raise AnalysisBroken("no position update found in update_nodes_positions")
    for blk in blocks:
        analyse_block(rep, prog, fn, fi, blk, cm, dm)
    static_rules(rep, prog, fn, fi, cm)
    time_rules(rep, prog, fn, fi)
    if cm == 2:
        group_owner(rep, prog, fn, fi)


def analyse_block(rep, prog, fn, fi, blk, cm, dm):
    ev = S.SymEval(prog, fn)
    gamma = sp.Symbol("this.damping_coeff_", real=True)
    dt = sp.Symbol("this.dt_", real=True)
    where = "block at line %s" % blk.get("l")
    advanced = {}     # node path -> displacement vector
    mom_updated = set()
    force_reset = set()
    group = {}        # 'F'/'P' -> opaque group-average vectors accepted in this block
    resets = {}       # field -> [(path, old, new)]
    masses = {}
    try:
        for s in flat_stmts(blk):
            e = strip(s)
            c = node_field_call(e) if e.get("k") == "CXXMemberCallExpr" else None
            if c:
                xexpr, field, meth, fexpr = c
                X = ev.ev(xexpr)
                if not isinstance(X, S.Lazy):
                    xs = strip(xexpr)
                    d = ev._var_decl(xs["ref"]["did"]) if xs.get("k") == "DeclRefExpr" and xs["ref"].get("dk") == "Var" else None
                    if isinstance(d, dict) and S.clean_type(d.get("t", "")) == "node" and not d.get("t", "").rstrip().endswith("&"):
                        rep.violation("C03.position-law", prog, fn, d, "node advanced through a by-value copy",
                                      "%s: '%s' (line %s) is a copy of the node (type %s, not a reference into the cell's node list): the %s update %s and every later write in this block "
                                      "act on the temporary, the node stored in the cell keeps its position, momentum and force" % (where, d.get("name"), d.get("l"), d.get("t"), field, short(e, 70)))
                        return
                    raise S.Decline("node designator is not an object")
                args = call_args(e)
                if meth == "translate":
                    if len(args) != 1:
                        raise S.Decline("translate with components")
                    A = vec(ev, ev.ev(args[0]))
                    F = vec(ev, ev.field(X, "force_", "vec3"))
                    if dm == 0:
                        P = vec(ev, ev.field(X, "momentum_", "vec3"))
                    avgs = opaque_vectors(ev, args[0])
                    if field == "momentum_":
                        # A == (F - gamma*P/m)*dt  -> solve m from the first component, verify all
                        m = solve_mass(lambda mm: [(F[i] - gamma * P[i] / mm) * dt - A[i] for i in range(3)])
                        if m is None:
                            # coupled group (CM 2): the law is applied to loop-accumulated averages, which are opaque here
                            for Fa in avgs:
                                for Pa in avgs:
                                    if Fa is Pa:
                                        continue
                                    m = solve_mass(lambda mm: [(Fa[1][i] - gamma * Pa[1][i] / mm) * dt - A[i] for i in range(3)])
                                    if m is not None:
                                        group["F"], group["P"] = Fa, Pa
                                        break
                                if m is not None:
                                    break
                        if m is None:
                            rep.violation("C03.momentum-law", prog, fn, e, "momentum update is not (F - gamma*p/m)*dt",
                                          "%s: %s does not have the form (force - damping*momentum/mass)*dt for the node's current force and momentum" % (where, short(e, 110)))
                        else:
                            rep.ok("C03.momentum-law", prog, fn, e, "%s: %s.momentum_ += (F - gamma*p/m)*dt, m = %s" % (where, clean(X.path), clean(str(m))[:80]))
                            masses.setdefault(X.path, []).append((e, m))
                        mom_updated.add(X.path)
                    elif field == "pos_":
                        if dm == 0:
                            m = solve_mass(lambda mm: [P[i] * dt / mm - A[i] for i in range(3)])
                            used_group = False
                            if m is None:
                                for Pa in avgs:
                                    m = solve_mass(lambda mm: [Pa[1][i] * dt / mm - A[i] for i in range(3)])
                                    if m is not None:
                                        used_group = Pa[0]
                                        break
                            if m is None:
                                rep.violation("C03.position-law", prog, fn, e, "position update is not p*dt/m",
                                              "%s: %s is not momentum*dt/mass for the node's current momentum" % (where, short(e, 110)))
                            else:
                                if used_group:
                                    rep.violation("C03.position-law", prog, fn, e, "position of %s advanced with the pre-update momentum %s" % (clean(render(xexpr)), clean(used_group)),
                                                  "%s: %s moves the node with '%s', the (average) momentum of BEFORE this step's momentum update; the documented semi-implicit scheme is momentum += (F - gamma*p/m)*dt first, then position += updated momentum*dt/mass (this is forward Euler in the position)" % (where, short(e, 110), clean(used_group)))
                                elif X.path not in mom_updated and not is_coupled_copy(ev, A, mom_updated):
                                    rep.violation("C03.position-law", prog, fn, e, "position advanced with the momentum of before the update",
                                                  "%s: %s moves the node with a momentum that has not been advanced in this step (semi-implicit Euler requires momentum += ... first, then position += updated momentum*dt/mass)" % (where, short(e, 110)))
                                else:
                                    rep.ok("C03.position-law", prog, fn, e, "%s: %s.pos_ += p'*dt/m (after the momentum update), m = %s" % (where, clean(X.path), clean(str(m))[:80]))
                                masses.setdefault(X.path, []).append((e, m))
                        else:
                            ok = all(S.zero(F[i] * dt / gamma - A[i]) for i in range(3))
                            if not ok:
                                # coupled group: loop-accumulated average force (opaque)
                                ok = any(all(S.zero(Fa[1][i] * dt / gamma - A[i]) for i in range(3)) for Fa in avgs)
                            if ok:
                                rep.ok("C03.position-law", prog, fn, e, "%s: %s.pos_ += F*dt/gamma" % (where, clean(X.path)))
                            else:
                                rep.violation("C03.position-law", prog, fn, e, "position update is not F*dt/gamma",
                                              "%s: %s is not force*dt/damping for the node's current force" % (where, short(e, 110)))
                        advanced[X.path] = A
                elif meth == "reset":
                    old = vec(ev, ev.field(X, field, "vec3"))
                    new = vec(ev, ev.ev(args[0])) if args else [sp.Integer(0)] * 3
                    if args:
                        resets.setdefault(field, []).append((X.path, old, new))
                    elif field == "force_" and X.path in advanced:
                        force_reset.add(X.path)
                ev.exec_stmt(s)
                continue
            k = s.get("k")
            if k in ("IfStmt", "ForStmt", "WhileStmt", "CXXForRangeStmt", "DoStmt", "SwitchStmt", "CXXTryStmt") or "omp" in s:
                # a nested block with its own position updates is analysed separately; here it is opaque
                ev.havoc(s)
                continue
            try:
                ev.exec_stmt(s)
            except S.Decline:
                ev.havoc(s)
        # force reset
        for path in advanced:
            if path in force_reset:
                rep.ok("C03.force-reset", prog, fn, blk, "%s: %s.force_ is zero at the end of the block" % (where, clean(path)))
            else:
                rep.violation("C03.force-reset", prog, fn, blk, "force accumulator not reset",
                              "%s: the position of %s is advanced but its force_ is not reset to zero by the end of the block: the force would be applied again in the next step" % (where, clean(path)))
        # masses
        for path, lst in masses.items():
            owner = owner_of(path)
            for (e, m) in lst:
                exp_own = expected_mass(ev, owner)
                cands = [("own cell", exp_own)]
                if len(advanced) == 2 or len(masses) == 2:
                    others = [owner_of(p) for p in masses if p != path]
                    if others and others[0] and exp_own is not None and expected_mass(ev, others[0]) is not None:
                        cands.append(("mean of both cells", (exp_own + expected_mass(ev, others[0])) / 2))
                hit = [nm for nm, ex in cands if ex is not None and S.zero(sp.sympify(m) - ex)]
                opaque = any(re.search(r"avg_node_mass", a.name) for a in sp.sympify(m).free_symbols)
                if hit and (len(cands) == 1 or hit[0] == "mean of both cells"):
                    rep.ok("C03.mass", prog, fn, e, "%s: mass of %s is the node mass of its %s" % (where, clean(path), hit[0]))
                elif opaque:
                    rep.ok("C03.mass", prog, fn, e, "%s: mass of %s is the loop-accumulated mean (opaque: accumulation loop not executed)" % (where, clean(path)))
                else:
                    rep.violation("C03.mass", prog, fn, e, "wrong mass in the integration law",
                                  "%s: %s uses mass %s, expected the node mass (cell mass / live nodes) of %s: %s" % (where, short(e, 90), clean(str(m))[:400], "the node's own cell" if len(cands) == 1 else "both cells (mean)", clean(str(cands[-1][1]))[:400]))
        # pair
        if len(advanced) == 2:
            (pa, A), (pb, B) = advanced.items()
            if all(S.zero(A[i] - B[i]) for i in range(3)):
                rep.ok("C03.pair", prog, fn, blk, "%s: both nodes of the pair receive the same displacement" % where)
            else:
                rep.violation("C03.pair", prog, fn, blk, "coupled nodes displaced differently", "%s: the two coupled nodes receive different displacements" % where)
            for field, lst in resets.items():
                if len(lst) >= 2:
                    tot_old = [sum(o[i] for _, o, _ in lst) for i in range(3)]
                    tot_new = [sum(nw[i] for _, _, nw in lst) for i in range(3)]
                    if all(S.zero(tot_old[i] - tot_new[i]) for i in range(3)):
                        rep.ok("C03.pair", prog, fn, blk, "%s: averaging of %s preserves the pair's total" % (where, field))
                    else:
                        rep.violation("C03.pair", prog, fn, blk, "averaging of %s changes the pair's total" % field, "%s: the reset of %s on the two coupled nodes does not preserve their sum" % (where, field))
    except S.Decline as e:
        raise AnalysisBroken("%s: update %s cannot be summarised: %s" % (prog.loc(fn, blk), where, e))


def opaque_vectors(ev, arg):
    """vec3-valued locals that the engine keeps opaque (assigned in loops) and that occur in arg."""
    out = []
    seen = set()
    for x in walk(arg):
        if x.get("k") == "DeclRefExpr" and x.get("t", "").replace("const ", "") == "vec3" and x["ref"].get("dk") == "Var":
            if x["ref"]["did"] in seen:
                continue
            seen.add(x["ref"]["did"])
            try:
                v = ev.ev(x)
                out.append((x["ref"]["name"], vec(ev, v)))
            except S.Decline:
                pass
    return out


def is_coupled_copy(ev, A, mom_updated):
    return False


def clean(s):
    return re.sub(r"#\d+", "", s)


def solve_mass(residual):
    """Find m such that residual(m) == 0 component-wise (m must be the same for the three components)."""
    m = sp.Symbol("_m", positive=True)
    res = residual(m)
    sol = None
    for r in res:
        r = sp.together(r)
        num = sp.numer(r)
        if num == 0:
            continue
        try:
            ss = sp.solve(num, m)
        except Exception:
            return None
        if len(ss) != 1:
            return None
        sol = ss[0]
        break
    if sol is None:
        return None
    if all(S.zero(r.subs(m, sol)) for r in res):
        return sp.simplify(sol)
    return None


def owner_of(path):
    """prefix of path before the top-level (bracket depth 0) '.node_lst_[' selector"""
    depth = 0
    best = None
    i = 0
    while i < len(path):
        ch = path[i]
        if ch in "[(":
            depth += 1
        elif ch in "])":
            depth -= 1
        elif depth == 0 and path.startswith(".node_lst_[", i):
            best = path[:i]
        i += 1
    return best


def expected_mass(ev, owner_path):
    """Reference from the documentation, NOT from the code under test: node mass = cell mass / live nodes =
    mass_density * volume / (slots - free slots).  (cell::get_node_mass is opened where the integrator uses it
    and compared against this independent form.)"""
    if owner_path is None:
        return None
    rho = ev.sym(owner_path + ".cell_type_.mass_density_")
    vol = ev.sym(owner_path + ".volume_")
    slots = ev.sym(owner_path + ".node_lst_.size()")
    free = ev.sym(owner_path + ".free_node_queue_.size()")
    return rho * vol / (slots - free)


def static_rules(rep, prog, fn, fi, cm):
    # (a) every pos_/momentum_ mutation is dominated by the loop's own cell being non-static
    n_sites = 0
    for n in walk(fn["body"]):
        c = node_field_call(n)
        if not c or c[1] not in ("pos_", "momentum_"):
            continue
        n_sites += 1
        ok = False
        for cond, pol in fi.guards(n):
            x = strip(cond)
            if x.get("k") == "MemberExpr" and x["ref"].get("qn") == "cell::is_static_" and not pol:
                ok = True
            if x.get("k") == "CXXMemberCallExpr" and x.get("callee") == "cell::is_static" and not pol:
                ok = True
        if ok:
            rep.ok("C03.static", prog, fn, n, "%s is dominated by 'if(c->is_static_) continue'" % short(n, 60))
        else:
            rep.violation("C03.static", prog, fn, n, "node moved without static test", "%s is not dominated by the owning cell's is_static_ test: nodes of static (ECM/static) cells could move" % short(n, 80))
    # (b) couplings only between type-0 cells
    if cm in (1, 2):
        qn = {1: "contact_node_node_via_coupling::resolve_contact", 2: "contact_face_face_via_coupling::resolve_contact"}[cm]
        rf = prog.fn(qn)
        ri = prog.index(rf)
        sites = [n for n in walk(rf["body"]) if n.get("k") == "CXXMemberCallExpr" and n.get("callee") == "node::set_coupled_node_and_min_distance"]
        if not sites:
            raise AnalysisBroken("no coupling site in %s" % qn)
        for n in sites:
            cells = set()
            for cond, pol in ri.guards(n):
                if not pol:
                    continue
                ops = {y.get("op") for y in walk(cond) if y.get("k") == "BinaryOperator" and y.get("op") in ("&&", "||")}
                if not ops <= {"&&"}:
                    continue
                for x in walk(cond):
                    if x.get("k") == "BinaryOperator" and x.get("op") == "==":
                        a, b = strip(x["c"][0]), strip(x["c"][1])
                        if a.get("callee") == "cell::get_cell_type_id" and b.get("k") == "IntegerLiteral" and int(b["v"]) == 0:
                            cells.add(render(call_obj(a)))
            if len(cells) >= 2:
                rep.ok("C03.static", prog, rf, n, "coupling created only when both cells have type id 0 (epithelial, never static)")
            else:
                rep.violation("C03.static", prog, rf, n, "coupling not restricted to type-0 cells", "a coupling can be created with a cell whose type is not tested to be 0: the integrator moves the partner node without a static test, so a static cell's node could move")
    # (c) who sets is_static_
    setters = set()
    for g in product_fns(prog):
        if not isinstance(g.get("body"), dict):
            continue
        for n in walk(g["body"]):
            if n.get("k") == "BinaryOperator" and n.get("op") == "=":
                l, r = strip(n["c"][0]), strip(n["c"][1])
                if l.get("k") == "MemberExpr" and l["ref"].get("qn") == "cell::is_static_" and not (r.get("k") == "CXXBoolLiteralExpr" and not r.get("v")):
                    setters.add(g.get("cls") or g["qn"])
    allowed = {"ecm_cell", "static_cell"}
    if setters <= allowed and setters:
        rep.ok("C03.static", prog, None, None, "is_static_ is set only by %s" % ", ".join(sorted(setters)))
    else:
        rep.violation("C03.static", prog, None, None, "is_static_ set by %s" % ",".join(sorted(setters - allowed)), "is_static_ is set outside the ecm/static cell classes (%s): such cells may be coupled to moving nodes" % sorted(setters - allowed))


def _source_text(fn):
    import os
    from ..extract import REPO
    try:
        return open(os.path.join(REPO, fn["file"])).read()
    except OSError:
        return ""


def time_rules(rep, prog, fn, fi):
    writers = []
    for g in product_fns(prog):
        if not isinstance(g.get("body"), dict) or g.get("ctor"):
            continue
        for n in walk(g["body"]):
            if n.get("k") in ("BinaryOperator", "CompoundAssignOperator", "UnaryOperator") and n.get("op") in ("=", "+=", "-=", "++", "--", "*="):
                l = strip(n["c"][0])
                if l.get("k") == "MemberExpr" and l["ref"].get("qn") == "time_integration_scheme::simulation_time_":
                    writers.append((g, n))
    if len(writers) == 1 and writers[0][0] is fn:
        n = writers[0][1]
        r = strip(n["c"][1]) if len(n["c"]) > 1 else {}
        in_loop = fi.enclosing(n, ("ForStmt", "WhileStmt", "CXXForRangeStmt", "DoStmt", "IfStmt", "LambdaExpr")) is not None
        top = fi.parent.get(id(n), (None, None))[0] is fn["body"] or fi.parent.get(id(fi.parent.get(id(n), (None, None))[0] or {}), (None, None))[0] is fn["body"]
        # executed by every thread of an enclosing parallel region unless a single/master construct intervenes
        per_thread = None
        for p_, _slot, _ch in fi.ancestors(n):
            o = p_.get("omp")
            if o and ("single" in o or "master" in o):
                break
            if o and "parallel" in o:
                per_thread = p_
                break
        latent = ""
        vprog = getattr(prog, "latent", None)
        if per_thread is None and vprog is not None:
            # the library of this unit is built without -fopenmp (its pragmas are ignored by the product build); what the pragmas
            # say is decided on the unit re-parsed with -fopenmp
            vfn = vprog.fn(fn["qn"])
            vfi = vprog.index(vfn)
            for vn in walk(vfn["body"]):
                if vn.get("k") in ("BinaryOperator", "CompoundAssignOperator", "UnaryOperator") and vn.get("op") in ("=", "+=", "-=", "++", "--", "*="):
                    vl = strip(vn["c"][0])
                    if vl.get("k") == "MemberExpr" and vl["ref"].get("qn") == "time_integration_scheme::simulation_time_":
                        for p_, _slot, _ch in vfi.ancestors(vn):
                            o = p_.get("omp")
                            if o and ("single" in o or "master" in o):
                                break
                            if o and "parallel" in o:
                                per_thread = p_
                                latent = " (as parsed with -fopenmp; the product's time_integration library is currently built without it, which hides the effect until OpenMP is enabled for this unit)"
                                break
        if per_thread is not None:
            rep.violation("C03.time", prog, fn, n, "simulation_time_ advanced once per thread",
                          "%s lies inside the '#pragma omp %s' region of line %s without a single/master construct: every thread of the team executes it (unsynchronised), "
                          "so one position update advances the simulated time by up to nb_threads*dt_%s" % (short(n, 60), per_thread.get("omp"), per_thread.get("l"), latent))
        elif n.get("op") == "+=" and r.get("k") == "MemberExpr" and r["ref"].get("qn") == "time_integration_scheme::dt_" and not in_loop:
            # ... on EVERY path: no condition around it and no return in front of it
            fi_ = prog.index(fn)
            from ..model import facts_at
            conds = facts_at(fn, fi_, n)
            early = [x for x in walk(fn["body"], into_lambdas=False) if x.get("k") == "ReturnStmt" and fi_.order[id(x)] < fi_.order[id(n)]]
            if conds or early:
                what = ("only when %s%s" % ("" if conds[0][1] else "not ", short(conds[0][0], 60))) if conds else ("not on the path that returns at line %s" % early[0].get("l"))
                rep.violation("C03.time", prog, fn, n, "simulation_time_ is not advanced on every path",
                              "update_nodes_positions advances the simulated time %s: on the other path a call leaves simulation_time_ unchanged, the clock freezes and solver::run (which loops while time < duration) never terminates / never writes the remaining files" % what)
            else:
                rep.ok("C03.time", prog, fn, n, "single writer: simulation_time_ += dt_ at the top level of update_nodes_positions")
        else:
            rep.violation("C03.time", prog, fn, n, "simulation_time_ not advanced by exactly dt_", "%s: one position update must advance the simulated time by exactly one time step, once" % short(n, 60))
    else:
        rep.violation("C03.time", prog, fn, writers[0][1] if writers else None, "%d writers of simulation_time_" % len(writers), "simulation_time_ has %d writers (%s); expected exactly one '+= dt_' in update_nodes_positions" % (len(writers), ", ".join(w[0]["qn"] for w in writers)))
    # wiring of dt_ and damping_coeff_
    ctors = [f for f in prog.fns("time_integration_scheme::time_integration_scheme") if f.get("params")]
    if len(ctors) != 1:
        raise AnalysisBroken("time_integration_scheme constructor not found")
    c = ctors[0]
    got = {}
    for i in c.get("inits", []):
        if i.get("member") and isinstance(i.get("init"), dict):
            got[i["name"]] = render(i["init"])
    for n in walk(c["body"]):
        if n.get("k") == "BinaryOperator" and n.get("op") == "=":
            l = strip(n["c"][0])
            if l.get("k") == "MemberExpr":
                got[l["ref"]["name"]] = render(n["c"][1])
    for field, src in (("dt_", "time_step_"), ("damping_coeff_", "damping_coefficient_")):
        g = got.get(field, "")
        if g.endswith("." + src) or g.endswith("->" + src):
            rep.ok("C03.time", prog, c, None, "%s initialised from %s" % (field, g))
        else:
            rep.violation("C03.time", prog, c, None, "%s wired to %s" % (field, g or "nothing"), "time_integration_scheme::%s must be initialised from the parameter %s, found '%s'" % (field, src, g))


def group_owner(rep, prog, fn, fi):
    """CM 2: the loops that integrate a coupled group run only for the member whose cell index exceeds every key of the map"""
    from ..model import facts_at, expand
    def head(l):
        if l.get("k") == "CXXForRangeStmt":
            return render(l.get("range") or {})
        i = l.get("init") or {}
        return " ".join(render(d_.get("init") or {}) for d_ in i.get("decls", []) if isinstance(d_, dict)) if i.get("k") == "DeclStmt" else render(i)
    loops = [l for l in walk(fn["body"]) if l.get("k") in ("ForStmt", "CXXForRangeStmt") and "coupled_nodes_map_" in head(l)]
    if not loops:
        raise AnalysisBroken("update_nodes_positions (contact model 2): no loop over coupled_nodes_map_ found")
    first = min(loops, key=lambda l: fi.order[id(l)])
    verdicts = []
    for atom, truth in facts_at(fn, fi, first):
        a = strip(atom)
        # x == false / x == true
        while a.get("k") == "BinaryOperator" and a.get("op") in ("==", "!=") and any(strip(c_).get("k") == "CXXBoolLiteralExpr" for c_ in a["c"]):
            lit = [strip(c_) for c_ in a["c"] if strip(c_).get("k") == "CXXBoolLiteralExpr"][0]
            other = [c_ for c_ in a["c"] if strip(c_).get("k") != "CXXBoolLiteralExpr"]
            if not other:
                break
            truth = truth if (bool(lit.get("v")) == (a["op"] == "==")) else (not truth)
            a = strip(expand(fn, other[0]))
            while a.get("k") in ("ParenExpr", "ExprWithCleanups") and a.get("c"):
                a = strip(a["c"][0])
        txt = render(a).replace(" ", "").replace("this->", "")
        if "coupled_nodes_map_" not in txt and not any(is_call(x) and x.get("callee", "").startswith("std::all_of") for x in walk(a)):
            continue
        if not truth:
            verdicts.append(("unknown", atom, "the group is integrated when '%s' does not hold" % short(atom, 60)))
            continue
        allof = [x for x in walk(a) if is_call(x) and x.get("callee", "").startswith("std::all_of") and len(call_args(x)) == 3]
        if allof:
            b_, e_, lam = call_args(allof[0])
            bt, et = render(b_).replace(" ", ""), render(e_).replace(" ", "")
            lams = [x for x in walk(lam) if x.get("k") == "LambdaExpr"]
            okr = bt.endswith("coupled_nodes_map_.begin()") and et.endswith("coupled_nodes_map_.end()") and bt[:-8] == et[:-6]
            okp = False
            if lams and lams[0].get("params"):
                pd = lams[0]["params"][0]["did"]
                rets = [r for r in walk(lams[0]["body"]) if r.get("k") == "ReturnStmt" and isinstance(r.get("value"), dict)]
                if len(rets) == 1:
                    g = strip(rets[0]["value"])
                    while g.get("k") in ("ParenExpr", "ExprWithCleanups") and g.get("c"):
                        g = strip(g["c"][0])
                    if g.get("k") == "BinaryOperator" and g.get("op") in (">", "<"):
                        big, small = (g["c"][0], g["c"][1]) if g["op"] == ">" else (g["c"][1], g["c"][0])
                        sm = strip(small)
                        first_of_param = (".first" in render(sm).replace(" ", "") or (sm.get("k") == "CXXDependentScopeMemberExpr" and sm.get("member") == "first")) and any(y.get("k") == "DeclRefExpr" and (y.get("ref") or {}).get("did") == pd for y in walk(sm))
                        okp = "get_local_id" in render(big) and first_of_param
            verdicts.append(("ok" if okr and okp else "unknown", atom, "std::all_of over the whole map with 'cell index > key'" if okr and okp else "an all_of whose range / predicate is not 'every key is smaller than the cell index'"))
        elif re.search(r"coupled_nodes_map_\.(c?rbegin\(\)|c?end\(\)\)?->first)", txt) is None and re.search(r"get_local_id\(\)>[\w.>()-]*coupled_nodes_map_\.c?begin\(\)->first", txt):
            verdicts.append(("bad", atom, "the cell index is compared with coupled_nodes_map_.begin()->first, the SMALLEST key of the ordered map"))
        elif re.search(r"get_local_id\(\)>[\w.>()-]*coupled_nodes_map_\.c?rbegin\(\)->first", txt) or re.search(r"get_local_id\(\)>std::prev\([\w.>()-]*coupled_nodes_map_\.c?end\(\)\)->first", txt):
            verdicts.append(("ok", atom, "the cell index is compared with the largest key (rbegin / prev(end)) of the ordered map"))
        else:
            verdicts.append(("unknown", atom, "'%s'" % short(atom, 70)))
    if any(v[0] == "bad" for v in verdicts):
        v = [v for v in verdicts if v[0] == "bad"][0]
        rep.violation("C03.group-owner", prog, fn, v[1], "group owner decided against the smallest key",
                      "update_nodes_positions (contact model 2) integrates the group of a coupled node when %s: with three or more mutually coupled nodes (a tri-cellular junction) every member except the one with the smallest index passes the test, so the group is integrated several times in one update - the nodes move by a multiple of the step and the damping is applied repeatedly" % v[2])
    elif any(v[0] == "ok" for v in verdicts):
        v = [v for v in verdicts if v[0] == "ok"][0]
        rep.ok("C03.group-owner", prog, fn, v[1], "the coupled group is integrated only by the member for which %s" % v[2])
    else:
        raise AnalysisBroken("update_nodes_positions (contact model 2): the condition under which a node integrates its coupled group is not in a form this checker decides (%s)" % "; ".join(v[2] for v in verdicts)[:200])
