"""C08 - cell identities and cross-references stay valid as the population changes (id-kind typing + flow rules)."""
import re

from .. import e1
from ..model import walk, strip, is_call, call_obj, call_args, render, short, always_exits, AnalysisBroken
from .c10 import product_fns

EXPLANATION = ("Qualifier inference (E4) over clang's resolved AST: every integer that designates something carries a kind - persistent cell id, "
               "cell list index, node index, face index, global face id, face-type index - declared once on the repository's getters and "
               "fields and propagated through locals, structured bindings, pairs, map iterators and loop counters. Decided in all six "
               "configurations: (1) no comparison, subscript, map key, coupling record or id/index setter mixes two kinds (allow-list: the "
               "solver constructor sets local id = id right after numbering both 0..n-1); (2) every statement of solver::run_iteration / "
               "cell_divider::run that changes the size or order of the population is followed on every path by the renumbering loop "
               "list[i]->set_local_id(i) before the function returns; (3) cell ids are only ever written from the post-incremented counter and "
               "the counter is never decremented or reassigned; (4) along solver::run_iteration every reader of the couplings runs after "
               "the contact model's reset of that iteration and no population change lies between the contact phase and those readers; "
               "(5) every literal face-type index written by a cell class is covered by the start-up validation of face_types_.size() for "
               "that class; (6) faces adopted or created by a cell get owner_cell_ = shared_from_this(). Not decided: liveness of the "
               "designated node at use time for arbitrary histories.")
ASSUMPTIONS = ["kinds of getters/fields are declared in a table in the checker (one line each); conversions between kinds are an explicit allow-list"]

PID, CIDX, NIDX, FIDX, FGID, FTYPE = "CELL_PID", "CELL_IDX", "NODE_IDX", "FACE_IDX", "FACE_GID", "FTYPE_IDX"

GETTERS = {
    "cell::get_id": PID, "cell::get_local_id": CIDX, "node::get_local_id": NIDX, "face::get_local_id": FIDX,
    "face::get_local_face_type_id": FTYPE, "face::n1_id": NIDX, "face::n2_id": NIDX, "face::n3_id": NIDX,
    "edge::n1": NIDX, "edge::n2": NIDX, "edge::f1": FIDX, "edge::f2": FIDX, "face::get_opposite_node": NIDX,
    "cell::create_node": NIDX, "cell::add_node": NIDX, "cell::create_face": FIDX, "cell::add_face": FIDX,
    "node::get_coupled_node": ("PAIR", CIDX, NIDX),
}
FIELDS = {
    "cell::cell_id_": PID, "cell::local_id_": CIDX, "node::node_id_": NIDX, "face::local_face_id_": FIDX,
    "face::global_face_id_": FGID, "face::type_id_": FTYPE, "face::n1_id_": NIDX, "face::n2_id_": NIDX, "face::n3_id_": NIDX,
    "node::coupled_node_": ("PAIR", CIDX, NIDX), "edge::n1_id_": NIDX, "edge::n2_id_": NIDX,
}
# parameters with a required kind: callee -> {param index: kind}
PARAM_KINDS = {
    "cell::set_local_id": {0: CIDX}, "cell::set_id": {0: PID},
    "cell::get_node": {0: NIDX}, "cell::get_const_ref_node": {0: NIDX}, "cell::get_face": {0: FIDX}, "cell::get_const_ref_face": {0: FIDX},
    "cell::get_face_type": {0: FIDX}, "cell::delete_node": {0: NIDX}, "cell::delete_face": {0: FIDX}, "cell::get_edge": {0: NIDX, 1: NIDX},
    "face::set_face_type_id": {0: FTYPE}, "node::set_local_id": {0: NIDX}, "face::set_local_id": {0: FIDX},
}
ALLOW = {
    ("solver::solver", "cell::set_local_id", PID): "ids were just assigned 0..n-1 in list order by the same loop (set_id(max_cell_id_++) over i): id == index at this point",
}
ELEM_KIND = [(re.compile(r"std::vector<std::shared_ptr<cell>"), CIDX), (re.compile(r"std::vector<node[,>]"), NIDX), (re.compile(r"std::vector<face[,>]"), FIDX),
             (re.compile(r"std::vector<face_type_parameters"), FTYPE)]


def declare(rep):
    rep.rule("C08.id-kinds", "no comparison, subscript, map key, coupling record or setter mixes two id kinds", floor=60)
    rep.rule("C08.coupling-lookup-present", "contact model 2: an inserting look-up N.coupled_nodes_map_[k] outside the contact model uses a key k that was drawn from the keys of N's own map (through the id vectors and their intersections): operator[] on an absent key silently inserts a coupling to node 0 of that cell", floor=0)
    rep.rule("C08.renumber-after-resize", "every change of the population in run_iteration / cell_divider::run is followed on every path by list[i]->set_local_id(i)", floor=2)
    rep.rule("C08.fresh-ids", "cell ids come only from the post-incremented counter, which is never decremented or reassigned", floor=3)
    rep.rule("C08.couplings-fresh", "readers of the couplings run after the contact model's reset of the same iteration, with no population change in between", floor=2)
    rep.rule("C08.face-type-range", "literal face-type indices written by a cell class are covered by the start-up validation of face_types_.size()", floor=1)
    rep.rule("C08.owner-cell", "faces adopted or created by a cell get owner_cell_ = shared_from_this()", floor=2)


class Kinds:
    def __init__(self, prog, fn):
        self.p, self.fn = prog, fn
        self.memo = {}
        self.decls = {}
        self.loopvars = {}
        # parameters whose kind is fixed by the function's contract (the same table the call sites are checked against)
        pk = dict(PARAM_KINDS.get(fn.get("qn", ""), {}))
        if fn.get("qn") == "node::set_coupled_node_and_min_distance":
            pk = {0: CIDX, 1: NIDX}
        if pk and fn.get("qn") != "node::set_coupled_node_and_min_distance" and len(fn.get("params", [])) != len(pk):
            pk = {}      # another overload (e.g. get_face(n1, n2, n3))
        for i_, p_ in enumerate(fn.get("params", [])):
            if i_ in pk and p_.get("did") is not None:
                self.memo[p_["did"]] = pk[i_]
        if isinstance(fn.get("body"), dict):
            for n in walk(fn["body"]):
                if n.get("k") in ("Var", "Decomposition") and "did" in n:
                    self.decls.setdefault(n["did"], n)
                    for i, b in enumerate(n.get("bindings", [])):
                        self.decls[b["did"]] = ("binding", n, i)
                if n.get("k") == "CXXForRangeStmt":
                    self.decls[n["var"]["did"]] = ("rangevar", n)
                if n.get("k") == "ForStmt" and isinstance(n.get("init"), dict) and isinstance(n.get("cond"), dict):
                    for d in walk(n["init"]):
                        if d.get("k") == "Var":
                            c = strip(n["cond"])
                            if c.get("k") == "BinaryOperator" and c.get("op") == "<":
                                r = strip(c["c"][1])
                                if r.get("k") == "CXXMemberCallExpr" and r.get("callee", "").endswith("::size"):
                                    t = strip(call_obj(r)).get("t", "")
                                    for rx, kind in ELEM_KIND:
                                        if rx.search(t):
                                            self.loopvars[d["did"]] = kind

    def kind(self, e, depth=0):
        if depth > 30:
            return None
        e = strip(e)
        k = e.get("k")
        if k in ("CXXStaticCastExpr", "CStyleCastExpr", "CXXFunctionalCastExpr") and e.get("c"):
            return self.kind(e["c"][0], depth + 1)
        if k == "CXXConstructExpr" and e.get("c") and len(e["c"]) == 1:
            return self.kind(e["c"][0], depth + 1)
        if k == "CXXMemberCallExpr":
            callee = e.get("callee", "")
            if callee in GETTERS:
                return GETTERS[callee]
            name = callee.split("::")[-1]
            o = call_obj(e)
            if name in ("value", "operator*") and o is not None:
                return self.kind(o, depth + 1)
            return None
        if k == "CXXOperatorCallExpr" and e.get("op") in ("*", "->") and len(e.get("c", [])) == 2:
            return self.kind(e["c"][1], depth + 1)
        if k == "CXXOperatorCallExpr" and e.get("op") == "[]" and len(e.get("c", [])) == 3:
            b = strip(e["c"][1])
            if b.get("k") == "MemberExpr" and b["ref"].get("qn") == "node::coupled_nodes_map_":
                return ("PAIR", NIDX, None)
            return None
        if k == "CallExpr" and e.get("callee") == "std::make_pair":
            a = call_args(e)
            return ("PAIR", self.kind(a[0], depth + 1), self.kind(a[1], depth + 1))
        if k == "MemberExpr":
            qn = e["ref"].get("qn", "")
            if qn in FIELDS:
                return FIELDS[qn]
            if e["ref"]["name"] in ("first", "second") and e.get("c"):
                b = self.kind(e["c"][0], depth + 1)
                if isinstance(b, tuple) and b[0] == "PAIR":
                    return b[1] if e["ref"]["name"] == "first" else b[2]
                if isinstance(b, tuple) and b[0] == "MAPENTRY":
                    return CIDX if e["ref"]["name"] == "first" else ("PAIR", NIDX, None)
            return None
        if k == "DeclRefExpr":
            did = e["ref"]["did"]
            if did in self.memo:
                return self.memo[did]
            self.memo[did] = None
            r = None
            if did in self.loopvars:
                r = self.loopvars[did]
            else:
                d = self.decls.get(did)
                if isinstance(d, tuple) and d[0] == "binding":
                    b = self.kind(d[1]["init"], depth + 1) if isinstance(d[1].get("init"), dict) else None
                    if isinstance(b, tuple) and b[0] == "PAIR":
                        r = b[1 + d[2]] if d[2] < 2 else None
                    elif isinstance(b, tuple) and b[0] == "MAPENTRY":
                        r = CIDX if d[2] == 0 else ("PAIR", NIDX, None)
                elif isinstance(d, tuple) and d[0] == "rangevar":
                    rng = strip(d[1]["range"])
                    if rng.get("k") == "MemberExpr" and rng["ref"].get("qn") == "node::coupled_nodes_map_":
                        r = ("MAPENTRY",)
                elif isinstance(d, dict) and isinstance(d.get("init"), dict):
                    it = strip(d["init"])
                    # iterator into coupled_nodes_map_
                    if "coupled_nodes_map_" in render(it) and "iterator" in d.get("t", ""):
                        r = ("MAPENTRY",)
                    else:
                        r = self.kind(it, depth + 1)
            self.memo[did] = r
            return r
        if k == "ConditionalOperator":
            a, b = self.kind(e["c"][1], depth + 1), self.kind(e["c"][2], depth + 1)
            return a if a == b else (a or b)
        if k == "UnaryOperator" and e.get("op") in ("++", "--") and e.get("c"):
            return None
        return None


def scalar(k):
    return k if isinstance(k, str) else None


def run(rep, prog, tier):
    if not rep.rules:
        declare(rep)
    id_kinds(rep, prog)
    renumber(rep, prog)
    fresh_ids(rep, prog)
    couplings_fresh(rep, prog)
    if prog.config[0] == 2:
        coupling_lookup_present(rep, prog)
    face_type_range(rep, prog)
    owner_cell(rep, prog)


def id_kinds(rep, prog):
    for fn in product_fns(prog):
        if not isinstance(fn.get("body"), dict):
            continue
        K = None
        for n in walk(fn["body"]):
            k = n.get("k")
            if k == "BinaryOperator" and n.get("op") in ("==", "!=", "<", ">", "<=", ">="):
                K = K or Kinds(prog, fn)
                a, b = scalar(K.kind(n["c"][0])), scalar(K.kind(n["c"][1]))
                if a and b:
                    if a == b:
                        rep.ok("C08.id-kinds", prog, fn, n, "%s: %s vs %s" % (short(n, 70), a, b))
                    else:
                        rep.violation("C08.id-kinds", prog, fn, n, "comparison of %s with %s" % (a, b),
                                      "%s compares a %s with a %s: the two numberings coincide only until the first division or removal of a cell" % (short(n, 90), a, b))
            elif k == "CXXOperatorCallExpr" and n.get("op") == "=" and len(n.get("c", [])) == 3:
                # a (node index, distance) record of the coupling map receives a pair: its first element must be a node index
                K = K or Kinds(prog, fn)
                rhs_ = strip(n["c"][2])
                while rhs_.get("k") in ("CXXConstructExpr", "MaterializeTemporaryExpr", "CXXBindTemporaryExpr", "ImplicitCastExpr", "ExprWithCleanups", "CXXFunctionalCastExpr") and len([c_ for c_ in rhs_.get("c", []) if isinstance(c_, dict)]) == 1:
                    rhs_ = strip([c_ for c_ in rhs_["c"] if isinstance(c_, dict)][0])
                lk, rk = K.kind(n["c"][1]), K.kind(rhs_)
                if isinstance(lk, tuple) and lk[0] == "PAIR" and isinstance(rk, tuple) and rk[0] == "PAIR" and lk[1] and scalar(rk[1]):
                    if scalar(rk[1]) == lk[1]:
                        rep.ok("C08.id-kinds", prog, fn, n, "%s: the stored pair starts with a %s" % (short(n, 60), lk[1]))
                    else:
                        rep.violation("C08.id-kinds", prog, fn, n, "coupling record receives a %s as its node index" % scalar(rk[1]),
                                      "%s stores a %s in the first element of a coupling record, which is read back as the index of the partner NODE in the partner cell's node list: the stored reference designates a foreign (or dead, or out-of-range) node slot" % (short(n, 90), scalar(rk[1])))
            elif k == "CXXOperatorCallExpr" and n.get("op") == "[]" and len(n.get("c", [])) == 3:
                cont = strip(n["c"][1])
                t = cont.get("t", "")
                want = None
                for rx, kind in ELEM_KIND:
                    if rx.search(t):
                        want = kind
                if cont.get("k") == "MemberExpr" and cont["ref"].get("qn") == "node::coupled_nodes_map_":
                    want = CIDX
                if want:
                    K = K or Kinds(prog, fn)
                    a = scalar(K.kind(n["c"][2]))
                    if a:
                        if a == want:
                            rep.ok("C08.id-kinds", prog, fn, n, "%s indexed by a %s" % (render(cont)[-40:], a))
                        else:
                            rep.violation("C08.id-kinds", prog, fn, n, "%s indexed by a %s" % (want, a),
                                          "%s subscripts a container whose positions are %s with a %s: a persistent id / other index is used as a list position (wrong or out-of-range element once ids and positions differ)" % (short(n, 90), want, a))
            elif is_call(n):
                callee = n.get("callee", "")
                if callee in PARAM_KINDS:
                    K = K or Kinds(prog, fn)
                    for i, want in PARAM_KINDS[callee].items():
                        args = call_args(n)
                        if len(args) != len(PARAM_KINDS[callee]) and callee in ("cell::get_face", "cell::delete_face", "cell::delete_node"):
                            continue      # other overload (three node ids / by reference)
                        if i < len(args):
                            a = scalar(K.kind(args[i]))
                            if a and a != want:
                                if (fn["qn"], callee, a) in ALLOW:
                                    rep.ok("C08.id-kinds", prog, fn, n, "%s given a %s: allow-listed (%s)" % (callee, a, ALLOW[(fn["qn"], callee, a)]))
                                else:
                                    rep.violation("C08.id-kinds", prog, fn, n, "%s given a %s" % (callee.split("::")[1], a), "%s passes a %s where a %s is required" % (short(n, 90), a, want))
                            elif a:
                                rep.ok("C08.id-kinds", prog, fn, n, "%s(%s)" % (callee.split("::")[1], a))
                if callee == "node::set_coupled_node_and_min_distance":
                    K = K or Kinds(prog, fn)
                    args = call_args(n)
                    if len(args) == 2:
                        from ..model import expand as _exp
                        a0 = strip(_exp(fn, args[0]))      # a named pair local stands for the pair it was built from
                        while a0.get("k") in ("ParenExpr", "CXXConstructExpr", "MaterializeTemporaryExpr", "ImplicitCastExpr") and len(a0.get("c", [])) == 1:
                            a0 = strip(a0["c"][0])
                        pk = K.kind(a0)
                        if not (isinstance(pk, tuple) and pk[0] == "PAIR"):
                            pk = K.kind(args[0])
                        got = (pk[1], pk[2]) if isinstance(pk, tuple) and pk[0] == "PAIR" else (None, None)
                    else:
                        got = (scalar(K.kind(args[0])), scalar(K.kind(args[1])))
                    if got == (CIDX, NIDX):
                        rep.ok("C08.id-kinds", prog, fn, n, "coupling stores (cell list index, node index)")
                    elif None in got:
                        rep.note("%s: the kinds of the stored pair could not be established (%s); not decided" % (prog.loc(fn, n), got))
                    else:
                        rep.violation("C08.id-kinds", prog, fn, n, "coupling stores %s" % (got,), "%s: a coupling must store (cell list index, node index); it is dereferenced through the population list" % short(n, 100))
                if callee.endswith("::find") and "coupled_nodes_map_" in render(call_obj(n) or {}):
                    K = K or Kinds(prog, fn)
                    a = scalar(K.kind(call_args(n)[0]))
                    if a == CIDX:
                        rep.ok("C08.id-kinds", prog, fn, n, "coupled_nodes_map_.find(cell list index)")
                    elif a:
                        rep.violation("C08.id-kinds", prog, fn, n, "coupling map searched with a %s" % a, "%s: the map is keyed by cell list index (get_local_id), not %s" % (short(n, 80), a))
            elif k == "BinaryOperator" and n.get("op") == "=":
                l = strip(n["c"][0])
                if l.get("k") == "MemberExpr" and l["ref"].get("qn") in FIELDS and isinstance(FIELDS[l["ref"]["qn"]], str):
                    K = K or Kinds(prog, fn)
                    a = scalar(K.kind(n["c"][1]))
                    want = FIELDS[l["ref"]["qn"]]
                    if a and a != want:
                        rep.violation("C08.id-kinds", prog, fn, n, "%s assigned a %s" % (l["ref"]["name"], a), "%s stores a %s in a field that holds a %s" % (short(n, 80), a, want))
                    elif a:
                        rep.ok("C08.id-kinds", prog, fn, n, "%s = %s" % (l["ref"]["name"], a))


def _is_renumber_loop(n, lst_key, partial_ok=None, fn=None):
    if n.get("k") == "CXXForRangeStmt" and fn is not None and e1.handle_key(n["range"]) == lst_key:
        # for(c : list) c->set_local_id(k++);   with k = 0 declared in front of the loop and touched nowhere else
        body = n["body"].get("c", []) if n["body"].get("k") == "CompoundStmt" else [n["body"]]
        for st_ in body:
            x = strip(st_)
            if x.get("k") == "CXXMemberCallExpr" and x.get("callee") == "cell::set_local_id":
                h = e1.peel_handle(call_obj(x))
                a = strip(call_args(x)[0])
                cdid = None
                if a.get("k") == "UnaryOperator" and a.get("op") in ("post++", "++") and not a.get("prefix", False) and strip(a["c"][0]).get("k") == "DeclRefExpr":
                    cdid = strip(a["c"][0])["ref"]["did"]
                    extra_inc = 0
                elif a.get("k") == "DeclRefExpr":
                    cdid = a["ref"]["did"]
                    extra_inc = 1
                if cdid is None or not (h.get("k") == "DeclRefExpr" and h["ref"]["did"] == n["var"]["did"]):
                    continue
                decl = [v for v in walk(fn["body"]) if v.get("k") == "Var" and v.get("did") == cdid and isinstance(v.get("init"), dict)]
                zero = bool(decl) and strip(decl[0]["init"]).get("k") == "IntegerLiteral" and strip(decl[0]["init"]).get("v") == "0"
                writes = [w for w in walk(fn["body"]) if (w.get("k") == "UnaryOperator" and ("++" in w.get("op", "") or "--" in w.get("op", "")) or w.get("k") == "CompoundAssignOperator" or (w.get("k") == "BinaryOperator" and w.get("op") == "="))
                          and strip(w["c"][0]).get("k") == "DeclRefExpr" and strip(w["c"][0])["ref"].get("did") == cdid]
                in_loop = [w for w in writes if any(y is w for y in walk(n["body"]))]
                if zero and len(writes) == 1 and len(in_loop) == 1 and "++" in in_loop[0].get("op", "") and not any(c_.get("k") in ("ContinueStmt", "IfStmt") for c_ in walk(n["body"])):
                    return True
        return False
    if n.get("k") != "ForStmt":
        return False
    for x in walk(n["body"]):
        if x.get("k") == "CXXMemberCallExpr" and x.get("callee") == "cell::set_local_id":
            h = e1.peel_handle(call_obj(x))
            a = strip(call_args(x)[0])
            if h.get("k") == "CXXOperatorCallExpr" and h.get("op") == "[]":
                base, idx = strip(h["c"][1]), strip(h["c"][2])
                if e1.handle_key(base) == lst_key and idx.get("k") == "DeclRefExpr" and a.get("k") == "DeclRefExpr" and a["ref"]["did"] == idx["ref"]["did"]:
                    c = strip(n.get("cond") or {})
                    if c.get("k") == "BinaryOperator" and c.get("op") == "<" and strip(c["c"][1]).get("callee", "").endswith("::size"):
                        return "partial" if partial_ok is None and not _starts_at_zero(n) else True
    return False


def _starts_at_zero(loop):
    init = loop.get("init")
    if not isinstance(init, dict):
        return False
    for d in init.get("decls", []) or []:
        if isinstance(d.get("init"), dict):
            v = strip(d["init"])
            return v.get("k") == "IntegerLiteral" and v.get("v") == "0"
    return False


def renumber(rep, prog, rule="C08.renumber-after-resize", only=None):
    for qn, lst_expr in (("solver::run_iteration", "this.cell_lst_"), ("cell_divider::run", None)):
        if only is not None and qn not in only:
            continue
        fn = prog.fn(qn)
        fi = prog.index(fn)
        cfg = fi.cfg()
        lst_key = lst_expr or "%s#%s" % (fn["params"][0]["name"], fn["params"][0]["did"])
        changes = []
        for n in walk(fn["body"]):
            if n.get("k") == "CXXMemberCallExpr" and n.get("callee", "").split("::")[-1] in ("erase", "push_back", "insert", "emplace_back", "resize", "clear") and e1.handle_key(call_obj(n)) == lst_key:
                changes.append(n)
            if n.get("k") == "CallExpr" and n.get("callee") == "remove_index" and e1.handle_key(call_args(n)[0]) == lst_key:
                changes.append(n)
        # a store into a slot of the list moves a cell to that position: it needs 'list[e]->set_local_id(e)' for the same e
        slot_stores = []
        for n in walk(fn["body"]):
            if n.get("k") == "CXXOperatorCallExpr" and n.get("op") == "=" and len(n.get("c", [])) >= 3:
                lhs = strip(n["c"][1])
                if lhs.get("k") == "CXXOperatorCallExpr" and lhs.get("op") == "[]" and len(lhs.get("c", [])) >= 3 and e1.handle_key(lhs["c"][1]) == lst_key:
                    slot_stores.append((n, render(lhs["c"][2]).replace(" ", "")))
        slot_renumber = {}
        for n in walk(fn["body"]):
            if n.get("k") == "CXXMemberCallExpr" and n.get("callee") == "cell::set_local_id":
                o = call_obj(n)
                o = strip(o) if isinstance(o, dict) else {}
                while o.get("k") in ("CXXOperatorCallExpr",) and o.get("op") in ("->", "*") and len(o.get("c", [])) >= 2:
                    o = strip(o["c"][1])
                a_ = call_args(n)
                if o.get("k") == "CXXOperatorCallExpr" and o.get("op") == "[]" and len(o.get("c", [])) >= 3 and e1.handle_key(o["c"][1]) == lst_key and a_:
                    idx = render(o["c"][2]).replace(" ", "")
                    if render(a_[0]).replace(" ", "") == idx:
                        slot_renumber.setdefault(idx, []).append(n)
        loops = [n for n in walk(fn["body"]) if _is_renumber_loop(n, lst_key, fn=fn) is True]
        for n in walk(fn["body"]):
            if _is_renumber_loop(n, lst_key, fn=fn) == "partial":
                rep.violation(rule, prog, fn, n, "renumbering does not start at the head of the list",
                              "%s: the loop 'list[i]->set_local_id(i)' starts at %s instead of 0: the cells in front of that position keep the local ids they had before the population changed "
                              "(the removal list is filled in completion order of the threads, its first element need not be the smallest index), so a cell's local id no longer equals its place in the list"
                              % (qn, short(n["init"], 60)))
        if not changes:
            raise AnalysisBroken("%s: no population change found" % qn)
        loop_units = set()
        for l in loops:
            for x in list(walk(l["body"])) + list(walk(l.get("cond") or l.get("range") or {})):     # a zero-trip renumbering loop is fine (empty list)
                u = cfg.unit_of.get(id(x))
                if u is not None:
                    loop_units.add(u)
        for c, idx in slot_stores:
            changes.append(c)
        slot_idx = {id(c): idx for c, idx in slot_stores}
        for c in changes:
            if c.get("callee", "").endswith("::erase") and _is_tail_truncation(fn, c, lst_key):
                rep.ok(rule, prog, fn, c, "%s drops the tail of the list: the cells that remain keep their positions" % short(c, 60))
                continue
            u = cfg.unit_of.get(id(c))
            seen, stack, escapes = set(), list(cfg.succ[u]) if u is not None else [], False
            stops = set(loop_units)
            if id(c) in slot_idx:
                for r_ in slot_renumber.get(slot_idx[id(c)], []):
                    ur = cfg.unit_of.get(id(r_))
                    if ur is not None and fi.enclosing(r_, ("CompoundStmt",)) is fi.enclosing(c, ("CompoundStmt", )) or (ur is not None and _same_sequence(fi, c, r_)):
                        stops.add(ur)
            while stack:
                x = stack.pop()
                if x in seen or x in stops:
                    continue
                seen.add(x)
                if x == cfg.exit:
                    escapes = True
                    break
                stack.extend(cfg.succ[x])
            # witness idiom: the renumbering is guarded by W.size() > 0 where W is grown in the same block as every other change
            if escapes and qn == "cell_divider::run":
                escapes = not _witness_ok(fi, fn, c, loops, lst_key)
            if not escapes:
                rep.ok(rule, prog, fn, c, "%s is followed on every path by the renumbering loop" % short(c, 60))
            else:
                rep.violation(rule, prog, fn, c, "population changed without renumbering (%s)" % c.get("callee", "").split("::")[-1],
                              "%s changes the size/order of the population but a path reaches the end of %s without 'list[i]->set_local_id(i)': stale local ids are then stored in couplings and dereferenced through the list (wrong cell / out of range)" % (short(c, 80), qn))


def _same_sequence(fi, a, b):
    """b is a statement of a block that encloses a (a may sit in a nested if of that block)"""
    blk = fi.enclosing(b, ("CompoundStmt",))
    return blk is not None and any(p is blk for p, _s, _c in fi.ancestors(a))


def _is_tail_truncation(fn, call, lst_key):
    """list.erase(first, list.end()) where `first` is plain iterator arithmetic on list.begin() (not the result of a
    remove/partition algorithm, which reorders): the elements in front of `first` stay where they are"""
    from ..model import def_chain
    a = call_args(call)
    if len(a) != 2:
        return False
    last = [x for x in walk(a[1]) if x.get("k") == "CXXMemberCallExpr" and x.get("callee", "").endswith("::end") and e1.handle_key(call_obj(x)) == lst_key]
    if not last:
        return False
    calls = [x for d_ in def_chain(fn, a[0]) for x in walk(d_) if x.get("k") in ("CallExpr", "CXXMemberCallExpr")]
    begins = [x for x in calls if x.get("k") == "CXXMemberCallExpr" and x.get("callee", "").endswith("::begin") and e1.handle_key(call_obj(x)) == lst_key]
    others = [x for x in calls if x not in begins and not (x.get("k") == "CXXMemberCallExpr" and x.get("callee", "").split("::")[-1] in ("size", "begin", "end"))]
    return bool(begins) and not others


def _witness_ok(fi, fn, change, loops, lst_key):
    """cell_divider::run: renumbering under 'if(W.size() > 0)'; accepted when the change is (a) inside that if, or
    (b) an append of a local list that is only grown in the same critical block that grows W."""
    for l in loops:
        # the witness W: the renumbering runs exactly when W is non-empty - 'if(W.size() > 0){...}', 'if(!W.empty()){...}' or an
        # early 'if(W.empty()) return;' in front of it
        cands = []
        for cond, pol in fi.guards(l):
            c = strip(cond)
            while c.get("k") == "UnaryOperator" and c.get("op") == "!":
                pol = not pol
                c = strip(c["c"][0])
            if c.get("k") == "BinaryOperator" and c.get("op") in (">", "!=", "==") and strip(c["c"][0]).get("callee", "").endswith("::size") and strip(c["c"][1]).get("v") == "0":
                if (c["op"] in (">", "!=")) == pol:
                    cands.append((e1.handle_key(call_obj(strip(c["c"][0]))), cond))
            if c.get("k") == "CXXMemberCallExpr" and c.get("callee", "").endswith("::empty") and not pol:
                cands.append((e1.handle_key(call_obj(c)), cond))
        for W, cond in cands:
            holder = [p for p, slot, ch in fi.ancestors(l) if p.get("k") == "IfStmt" and p.get("cond") is cond]
            if True:
                    p = holder[0] if holder else None
                    if p is not None and any(q is p for q, s, cc in fi.ancestors(change)):
                        return True
                    if p is None and fi.order[id(change)] > max(fi.order[id(x)] for x in walk(cond)):
                        return True      # the change itself is behind the early return: executed only when W is non-empty
                    # appended container
                    if change.get("callee", "").endswith("::insert"):
                        srcs = {e1.handle_key(call_obj(x)) for a in call_args(change) for x in walk(a) if x.get("k") == "CXXMemberCallExpr" and x.get("callee", "").split("::")[-1] in ("begin", "end")} - {lst_key}
                        if len(srcs) == 1:
                            src = srcs.pop()
                            blocks_w = {id(fi.enclosing(x, ("CompoundStmt",))) for x in walk(fn["body"]) if x.get("k") == "CXXMemberCallExpr" and x.get("callee", "").endswith("::push_back") and e1.handle_key(call_obj(x)) == W}
                            blocks_s = {id(fi.enclosing(x, ("CompoundStmt",))) for x in walk(fn["body"]) if x.get("k") == "CXXMemberCallExpr" and x.get("callee", "").endswith("::push_back") and e1.handle_key(call_obj(x)) == src}
                            if blocks_s and blocks_s <= blocks_w and fi.order[id(change)] < fi.order[id(l)]:
                                return True      # appended BEFORE the guarded renumbering, and non-empty exactly when W is
    return False


def fresh_ids(rep, prog):
    n_sites = 0
    for fn in product_fns(prog):
        if not isinstance(fn.get("body"), dict) or fn.get("defaulted") or fn["name"] == "operator=":
            continue
        for n in walk(fn["body"]):
            src = None
            if n.get("k") == "CXXMemberCallExpr" and n.get("callee") == "cell::set_id":
                src = call_args(n)[0]
            elif n.get("k") == "BinaryOperator" and n.get("op") == "=" and strip(n["c"][0]).get("k") == "MemberExpr" and strip(n["c"][0])["ref"].get("qn") == "cell::cell_id_":
                if fn.get("cls") == "cell" and fn["name"] in ("set_id",):
                    continue
                src = n["c"][1]
            if src is None:
                continue
            n_sites += 1
            s = strip(src)
            if s.get("k") == "DeclRefExpr" and s["ref"].get("dk") == "Var":
                # a local that holds the freshly drawn id, used for this one cell only
                from ..model import stable_locals as _sl
                st_ = _sl(fn)
                uses = [x for x in walk(fn["body"]) if x.get("k") == "DeclRefExpr" and x["ref"].get("did") == s["ref"]["did"]]
                loop_of_decl = prog.index(fn).enclosing([v for v in walk(fn["body"]) if v.get("k") == "Var" and v.get("did") == s["ref"]["did"]][0], ("ForStmt", "CXXForRangeStmt", "WhileStmt")) if s["ref"]["did"] in st_ else None
                loop_of_use = prog.index(fn).enclosing(n, ("ForStmt", "CXXForRangeStmt", "WhileStmt"))
                id_uses = [x for x in walk(fn["body"]) if (x.get("k") == "CXXMemberCallExpr" and x.get("callee") == "cell::set_id" and any(y.get("k") == "DeclRefExpr" and y["ref"].get("did") == s["ref"]["did"] for y in walk(call_args(x)[0])))
                           or (x.get("k") == "BinaryOperator" and x.get("op") == "=" and strip(x["c"][0]).get("k") == "MemberExpr" and strip(x["c"][0])["ref"].get("qn") == "cell::cell_id_" and any(y.get("k") == "DeclRefExpr" and y["ref"].get("did") == s["ref"]["did"] for y in walk(x["c"][1])))]
                if s["ref"]["did"] in st_ and len(id_uses) == 1 and loop_of_decl is loop_of_use:
                    s = strip(st_[s["ref"]["did"]])
            if s.get("k") == "UnaryOperator" and s.get("op") == "++" and s.get("postfix") and "max_cell_id_" in render(s["c"][0]):
                ctr = strip(s["c"][0])
                byval = None
                if ctr.get("k") == "DeclRefExpr" and (ctr.get("ref") or {}).get("dk") == "ParmVar":
                    pt = [p_.get("t", "") for p_ in fn.get("params", []) if p_.get("did") == ctr["ref"].get("did")]
                    if pt and not (pt[0].rstrip().endswith("&") and not pt[0].startswith("const ")):
                        byval = pt[0]
                elif ctr.get("k") == "DeclRefExpr" and (ctr.get("ref") or {}).get("dk") == "Var":
                    vt = [v_.get("t", "") for v_ in walk(fn["body"]) if v_.get("k") == "Var" and v_.get("did") == ctr["ref"].get("did")]
                    if vt and not vt[0].rstrip().endswith("&"):
                        byval = vt[0]
                if byval is not None:
                    rep.violation("C08.fresh-ids", prog, fn, n, "id drawn from a copy of the counter",
                                  "%s: '%s' is a %s taken by value in %s, so the increment is lost when the function returns: the caller's counter is not advanced and the next call hands out the same persistent ids again (two cells with one id; the same-cell filter of the contact models then drops every pair between them)" % (short(n, 70), render(ctr), byval, fn["qn"]))
                else:
                    rep.ok("C08.fresh-ids", prog, fn, n, "%s" % short(n, 70))
            else:
                rep.violation("C08.fresh-ids", prog, fn, n, "cell id not taken from the counter", "%s: a persistent cell id must be the post-incremented max_cell_id_ counter (unique, never reused)" % short(n, 80))
        for n in walk(fn["body"]):
            if n.get("k") in ("UnaryOperator", "BinaryOperator", "CompoundAssignOperator") and n.get("op") in ("--", "=", "-=", "+=", "*="):
                t = strip(n["c"][0])
                if "max_cell_id_" in render(t) and t.get("k") in ("MemberExpr", "DeclRefExpr"):
                    rep.violation("C08.fresh-ids", prog, fn, n, "id counter modified by %s" % n.get("op"), "%s: the id counter may only be post-incremented" % short(n, 70))
    # constructors that copy the mother's id for daughters are overwritten in cell_divider::run (checked by C09)


def couplings_fresh(rep, prog):
    it = prog.fn("solver::run_iteration")
    fi = prog.index(it)
    cm = prog.config[0]
    if cm == 0:
        rep.ok("C08.couplings-fresh", prog, it, None, "contact model 0 stores no couplings")
        rep.ok("C08.couplings-fresh", prog, it, None, "(no coupling readers in this configuration)")
        return
    stmts = it["body"]["c"]
    def phase_keys(s):
        keys = set()
        for n in walk(s):
            if is_call(n):
                keys |= prog.call_targets(n)
        return prog.closure(keys)
    fld = "node::coupled_node_" if cm == 1 else "node::coupled_nodes_map_"
    readers, resetters = set(), set()
    for f in product_fns(prog):
        if not isinstance(f.get("body"), dict) or f.get("defaulted") or f["name"] == "operator=" or f.get("cls") == "node":
            continue
        for n in walk(f["body"]):
            if n.get("k") == "MemberExpr" and n["ref"].get("qn") == fld:
                readers.add(f["key"])
            if n.get("k") == "CXXMemberCallExpr" and n.get("callee") in ("node::get_coupled_node", "node::is_coupled"):
                readers.add(f["key"])
    run_fn = prog.fn({1: "contact_node_node_via_coupling::run", 2: "contact_face_face_via_coupling::run"}[cm])
    # the reset is in run(): an assignment of nullopt / clear() on every used node before resolve_all_contacts
    reset_ok = False
    ri = prog.index(run_fn)
    for n in walk(run_fn["body"]):
        if (n.get("k") in ("BinaryOperator", "CXXOperatorCallExpr") and n.get("op") == "=" and "coupled_node_" in render(n["c"][0] if n["k"] == "BinaryOperator" else n["c"][1])) or \
           (n.get("k") == "CXXMemberCallExpr" and n.get("callee", "").endswith("::clear") and "coupled_nodes_map_" in render(call_obj(n))):
            calls_after = [x for x in walk(run_fn["body"]) if is_call(x) and x.get("callee", "").endswith("resolve_all_contacts")]
            if calls_after and ri.order[id(n)] < ri.order[id(calls_after[0])]:
                reset_ok = True
                # ... for EVERY used node: the only condition around the reset is the node's own is_used()
                from ..model import facts_at
                extra = [(a_, t_) for a_, t_ in facts_at(run_fn, ri, n) if not (a_.get("k") == "CXXMemberCallExpr" and a_.get("callee", "").endswith("::is_used") and t_)
                         and not (a_.get("k") == "BinaryOperator" and a_.get("op") in ("<", "!=", "<=") and ri.enclosing(a_, ("ForStmt", "WhileStmt")) is not None)]
                extra = [(a_, t_) for a_, t_ in extra if not any(a_ is l_.get("cond") or any(x is a_ for x in walk(l_.get("cond") or {})) for l_ in walk(run_fn["body"]) if l_.get("k") in ("ForStmt", "WhileStmt"))]
                if extra:
                    a_, t_ = extra[0]
                    rep.violation("C08.couplings-fresh", prog, run_fn, n, "coupling reset skipped for some nodes",
                                  "%s resets the couplings only when %s%s: a node for which the condition fails keeps the (cell index, node index) pair stored in an earlier iteration; after a removal, division or remeshing that pair designates another cell / node or lies past the end of the list" % (run_fn["qn"], "" if t_ else "not ", short(a_, 60)))
    if reset_ok:
        rep.ok("C08.couplings-fresh", prog, run_fn, None, "%s resets every node's coupling before resolving the contacts" % run_fn["qn"])
    else:
        rep.violation("C08.couplings-fresh", prog, run_fn, None, "couplings are not reset each iteration", "%s must clear every node's coupling before new couplings are created: stale (cell index, node index) records would survive divisions and removals" % run_fn["qn"])
    contact_i = None
    for i, s in enumerate(stmts):
        if run_fn["key"] in phase_keys(s) or any(x.get("callee") == "contact_model_abstract::run" for x in walk(s) if is_call(x)):
            contact_i = i
            break
    if contact_i is None:
        raise AnalysisBroken("run_iteration: contact phase not found")
    bad = []
    # the reset of the couplings happens inside the contact phase: if that phase is skipped under some condition while the readers
    # of the couplings still run, the couplings of the previous iteration (indices into a population that may have shrunk) are used
    cs = stmts[contact_i]
    if cs.get("k") in ("IfStmt", "SwitchStmt", "ForStmt", "WhileStmt") or any(x.get("k") == "ConditionalOperator" for x in walk(cs)):
        later = [j for j in range(contact_i + 1, len(stmts)) if ((phase_keys(stmts[j]) & readers) - {run_fn["key"]})]
        if later:
            bad.append((cs, "runs the contact phase (which resets every node's coupling) only conditionally, while %s reads the couplings unconditionally: when the phase is skipped the couplings of the previous "
                            "iteration survive, although cells may have been removed since (index past the end of the population / into a released cell)" % short(stmts[later[0]], 60)))
    for i, s in enumerate(stmts):
        keys = phase_keys(s)
        reads = keys & readers - {run_fn["key"]}
        # data mappers read is_coupled() only as a flag for output; they never dereference the record
        reads = {k for k in reads if not prog.functions[k].get("pseudo")}
        changes_pop = any(x.get("k") == "CXXMemberCallExpr" and x.get("callee", "").split("::")[-1] in ("erase",) and "cell_lst_" in render(call_obj(x)) for x in walk(s)) or any(is_call(x) and x.get("callee") == "cell_divider::run" for x in walk(s))
        if reads and i < contact_i and i != contact_i:
            bad.append((s, "reads the couplings (%s) before the contact phase of this iteration has reset them" % ", ".join(sorted(prog.functions[k]["qn"] for k in reads))))
        if changes_pop and contact_i < i:
            later_readers = [j for j in range(i + 1, len(stmts)) if (phase_keys(stmts[j]) & readers) - {run_fn["key"]}]
            if later_readers:
                bad.append((s, "changes the population between the contact phase and a later reader of the couplings in the same iteration"))
        # a coupling stores (cell index, NODE index): compacting a node list (cell::rebase, reached e.g. through mesh_writer::write)
        # between the creation of the couplings and their last reader makes the stored node indices designate other nodes
        renumbers = {k for k in keys if prog.functions[k]["qn"] in ("cell::rebase", "cell::remove_unused_nodes")}
        if renumbers and contact_i < i:
            later_readers = [j for j in range(i + 1, len(stmts)) if (phase_keys(stmts[j]) & readers) - {run_fn["key"]}]
            if later_readers:
                bad.append((s, "may renumber the nodes of a cell (%s) between the contact phase, which stores (cell index, node index) couplings, and a later reader of those couplings (%s): the stored node indices then designate different nodes"
                            % (", ".join(sorted(prog.functions[k]["qn"] for k in renumbers)), short(stmts[later_readers[-1]], 60))))
    if not bad:
        rep.ok("C08.couplings-fresh", prog, it, stmts[contact_i], "all coupling readers of run_iteration run after the contact phase; divisions precede it and removals follow the last reader")
    for s, why in bad:
        rep.violation("C08.couplings-fresh", prog, it, s, "stale couplings reachable in run_iteration", "%s %s" % (short(s, 70), why))


def face_type_range(rep, prog):
    # literal face-type indices per class
    lits = {}
    roots = [f["key"] for f in prog.fns("solver::run_iteration")] + [f["key"] for f in prog.fns("solver::solver")] + [f["key"] for f in prog.fns("simulation_initializer::simulation_initializer")]
    live = prog.closure(roots)
    for fn in product_fns(prog):
        if not isinstance(fn.get("body"), dict) or not fn.get("cls") or fn["key"] not in live:
            continue
        if not prog.is_derived_from(fn["cls"], "cell"):
            continue
        for n in walk(fn["body"]):
            if n.get("k") == "CXXMemberCallExpr" and n.get("callee") == "face::set_face_type_id":
                a = strip(call_args(n)[0])
                if a.get("k") == "IntegerLiteral":
                    lits.setdefault(fn["cls"], []).append((int(a["v"]), fn, n))
    init = prog.fn("simulation_initializer::run")
    # validated minimum per global_type_id_: 'if(ctp->global_type_id_ == T && ctp->face_types_.size() < K) throw'
    validated = {}
    generic_min = 0
    ii = prog.index(init)
    from ..model import expand as _expand

    def _const(e):
        e = strip(e)
        if e.get("k") == "IntegerLiteral":
            return int(e["v"])
        if e.get("k") == "DeclRefExpr":
            for d in walk(init["body"]):
                if d.get("k") == "Var" and d.get("did") == e["ref"]["did"] and isinstance(d.get("init"), dict):
                    lit = [y for y in walk(d["init"]) if y.get("k") == "IntegerLiteral"]
                    if lit:
                        return int(lit[0]["v"])
        return None

    def _facts(cond, pol, out):
        """facts that hold when `cond` has truth value `pol`: conjunctions when true, disjunctions when false, negations folded"""
        c = strip(cond)
        if c.get("k") == "DeclRefExpr" and "bool" in (c.get("t") or ""):
            c = strip(_expand(init, c))
        while c.get("k") == "ParenExpr" and c.get("c"):
            c = strip(c["c"][0])
        if c.get("k") == "UnaryOperator" and c.get("op") == "!":
            return _facts(c["c"][0], not pol, out)
        if c.get("k") == "BinaryOperator" and ((c.get("op") == "&&" and pol) or (c.get("op") == "||" and not pol)):
            _facts(c["c"][0], pol, out)
            _facts(c["c"][1], pol, out)
            return
        if c.get("k") == "BinaryOperator" and c.get("op") in ("==", "!=", "<", "<=", ">", ">="):
            l, r = render(c["c"][0]), c["c"][1]
            op = c["op"] if pol else {"==": "!=", "!=": "==", "<": ">=", "<=": ">", ">": "<=", ">=": "<"}[c["op"]]
            v = _const(r)
            if "global_type_id_" in l and v is not None and op == "==":
                out["type"] = v
            if "face_types_" in l and "size" in l and v is not None:
                if op == "<":
                    out["min"] = v
                elif op == "<=":
                    out["min"] = v + 1
                elif op == "==" and v == 0:
                    out["min"] = 1
        if c.get("k") == "CXXMemberCallExpr" and c.get("callee", "").endswith("::empty") and "face_types_" in render(call_obj(c)) and pol:
            out["min"] = 1
        # a predicate over all cell types evaluated by an algorithm: any_of(empty) true / all_of(size > 0) false
        if c.get("k") == "CallExpr" and c.get("callee") in ("std::any_of", "std::all_of", "std::none_of"):
            for lam in walk(c):
                if lam.get("k") == "LambdaExpr":
                    for r_ in walk(lam["body"]):
                        if r_.get("k") == "ReturnStmt" and isinstance(r_.get("value"), dict):
                            inner = {}
                            # any_of(P) true: some element satisfies P; all_of(P) false: some element violates P
                            want = True if c["callee"] == "std::any_of" and pol else (False if c["callee"] == "std::all_of" and not pol else (True if c["callee"] == "std::none_of" and not pol else None))
                            if want is not None:
                                _facts(r_["value"], want, inner)
                                if "min" in inner and "type" not in inner:
                                    out["min_all"] = inner["min"]

    for thr in [x for x in walk(init["body"]) if x.get("k") == "CXXThrowExpr"]:
        f_ = {}
        for cond, pol in ii.guards(thr, through_lambdas=True):
            _facts(cond, pol, f_)
        if "min_all" in f_:
            generic_min = max(generic_min, f_["min_all"])
        if "min" in f_ and "type" in f_:
            validated[f_["type"]] = max(validated.get(f_["type"], 0), f_["min"])
        elif "min" in f_ and "type" not in f_:
            generic_min = max(generic_min, f_["min"])
    # class -> global type id from the initializer's switch
    tri = prog.fn("simulation_initializer::triangulate_surface")
    cls_type = {}
    for n in walk(tri["body"]):
        if n.get("k") == "CaseStmt":
            v = strip(n["value"])
            lit = [y for y in walk(v) if y.get("k") == "IntegerLiteral"]
            made = [x for x in walk(n["sub"]) if x.get("k") == "CallExpr" and x.get("callee") == "std::make_shared"]
            if lit and made:
                cls_type[re.sub(r"^std::shared_ptr<(.*)>$", r"\1", made[0].get("t", ""))] = int(lit[0]["v"])
    if not lits:
        raise AnalysisBroken("no literal face-type index found")
    for cls, lst in sorted(lits.items()):
        mx = max(v for v, _, _ in lst)
        site = [x for x in lst if x[0] == mx][0]
        t = cls_type.get(cls)
        have = max(generic_min, validated.get(t, 0)) if t is not None else generic_min
        if have >= mx + 1:
            rep.ok("C08.face-type-range", prog, site[1], site[2], "%s writes face-type index up to %d; start-up requires at least %d face types for global type %s" % (cls, mx, have, t))
        else:
            rep.violation("C08.face-type-range", prog, site[1], site[2], "%s uses face-type index %d but only %d face type(s) are guaranteed" % (cls, mx, have),
                          "%s sets face type index %d (%s) while the start-up validation only guarantees face_types_.size() >= %d for that cell class: cell_type_->face_types_[type_id_] is read out of range" % (cls, mx, short(site[2], 50), have))


def owner_cell(rep, prog):
    add = prog.fn("cell::add_face")
    from .. import paths as P
    try:
        ps = [ev for ev, done in P.paths(add["body"]) if not any(e[0] == "throw" for e in ev)]
    except P.PathExplosion as e:
        raise AnalysisBroken("cell::add_face: %s" % e)
    missing = 0
    for ev in ps:
        own = [e[1] for e in ev if (e[0] == "assign" and "owner_cell_" in render(e[1]["c"][-2]) and "shared_from_this" in render(e[1]["c"][-1])) or (e[0] == "call" and e[1].get("callee") == "face::set_owner_cell" and "shared_from_this" in render(e[1]))]
        if not own:
            missing += 1
    if ps and not missing:
        rep.ok("C08.owner-cell", prog, add, None, "cell::add_face sets owner_cell_ = shared_from_this() on each of its %d paths (slot reuse and append)" % len(ps))
    else:
        rep.violation("C08.owner-cell", prog, add, None, "add_face does not set the owner on every path", "cell::add_face must set the new face's owner_cell_ to shared_from_this() whether it reuses a free slot or appends (%d of %d paths do not)" % (missing, len(ps)))
    so = prog.fn("cell::set_face_owner_cell", required=False)
    if so is not None:
        s2 = [n for n in walk(so["body"]) if "owner_cell_" in render(n) and "shared_from_this" in render(n) and n.get("k") in ("BinaryOperator", "CXXOperatorCallExpr", "CXXMemberCallExpr")]
        if not s2:
            # generic lambda: the member access is type-dependent (resolved only at instantiation inside std::for_each)
            s2 = [n for n in walk(so["body"]) if n.get("k") in ("BinaryOperator", "CXXOperatorCallExpr") and n.get("op") == "=" and any(x.get("k") == "CXXDependentScopeMemberExpr" and x.get("member") == "owner_cell_" for x in walk(n["c"][0])) and any(is_call(x) and "shared_from_this" in (x.get("callee") or render(x)) for x in walk(n))]
        if s2:
            rep.ok("C08.owner-cell", prog, so, s2[0], "set_face_owner_cell assigns shared_from_this() to every face")
        else:
            rep.violation("C08.owner-cell", prog, so, None, "set_face_owner_cell does not assign shared_from_this()", "faces adopted at initialisation would keep no / a foreign owner")
        ini = prog.fn("cell::initialize_cell_properties")
        if any(is_call(n) and n.get("callee") == "cell::set_face_owner_cell" for n in walk(ini["body"])):
            rep.ok("C08.owner-cell", prog, ini, None, "initialize_cell_properties calls set_face_owner_cell")
        else:
            rep.violation("C08.owner-cell", prog, ini, None, "initialisation does not set the face owners", "initialize_cell_properties must call set_face_owner_cell")


def coupling_lookup_present(rep, prog):
    """must-provenance of look-up keys: which nodes' maps is a key guaranteed to be a key of?"""
    n_sites = 0
    for fn in product_fns(prog):
        if not isinstance(fn.get("body"), dict) or (fn.get("cls") or "").startswith("contact_"):
            continue
        lookups = []
        for n in walk(fn["body"]):
            if n.get("k") == "CXXOperatorCallExpr" and n.get("op") == "[]" and len(n.get("c", [])) == 3:
                o = strip(n["c"][1])
                if o.get("k") == "MemberExpr" and (o.get("ref") or {}).get("qn") == "node::coupled_nodes_map_" and o.get("c"):
                    lookups.append((n, render(o["c"][0]), n["c"][2]))
        if not lookups:
            continue
        derived = {}     # did -> set of owner texts whose map certainly contains the value(s) of that variable

        def d_of(e):
            e = strip(e)
            while e.get("k") in ("ParenExpr",) and e.get("c"):
                e = strip(e["c"][0])
            if e.get("k") == "DeclRefExpr" and (e.get("ref") or {}).get("did") in derived:
                return derived[e["ref"]["did"]]
            if e.get("k") == "CXXOperatorCallExpr" and e.get("op") == "[]" and len(e.get("c", [])) == 3:
                return d_of(e["c"][1])
            if e.get("k") == "CXXMemberCallExpr" and e.get("callee", "").split("::")[-1] in ("front", "back", "at"):
                return d_of(call_obj(e))
            return None
        for _round in range(3):
            for n in walk(fn["body"]):
                k = n.get("k")
                if k == "CXXForRangeStmt":
                    rng = strip(n["range"])
                    if rng.get("k") == "MemberExpr" and (rng.get("ref") or {}).get("qn") == "node::coupled_nodes_map_" and rng.get("c"):
                        owner = render(rng["c"][0])
                        var = n.get("var") or {}
                        keys = []
                        if var.get("k") == "Decomposition" and var.get("bindings"):
                            keys = [var["bindings"][0].get("did")]
                        for kd in keys:
                            derived[kd] = {owner}
                elif k == "CXXMemberCallExpr" and n.get("callee", "").split("::")[-1] in ("push_back", "emplace_back") and len(call_args(n)) == 1:
                    v = strip(call_obj(n))
                    if v.get("k") == "DeclRefExpr":
                        dv = d_of(call_args(n)[0])
                        vd = v["ref"]["did"]
                        if dv is None:
                            derived[vd] = set()
                        else:
                            derived[vd] = (derived[vd] & dv) if vd in derived and _round == 0 and derived[vd] else (dv if vd not in derived else derived[vd] & dv if derived[vd] else set())
                elif k == "CallExpr" and n.get("callee") == "std::set_intersection":
                    a = call_args(n)
                    if len(a) >= 5:
                        ins = []
                        for x in (a[0], a[2]):
                            objs = [strip(call_obj(y)) for y in walk(x) if y.get("k") == "CXXMemberCallExpr" and y.get("callee", "").split("::")[-1] in ("begin", "cbegin")]
                            ins.append(d_of(objs[0]) if objs else None)
                        outs = [strip(call_args(y)[0]) for y in walk(a[4]) if y.get("k") == "CallExpr" and y.get("callee") == "std::back_inserter"]
                        if outs and outs[0].get("k") == "DeclRefExpr" and all(i_ is not None for i_ in ins):
                            derived[outs[0]["ref"]["did"]] = ins[0] | ins[1]
                elif k == "Var" and isinstance(n.get("init"), dict) and n.get("did") is not None:
                    dv = d_of(n["init"])
                    if dv is not None:
                        derived[n["did"]] = set(dv)
        fi = prog.index(fn)
        for n, owner, key in lookups:
            # a store `map[k] = v` is not a look-up
            par = fi.parent.get(id(n), (None, None))[0]
            if par is not None and par.get("k") in ("CXXOperatorCallExpr", "BinaryOperator") and par.get("op") == "=" and (par["c"][1] if par["k"] == "CXXOperatorCallExpr" else par["c"][0]) is n:
                continue
            n_sites += 1
            dk = d_of(key)
            if dk is None:
                raise AnalysisBroken("%s: the key of the look-up %s has no provenance this checker follows" % (prog.loc(fn, n), short(n, 60)))
            if owner in dk:
                rep.ok("C08.coupling-lookup-present", prog, fn, n, "%s: the key is drawn from the keys of %s's own map (it is in: %s)" % (short(n, 50), owner, ", ".join(sorted(dk))))
            else:
                rep.violation("C08.coupling-lookup-present", prog, fn, n, "look-up key not drawn from %s's own couplings" % owner,
                              "%s: the key is only known to be a key of the maps of %s, not of %s: when %s is not coupled to that cell, std::map::operator[] inserts a default entry (node 0 of that cell) which the time integration then treats as a real coupling" % (short(n, 70), ", ".join(sorted(dk)) or "no node", owner, owner))
    return n_sites
