"""C15 - thread-count independence; parallel errors become exceptions (structural clauses)."""
import re

from .. import e1, e2, e6
from .. import effects as F
from ..model import walk, strip, is_call, call_obj, call_args, render, short, AnalysisBroken
from .c10 import product_fns, shared_resize

EXPLANATION = ("OpenMP region rules over clang's resolved AST with the build's own flags: every parallel region is "
               "enumerated; (1) no exception may leave a region (may-throw summaries over the call graph, try/catch "
               "filtering), (2) the stored exception_ptr is written only under critical and rethrown after the region, "
               "(3) containers resized in a region are only accessed under the same critical section, (4) every mutation "
               "of shared state in a region, including those of the whole callee closure (may-write effect summaries), is "
               "atomic / critical / under the object's lock / confined to the loop's own element, (5) the force accumulator "
               "vec3::translate is atomic in the program as built. Decides data-race freedom of these mechanisms, not "
               "bit-identity of results.")
ASSUMPTIONS = [
    "effects are may-write summaries with syntactic object identity; aliases between different handles are not tracked",
    "virtual calls are resolved by class-hierarchy analysis (all overriders)",
    "a region whose per-element callable cannot be resolved is reported as analysis-broken, not assumed safe",
]


def declare(rep):
    rep.rule("C15.omp-containment", "no exception can leave an OpenMP parallel region (structured block)", floor=8)
    rep.rule("C15.eptr-discipline", "a region that catches (...) stores current_exception() under critical into a variable that is rethrown right after the region", floor=3)
    rep.rule("C15.shared-resize", "a container resized inside a parallel region is only accessed under the same critical section", floor=8)
    rep.rule("C15.shared-mutation", "every mutation of shared state in a parallel region (incl. callee closure) is atomic, critical, locked, or confined to the loop's own element", floor=9)
    rep.rule("C15.population-renumbering", "after the parallel division loop every change of the population is followed by a renumbering of the whole list from position 0 (several divisions in one pass must leave place == local id for every cell)", floor=2)
    rep.rule("C15.remove-index-sorted", "indices collected by the threads of a parallel loop are sorted before remove_index compacts the shared list (thread-completion order must not matter)", floor=1)
    rep.rule("C15.static-local", "no function executed inside a parallel region (region body and callee closure) declares a mutable function-local static: such an object is one buffer shared by all threads", floor=8)
    rep.rule("C15.thread-id-dispatch", "no work inside a parallel region is assigned to a thread by comparing omp_get_thread_num() with a constant other than 0 (without a num_threads clause): with fewer threads in the team that work is silently not done, so the result depends on the thread count", floor=8)
    rep.rule("C15.work-shared", "every statement of a parallel region is divided among the threads: the region is `parallel for` / `parallel sections`, or each statement of a bare `parallel` block lies in a for / sections / single / master / critical construct - otherwise every thread executes it and the result depends on the number of threads", floor=8)
    rep.rule("C15.atomic-accumulator", "each component update of vec3::translate is an OpenMP atomic update in the program as built", floor=6)


LATENT_OPENMP = True


def run(rep, prog, tier):
    if not rep.rules:
        declare(rep)
    _run(rep, prog, tier, None)
    lat = getattr(prog, "latent", None)
    if lat is not None:
        # units built without -fopenmp whose own '#pragma omp' lines are ignored by the product build: the region rules are also
        # decided on what those pragmas state (the same source parsed with -fopenmp), for the functions of those units only
        _run(rep, lat, tier, set(prog.latent_units))


def thread_id_dispatch(prog, fn, reg):
    """conditions `omp_get_thread_num() == K` (K >= 1; also through a local that holds the thread number) in the region body"""
    from ..model import expand, is_call
    body = reg.get("body") if isinstance(reg.get("body"), dict) else (reg["node"].get("body") if isinstance(reg["node"].get("body"), dict) else None)
    if body is None:
        return []
    if any(c.get("kind") == "num_threads" for c in (reg["node"].get("clauses") or [])) if isinstance(reg["node"], dict) and "omp" in reg["node"] else False:
        return []
    rfn = reg.get("fn") or fn
    out = []
    for n in walk(body):
        if n.get("k") != "BinaryOperator" or n.get("op") not in ("==",):
            continue
        e = expand(rfn, n)
        l, r = strip(e["c"][0]), strip(e["c"][1])
        for a, b in ((l, r), (r, l)):
            while a.get("k") in ("ParenExpr", "ImplicitCastExpr") and a.get("c"):
                a = strip(a["c"][0])
            if is_call(a) and a.get("callee") == "omp_get_thread_num" and b.get("k") == "IntegerLiteral" and int(b.get("v", "0")) >= 1:
                out.append((n, b.get("v")))
    return out


def static_locals_on_cone(prog, reg, fn=None):
    """(function, Var) for every non-const function-local static declared in the region body or in a repository function of its
    callee closure"""
    from ..model import is_call
    out = []
    body = reg.get("body") if isinstance(reg.get("body"), dict) else (reg["node"].get("body") if isinstance(reg["node"].get("body"), dict) else None)
    if body is None:
        return out
    rfn = reg.get("fn") or fn
    keys = set()
    for n in walk(body):
        if n.get("k") == "Var" and n.get("static_local") and not (n.get("t") or "").startswith("const ") and rfn is not None:
            out.append((rfn, n))
        if is_call(n):
            keys |= prog.call_targets(n)
    for k in sorted(prog.closure(keys), key=str):
        g = prog.functions.get(k)
        if g is None or not isinstance(g.get("body"), dict) or g.get("pseudo"):
            continue
        for n in walk(g["body"]):
            if n.get("k") == "Var" and n.get("static_local") and not (n.get("t") or "").startswith("const "):
                out.append((g, n))
    return out


def _run(rep, prog, tier, only_units):
    import os
    from ..extract import REPO
    S = e1.Summaries(prog)
    X = e2.Exceptions(prog)
    E = F.Effects(prog)
    RA = e6.RegionAnalysis(prog, E)
    nreg = 0
    for fn in product_fns(prog):
        if not isinstance(fn.get("body"), dict):
            continue
        if only_units is not None and os.path.relpath(fn.get("file", ""), REPO) not in only_units:
            continue
        regs = list(e6.parallel_regions(prog, fn))
        for reg in regs:
            nreg += 1
            node = reg["node"]
            if reg.get("opaque"):
                raise AnalysisBroken("%s: per-element callable of parallel_exception_handler cannot be resolved to a lambda" % prog.loc(fn, node))
            # (1) containment: only for real OpenMP directives (the handler call sites are contained by the handler's own region)
            if "omp" in node:
                esc = X.escapes(fn, node["body"]) if isinstance(node.get("body"), dict) else {}
                esc.pop("<rethrow>", None)
                if esc:
                    for t, site in sorted(esc.items()):
                        rep.violation("C15.omp-containment", prog, fn, node, "region escapes %s" % t,
                                      "an exception of type %s can leave the '#pragma omp %s' region at line %s (%s): an exception crossing the region boundary terminates the program instead of reaching the caller"
                                      % (t, node["omp"], node.get("l"), site))
                else:
                    rep.ok("C15.omp-containment", prog, fn, node, "omp %s: no exception can leave the region (callees noexcept, or try/catch(...) inside the region)" % node["omp"])
                eptr(rep, prog, fn, node)
            # (1b) function-local statics on the region's cone
            st = static_locals_on_cone(prog, reg, fn)
            for g_, v_ in st:
                rep.violation("C15.static-local", prog, g_, v_, "mutable static local '%s' reachable from a parallel region" % v_.get("name"),
                              "%s declares the function-local static '%s' (%s) and is executed by the threads of the %s region at %s: all threads share that one object, so concurrent calls overwrite each other's data (results depend on the schedule)"
                              % (g_["qn"], v_.get("name"), v_.get("t"), reg["kind"], prog.loc(fn, node)))
            if not st:
                rep.ok("C15.static-local", prog, fn, node, "%s region: no mutable function-local static in the region body or its callee closure" % reg["kind"])
            # (1c) work dispatched by thread id
            tid = thread_id_dispatch(prog, fn, reg)
            for cnode, kk in tid:
                rep.violation("C15.thread-id-dispatch", prog, reg.get("fn", fn), cnode, "work reserved for thread %s" % kk,
                              "inside the %s region at %s the statement guarded by '%s' runs only on the thread whose number is %s: when the team has %s thread(s) or fewer (nb_threads = %s, a single-core machine, nested parallelism) nobody executes it - e.g. one of the two output files is never written - and the outcome depends on the number of threads" % (reg["kind"], prog.loc(fn, node), short(cnode, 60), kk, kk, kk))
            if not tid:
                rep.ok("C15.thread-id-dispatch", prog, fn, node, "%s region: no statement is reserved for a thread number other than 0" % reg["kind"])
            # (1d) the work of a region is divided among the threads: a statement of a bare `omp parallel` block that is not inside
            # a work-sharing construct is executed by every thread of the team
            if isinstance(node, dict) and "omp" in node:
                words = set(node["omp"].split())
                redundant = []
                if "parallel" in words and not ({"for", "sections", "single", "master", "masked", "loop"} & words):
                    b_ = node.get("body") or {}
                    for st_ in (b_.get("c", []) if b_.get("k") == "CompoundStmt" else [b_]):
                        if not isinstance(st_, dict) or st_.get("k") in ("DeclStmt", "NullStmt"):
                            continue
                        if "omp" in st_ and ({"for", "sections", "single", "master", "masked", "critical", "barrier", "loop"} & set(st_["omp"].split())):
                            continue
                        redundant.append(st_)
                if redundant:
                    rep.violation("C15.work-shared", prog, fn, redundant[0], "statement of a parallel block executed by every thread",
                                  "the '#pragma omp %s' block at %s has no work-sharing construct around the statement at line %s (%s): every thread of the team executes it in full, so with N threads its effects (forces accumulated, objects inserted, files written) are applied N times - the result is correct with one thread only" % (node["omp"], prog.loc(fn, node), redundant[0].get("l"), short(redundant[0], 60)))
                else:
                    rep.ok("C15.work-shared", prog, fn, node, "omp %s: the statements of the region are divided among the threads by a work-sharing construct" % node["omp"])
            # (4) shared mutation
            recs = RA.analyse(fn, reg)
            rfn = reg.get("fn", fn)
            bad = {}
            for r in recs:
                if r["cls"] in ("shared", "shared-local"):
                    if only_units is not None and r["cls"] == "shared":
                        # latent units: the lower-id-cell-owns-the-pair protocol of the integrator is not modelled (and the
                        # product runs these loops serially); only writes to variables declared outside the region are decided
                        r["cls"] = "not-decided(latent)"
                        continue
                    if _iota_own_slot(prog, fn, reg, r):
                        r["cls"] = "own"
                        continue
                    key = (F.fmt_effect((r["place"][0], r["place"][1][:3], None)), r["via"] or short(r["node"], 50))
                    bad.setdefault(key, []).append(r)
            cls = {}
            for r in recs:
                cls[r["cls"]] = cls.get(r["cls"], 0) + 1
            if not bad:
                rep.ok("C15.shared-mutation", prog, fn, node, "%s region: %d mutation effects classified %s" % (reg["kind"], len(recs), cls))
            for (place, via), rs in sorted(bad.items()):
                r = rs[0]
                rootname = place
                rep.violation("C15.shared-mutation", prog, rfn, r["node"], "unsynchronised write to %s via %s" % (re.sub(r"local\(\d+\)", lambda m: "local", place), via),
                              "inside the %s region at %s, %s mutates %s (%s) which is shared between the threads, without atomic / critical / lock and not confined to the loop's own element"
                              % (reg["kind"], prog.loc(fn, node), short(r["node"], 80), _place_name(r), "through " + via if r["via"] else "directly"))
        # (3)
        regions, sr = shared_resize(S, prog, fn)
        for r in regions:
            if not any(x["region"] is r for x in sr):
                rep.ok("C15.shared-resize", prog, fn, r, "parallel region: no shared container is resized in it, or all its accesses are under the same critical section")
        byc = {}
        for x in sr:
            byc.setdefault((id(x["region"]), x["container"]), []).append(x)
        for (_, cname), xs in byc.items():
            callee = xs[0]["resize"].get("callee", "?")
            fp = "%s resized by %s in parallel region ; access outside critical" % (cname, callee.split("<")[0] + "::" + callee.split("::")[-1])
            rep.violation("C15.shared-resize", prog, fn, xs[0]["access"], fp,
                          "'%s' is resized by %s (line %s) inside the OpenMP parallel region at line %s while other threads read it outside that critical section at line(s) %s: the population list is read while another thread is resizing it"
                          % (cname, callee, xs[0]["resize"].get("l"), xs[0]["region"].get("l"), ",".join(sorted({str(x["access"].get("l")) for x in xs}))))
    if only_units is not None:
        return
    if nreg < 8:
        raise AnalysisBroken("only %d parallel regions found" % nreg)
    atomic_accumulator(rep, prog)
    from .c10 import run_remove_index
    par_fns = {f["qn"] for f in product_fns(prog) if isinstance(f.get("body"), dict) and any(True for _ in e6.parallel_regions(prog, f))}
    run_remove_index(rep, prog, rule="C15.remove-index-sorted", only=par_fns)
    from . import c08
    c08.renumber(rep, prog, rule="C15.population-renumbering", only=("cell_divider::run",))


def _place_name(r):
    root, path = r["place"]
    if isinstance(root, tuple) and root[0] == "local":
        return "the local variable '%s' declared outside the region" % root[2]
    return F.fmt_effect((root, path, None))


def _iota_own_slot(prog, fn, reg, r):
    """Idiom (DESIGN 3.9): cell_lst_[cell_id] = c where cell_id is the handler's own (by-value) element of a
    vector filled by std::iota in the same function: distinct slots, container not resized in the region."""
    if reg["kind"] != "parallel_exception_handler" or not reg.get("own"):
        return False
    t = strip(r["target"]) if r.get("target") is not None else None
    n = r["node"]
    if n.get("k") not in ("CXXOperatorCallExpr", "BinaryOperator") or n.get("op") != "=":
        return False
    lhs = strip(n["c"][1] if n.get("k") == "CXXOperatorCallExpr" else n["c"][0])
    if not (lhs.get("k") == "CXXOperatorCallExpr" and lhs.get("op") == "[]"):
        return False
    idx = strip(lhs["c"][2])
    if not (idx.get("k") == "DeclRefExpr" and idx["ref"]["did"] == reg["own"][1]):
        return False
    vec = strip(call_args(reg["node"])[0])
    if vec.get("k") != "DeclRefExpr":
        return False
    for m in walk(fn["body"]):
        if m.get("k") == "CallExpr" and m.get("callee") == "std::iota":
            a = call_args(m)
            o = call_obj(strip(a[0])) if strip(a[0]).get("k") == "CXXMemberCallExpr" else None
            if o is not None and strip(o).get("k") == "DeclRefExpr" and strip(o)["ref"]["did"] == vec["ref"]["did"]:
                return True
    return False


def eptr(rep, prog, fn, region, rule="C15.eptr-discipline"):
    fi = prog.index(fn)
    body = region.get("body")
    if not isinstance(body, dict):
        return
    for t in walk(body, into_lambdas=False):
        if t.get("k") != "CXXTryStmt":
            continue
        # an exception is transported out of the region by catch(...) + std::current_exception(): a typed handler that rebuilds
        # the exception (std::make_exception_ptr(e) of a caught base reference) copies it with its STATIC type - the caller
        # receives a bare std::exception instead of the exception that was thrown
        for h in t.get("handlers", []):
            mk = [x for x in walk(h["body"]) if x.get("k") == "CallExpr" and x.get("callee") == "std::make_exception_ptr"]
            if mk:
                rep.violation(rule, prog, fn, mk[0], "exception re-created from a caught reference (sliced)",
                              "the handler 'catch(%s)' inside the parallel region at line %s stores %s: make_exception_ptr copies the object with the static type of the handler parameter, so the dynamic type and message of the "
                              "exception thrown by the worker (e.g. the initialisation exception) are lost before the caller sees it" % (h["type"], region.get("l"), short(mk[0], 50)))
        if not any(h["type"] == "..." for h in t.get("handlers", [])) and any(x.get("k") == "CallExpr" and x.get("callee") in ("std::current_exception", "std::make_exception_ptr") for h in t.get("handlers", []) for x in walk(h["body"])):
            rep.violation(rule, prog, fn, t, "no catch(...) in the transporting try",
                          "the try block inside the parallel region at line %s transports exceptions to the caller but has no catch(...) handler: an exception of another type crosses the region boundary (std::terminate)" % region.get("l"))
        for h in t.get("handlers", []):
            if h["type"] != "...":
                continue
            def _flat(b):
                out_ = []
                for x_ in b.get("c", []):
                    if x_.get("k") == "CompoundStmt":
                        out_ += _flat(x_)       # a plain nested block (e.g. a helper inlined by the normaliser)
                    elif x_.get("k") == "DeclStmt" and all(d_.get("inlined_param") for d_ in x_.get("decls", [])):
                        continue
                    else:
                        out_.append(x_)
                return out_
            stmts = _flat(h["body"])
            ok = len(stmts) == 1 and stmts[0].get("omp") == "critical"
            var = None
            if ok:
                inner = stmts[0].get("body", {})
                ist = inner.get("c", []) if inner.get("k") == "CompoundStmt" else [inner]
                if len(ist) == 1:
                    a = strip(ist[0])
                    if a.get("k") == "CXXOperatorCallExpr" and a.get("op") == "=":
                        rhs = strip(a["c"][2])
                        lhs = strip(a["c"][1])
                        if rhs.get("k") == "CallExpr" and rhs.get("callee") == "std::current_exception" and lhs.get("k") == "DeclRefExpr":
                            var = lhs["ref"]
            if var is None:
                rep.violation(rule, prog, fn, h, "catch(...) handler does more than store",
                              "the catch(...) handler inside the parallel region at line %s must only store std::current_exception() under '#pragma omp critical'" % region.get("l"))
                continue
            # rethrow right after the region, in the enclosing statement sequence
            parent, slot = fi.parent.get(id(region), (None, None))
            after = []
            if parent is not None and parent.get("k") == "CompoundStmt":
                i = [j for j, c in enumerate(parent["c"]) if c is region][0]
                after = parent["c"][i + 1:]
            found = False
            # form 2:  if(!e) return;  std::rethrow_exception(e);
            for i_, s in enumerate(after[:-1]):
                if s.get("k") == "IfStmt" and s.get("else") is None:
                    c_ = strip(s["cond"])
                    neg_ = False
                    while c_.get("k") == "UnaryOperator" and c_.get("op") == "!":
                        neg_ = not neg_
                        c_ = strip(c_["c"][0])
                    refs_ = [x for x in walk(c_) if x.get("k") == "DeclRefExpr"]
                    from ..model import always_exits as _ae
                    if neg_ and refs_ and all(x["ref"]["did"] == var["did"] for x in refs_) and _ae(s["then"]) and not any(x.get("k") == "CXXThrowExpr" for x in walk(s["then"])):
                        nx = after[i_ + 1]
                        th = [x for x in walk(nx) if x.get("k") == "CallExpr" and x.get("callee") == "std::rethrow_exception"]
                        if th and nx.get("k") not in ("IfStmt", "ForStmt", "WhileStmt"):
                            arg = strip(call_args(th[0])[0])
                            while arg.get("k") in ("CXXConstructExpr",) and arg.get("c"):
                                arg = strip(arg["c"][0])
                            if arg.get("k") == "DeclRefExpr" and arg["ref"]["did"] == var["did"]:
                                found = True
                break
            for s in ([] if found else after):
                if s.get("k") == "IfStmt":
                    cond_refs = [x for x in walk(s["cond"]) if x.get("k") == "DeclRefExpr"]
                    thens = [x for x in walk(s["then"]) if x.get("k") == "CallExpr" and x.get("callee") == "std::rethrow_exception"]
                    if thens and cond_refs and all(x["ref"]["did"] == var["did"] for x in cond_refs):
                        arg = strip(call_args(thens[0])[0])
                        # rethrow_exception takes its argument by value: peel the copy
                        while arg.get("k") in ("CXXConstructExpr",) and arg.get("c"):
                            arg = strip(arg["c"][0])
                        if arg.get("k") == "DeclRefExpr" and arg["ref"]["did"] == var["did"]:
                            found = True
                            break
                if s.get("k") == "ReturnStmt":
                    break
            inside = any(x.get("k") in ("Var",) and x.get("did") == var["did"] for x in walk(body))
            if found and not inside:
                rep.ok(rule, prog, fn, h, "catch(...) stores current_exception() into '%s' under critical; 'if(%s) rethrow_exception(%s)' follows the region" % (var["name"], var["name"], var["name"]))
            else:
                rep.violation(rule, prog, fn, h, "stored exception not rethrown after region",
                              "the exception stored in '%s' by the catch(...) handler of the region at line %s is not rethrown by an 'if(%s) std::rethrow_exception(%s)' directly after the region%s: the caller never sees the error"
                              % (var["name"], region.get("l"), var["name"], var["name"], " (variable is private to the region)" if inside else ""))


def atomic_accumulator(rep, prog):
    fns = prog.fns("vec3::translate")

    def field_of(fn, lhs):
        """the vec3 component an lvalue designates: a member access, or a reference local bound to one (an inlined helper's
        reference parameter)"""
        lhs = strip(lhs)
        if lhs.get("k") == "MemberExpr" and (lhs.get("ref") or {}).get("qn", "").startswith("vec3::d"):
            return lhs["ref"]["name"]
        if lhs.get("k") == "DeclRefExpr" and (lhs.get("ref") or {}).get("dk") == "Var":
            for v in walk(fn["body"]):
                if v.get("k") == "Var" and v.get("did") == lhs["ref"].get("did") and (v.get("t") or "").rstrip().endswith("&") and isinstance(v.get("init"), dict):
                    return field_of(fn, v["init"])
        return None

    for fn in fns:
        fi = prog.index(fn)
        n = 0
        for m in walk(fn["body"]):
            if m.get("k") == "CompoundAssignOperator" or (m.get("k") == "BinaryOperator" and m.get("op") == "="):
                name = field_of(fn, m["c"][0])
                if name is not None:
                    n += 1
                    sync = F.sync_of(fi, m)
                    if sync == "atomic":
                        rep.ok("C15.atomic-accumulator", prog, fn, m, "%s (component %s) is under '#pragma omp atomic'" % (short(m, 40), name))
                    else:
                        rep.violation("C15.atomic-accumulator", prog, fn, m, "non-atomic %s" % name,
                                      "%s in %s is not an OpenMP atomic update in the program as built (pragma missing, or the translation unit is compiled without -fopenmp so the pragma is ignored): concurrent node::add_force calls from the contact phase lose updates"
                                      % (short(m, 40), fn["key"]))
        if n == 0:
            # an overload that hands its three components to another overload of translate on the same object
            deleg = [c for c in walk(fn["body"]) if c.get("k") == "CXXMemberCallExpr" and c.get("callee") == "vec3::translate" and c.get("ckey") != fn["key"]
                     and strip(call_obj(c) or {}).get("k") == "CXXThisExpr" and fi.enclosing(c, ("IfStmt", "ForStmt", "WhileStmt", "CXXForRangeStmt")) is None]
            if len(deleg) == 1:
                for comp in ("dx_", "dy_", "dz_"):
                    rep.ok("C15.atomic-accumulator", prog, fn, deleg[0], "%s: component %s is updated by the overload it delegates to (%s)" % (fn["key"], comp, deleg[0].get("ckey")))
                continue
        if n != 3:
            raise AnalysisBroken("vec3::translate: expected 3 component updates, found %d" % n)
