"""C11 - remeshing is physically neutral, selective (structural / algebraic clauses)."""
import re

import sympy as sp

from .. import e1
from ..model import walk, strip, is_call, call_obj, call_args, render, short, AnalysisBroken
from .. import sym as S
from .c10 import product_fns

EXPLANATION = ("LF engine + flow rules on the local mesh refiner: (1) momentum ledger of split_edge (2/3 p_a + 2/3 p_b + (p_a+p_b)/3 == p_a+p_b) and of "
               "merge_edge (new node carries p_a+p_b) for all operand values (DYNAMIC_MODEL_INDEX 0); (2) the node added by split/merge sits at "
               "(x_a+x_b)/2 of the edge's own end nodes; (3) no function in refine_mesh's callee closure mutates the pos_ of an existing node; "
               "(4) in split_edge every new face receives the face-type label of the parent triangle on its own side of the edge (side = which "
               "opposite node the face is built on); (5) split_edge is only called under l2 > l_max^2, merge_edge under l2 < l_min^2 and "
               "can_be_merged, swap_edge under score < threshold (and the enable flag), with l2 the squared length of that very edge and the "
               "thresholds the squares of the constructor arguments. Not decided: termination of the refinement loop (rests on geometry), "
               "volume/area effects.")
ASSUMPTIONS = ["cell::add_node/replace_node/delete_* are not opened: the ledgers are established on the values handed to them"]


def declare(rep):
    rep.rule("C11.momentum-split", "split_edge: momenta of a, b and the new node sum to p_a + p_b", floor=1)
    rep.rule("C11.momentum-merge", "merge_edge: the new node's momentum is p_a + p_b", floor=1)
    rep.rule("C11.midpoint", "the node added by split_edge / merge_edge is at (x_a + x_b)/2 of the edge's own nodes", floor=2)
    rep.rule("C11.no-move", "no function in refine_mesh's closure mutates pos_ of an existing node", floor=20)
    rep.rule("C11.label-propagation", "split_edge gives each new face the type label of the parent face on its side", floor=4)
    rep.rule("C11.winding-side", "split_edge orients the children of each parent face with that face's own normal and opposite node", floor=2)
    rep.rule("C11.bounded", "refine_mesh returns after a bounded number of operations: its work loop is bounded by the operation counter, every pass pops an edge first, every call that can refill the work list is paired with counter++, "
             "and no counted for-loop of the refinement closure changes its own induction variable in the body", floor=3)
    rep.rule("C11.triangle-score", "get_triangle_score measures the three distinct edges of the triangle and returns, in every branch, an edge whose measured length is maximal under the comparisons that lead to that branch (decided over all weak orderings of the three lengths)", floor=4)
    rep.rule("C11.worklist-fresh", "refine_mesh copies the cell's edge set into its work list after the last operation that can change that edge set (the swap stage): a copy taken earlier names edges that no longer exist, which are then split / merged", floor=1)
    rep.rule("C11.selective", "split only if l2 > l_max^2, merge only if l2 < l_min^2 and can_be_merged, swap only if score < threshold; thresholds are squares of the constructor arguments", floor=5)


def added_node(prog, fn):
    """(add_node call, local Var node being added)"""
    for n in walk(fn["body"]):
        if n.get("k") == "CXXMemberCallExpr" and n.get("callee") == "cell::add_node":
            a = strip(call_args(n)[0])
            if a.get("k") == "DeclRefExpr":
                return n, a
    raise AnalysisBroken("%s: add_node(<local>) not found" % fn["qn"])


def exec_prefix(prog, fn, stop_call):
    ev = S.SymEval(prog, fn)
    fi = prog.index(fn)
    stop_stmt = None
    for p, slot, ch in fi.ancestors(stop_call):
        if p is fn["body"]:
            stop_stmt = ch
    if stop_stmt is None:
        raise AnalysisBroken("%s: add_node is not in the top-level block" % fn["qn"])
    for s in fn["body"]["c"]:
        if s is stop_stmt:
            break
        try:
            ev.exec_stmt(s)
        except S.Decline:
            ev.havoc(s)
    return ev


def vec(ev, v):
    return [sp.sympify(x) for x in ev.record_of(v).f.values()]


def worklist_fresh(rep, prog):
    from .. import effects as F
    rm = prog.fn("local_mesh_refiner::refine_mesh")
    fi = prog.index(rm)
    E = F.Effects(prog)
    copies = [v for v in walk(rm["body"]) if v.get("k") == "Var" and isinstance(v.get("init"), dict) and any(is_call(x) and x.get("callee") == "cell::get_edge_set" for x in walk(v["init"])) and not (v.get("t") or "").rstrip().endswith("&")]
    if not copies:
        raise AnalysisBroken("refine_mesh: copy of the cell's edge set (work list) not found")
    for v in copies:
        uses = [x for x in walk(rm["body"]) if x.get("k") == "DeclRefExpr" and (x.get("ref") or {}).get("did") == v["did"]]
        loops = [fi.enclosing(u, ("WhileStmt", "ForStmt", "DoStmt")) for u in uses]
        loops = [l for l in loops if l is not None]
        first_loop = min((fi.order[id(l)] for l in loops), default=None)
        if first_loop is None:
            continue
        stale = []
        for c in walk(rm["body"]):
            if not is_call(c) or not (fi.order[id(v)] < fi.order[id(c)] < first_loop):
                continue
            for tk in prog.call_targets(c):
                if any("edge_set_" in (p_[-1] if p_ else "") for (r_, p_, s_, g_) in E.writes.get(tk, ()) if isinstance(p_, tuple) and p_):
                    stale.append(c)
                    break
        if stale:
            rep.violation("C11.worklist-fresh", prog, rm, v, "work list copied before %s" % stale[0].get("callee", "?").split("::")[-1],
                          "refine_mesh copies the edge set into '%s' at line %s, then calls %s (line %s), which may swap edges (it writes cell::edge_set_), and only then walks the copy: an edge that the swap removed is still in the work list; if it is longer than l_max it is 'split' - a node is inserted at the midpoint of an edge that no longer exists and the swap is undone on a mesh that was already within the band"
                          % (v.get("name"), v.get("l"), stale[0].get("callee"), stale[0].get("l")))
        else:
            rep.ok("C11.worklist-fresh", prog, rm, v, "'%s' is copied after every call that can change the edge set and before the loop that walks it" % v.get("name"))


def run(rep, prog, tier):
    if not rep.rules:
        declare(rep)
    cm, dm = prog.config
    worklist_fresh(rep, prog)
    bounded(rep, prog)
    triangle_score(rep, prog)
    split = prog.fn("local_mesh_refiner::split_edge")
    merge = prog.fn("local_mesh_refiner::merge_edge")
    for fn, which in ((split, "split"), (merge, "merge")):
        call, nvar = added_node(prog, fn)
        try:
            ev = exec_prefix(prog, fn, call)
            new = ev.ev(nvar)
            if not isinstance(new, (S.Rec, S.Lazy)):
                raise S.Decline("new node is not a record")
            new = ev.record_of(new)
            # the edge's own end nodes
            e_param = fn["params"][0]
            c_param = fn["params"][1]
            ends = []
            for m in ("n1", "n2"):
                path = "%s.node_lst_[%s.%s_id_]" % (c_param["name"], e_param["name"], m)
                ends.append(S.Lazy(path, "node"))
            xa, xb = [vec(ev, ev.field(x, "pos_", "vec3")) for x in ends]
            xn = vec(ev, new.f["pos_"])
            if all(S.zero(xn[i] - (xa[i] + xb[i]) / 2) for i in range(3)):
                rep.ok("C11.midpoint", prog, fn, call, "%s_edge: new node position == (x_a + x_b)/2 of the nodes of the edge passed in" % which)
            else:
                rep.violation("C11.midpoint", prog, fn, call, "%s: new node not at the edge midpoint" % which,
                              "%s_edge adds a node at %s, which is not the midpoint of the edge's end nodes" % (which, str(xn[0])[:100]))
            if dm == 0:
                pa0, pb0 = [[sp.Symbol("%s.momentum_.%s" % (x.path, c), real=True) for c in ("dx_", "dy_", "dz_")] for x in ends]
                pa1, pb1 = [vec(ev, ev.field(x, "momentum_", "vec3")) for x in ends]
                pn = vec(ev, new.f["momentum_"])
                if which == "split":
                    ok = all(S.zero(pa1[i] + pb1[i] + pn[i] - pa0[i] - pb0[i]) for i in range(3))
                    if ok:
                        rep.ok("C11.momentum-split", prog, fn, call, "p_a' + p_b' + p_new == p_a + p_b  (p_a' = %s, p_new = %s)" % (pa1[0], pn[0]))
                    else:
                        rep.violation("C11.momentum-split", prog, fn, call, "split does not conserve momentum",
                                      "split_edge leaves p_a' + p_b' + p_new - (p_a + p_b) = %s (x component): the refinement pass changes the total momentum of the cell" % sp.simplify(pa1[0] + pb1[0] + pn[0] - pa0[0] - pb0[0]))
                else:
                    ok = all(S.zero(pn[i] - pa0[i] - pb0[i]) for i in range(3))
                    if ok:
                        rep.ok("C11.momentum-merge", prog, fn, call, "p_new == p_a + p_b")
                    else:
                        rep.violation("C11.momentum-merge", prog, fn, call, "merge does not conserve momentum",
                                      "merge_edge gives the new node the momentum %s (x component) instead of p_a + p_b: the two deleted nodes' momentum is not conserved" % pn[0])
            else:
                rep.ok("C11.momentum-" + which, prog, fn, call, "overdamped model: nodes carry no momentum")
        except S.Decline as e:
            raise AnalysisBroken("%s: cannot summarise the prefix of %s_edge: %s" % (prog.loc(fn), which, e))
    no_move(rep, prog)
    labels(rep, prog, split)
    winding_sides(rep, prog, split)
    selective(rep, prog)


def no_move(rep, prog):
    root = prog.fn("local_mesh_refiner::refine_mesh")
    clo = prog.closure([root["key"]])
    for k in sorted(clo):
        fn = prog.functions[k]
        if "/lib/" in fn["file"] or not isinstance(fn.get("body"), dict):
            continue
        if fn.get("cls") in ("vec3",) or fn.get("pseudo"):
            continue
        bad = []
        for n in walk(fn["body"]):
            t = None
            kk = n.get("k")
            if kk in ("BinaryOperator", "CompoundAssignOperator") and (n.get("op") == "=" or kk == "CompoundAssignOperator"):
                t = n["c"][0]
            elif kk == "CXXOperatorCallExpr" and n.get("op") in ("=", "+=", "-=") and len(n["c"]) >= 2:
                t = n["c"][1]
            elif kk == "CXXMemberCallExpr" and not n.get("cconst"):
                t = call_obj(n)
            if t is None:
                continue
            tt = strip(t)
            if tt.get("k") == "MemberExpr" and tt["ref"].get("qn") == "node::pos_":
                bad.append(n)
        legit = (fn.get("ctor") and fn.get("cls") == "node") or fn["qn"] in ("node::reset", "node::operator=")
        if bad and not legit:
            rep.violation("C11.no-move", prog, fn, bad[0], "%s mutates node::pos_" % fn["qn"],
                          "%s, reachable from local_mesh_refiner::refine_mesh, modifies the position of a node (%s): a refinement pass must not move surviving nodes" % (fn["qn"], short(bad[0], 80)))
        else:
            rep.ok("C11.no-move", prog, fn, None, "no mutation of node::pos_" + (" (constructs / clears a node)" if bad else ""))


def _alias_root(fn, did, depth=4):
    """the variable a const local merely names (T x = y; chains), else the variable itself"""
    from ..model import stable_locals
    st = stable_locals(fn)
    for _ in range(depth):
        i = strip(st[did]) if did in st else {}
        while i.get("k") == "ParenExpr" and i.get("c"):
            i = strip(i["c"][0])
        if i.get("k") == "DeclRefExpr" and (i.get("ref") or {}).get("dk") in ("Var", "ParmVar") and i["ref"].get("did") is not None:
            did = i["ref"]["did"]
        else:
            break
    return did


def labels(rep, prog, split):
    fi = prog.index(split)
    # locals: opposite node of face X ; type label of face X
    opp = {}   # did of id local -> did of the face variable it was taken from
    lab = {}   # did of label local -> did of face variable
    for n in walk(split["body"]):
        if n.get("k") == "Var" and isinstance(n.get("init"), dict):
            i = strip(n["init"])
            if i.get("k") == "CXXMemberCallExpr" and i.get("callee") in ("face::get_opposite_node", "face::get_local_face_type_id"):
                o = strip(call_obj(i))
                if o.get("k") == "DeclRefExpr":
                    (opp if i["callee"].endswith("get_opposite_node") else lab)[n["did"]] = o["ref"]["did"]
    # face id variables assigned from create_face(...)
    side = {}  # did of face-id variable -> set of face-variable dids (sides) it was built on
    for n in walk(split["body"]):
        tgt = rhs = None
        if n.get("k") == "BinaryOperator" and n.get("op") == "=" and strip(n["c"][0]).get("k") == "DeclRefExpr":
            tgt, rhs = strip(n["c"][0])["ref"]["did"], n["c"][1]
        elif n.get("k") == "Var" and isinstance(n.get("init"), dict):
            tgt, rhs = n["did"], n["init"]
        if tgt is None:
            continue
        # every create_face call the value may come from (both arms of a conditional expression)
        for r in walk(rhs):
            if r.get("k") == "CXXMemberCallExpr" and r.get("callee") == "cell::create_face":
                for a in call_args(r):
                    a = strip(a)
                    if a.get("k") == "DeclRefExpr" and _alias_root(split, a["ref"]["did"]) in opp:
                        side.setdefault(tgt, set()).add(opp[_alias_root(split, a["ref"]["did"])])
    # an id variable that receives the value of another id variable (x = y; / T x = y;) is built on y's side(s)
    copied_from = set()
    copies = []
    for _round in range(3):
        for n in walk(split["body"]):
            tgt = rhs = None
            if n.get("k") == "BinaryOperator" and n.get("op") == "=" and strip(n["c"][0]).get("k") == "DeclRefExpr":
                tgt, rhs = strip(n["c"][0])["ref"]["did"], strip(n["c"][1])
            elif n.get("k") == "Var" and isinstance(n.get("init"), dict):
                tgt, rhs = n["did"], strip(n["init"])
            if tgt is not None and rhs.get("k") == "DeclRefExpr" and rhs["ref"].get("did") in side:
                side.setdefault(tgt, set()).update(side[rhs["ref"]["did"]])
                copied_from.add(rhs["ref"]["did"])
                copies.append((tgt, rhs["ref"]["did"]))
    n_sites = 0
    for n in walk(split["body"]):
        if n.get("k") == "CXXMemberCallExpr" and n.get("callee") == "face::set_face_type_id":
            o = strip(call_obj(n))
            a = strip(call_args(n)[0])
            if o.get("k") == "CXXMemberCallExpr" and o.get("callee") == "cell::get_face":
                idv = strip(call_args(o)[0])
                if idv.get("k") == "DeclRefExpr" and a.get("k") != "DeclRefExpr" and idv["ref"]["did"] in side:
                    n_sites += 1
                    rep.violation("C11.label-propagation", prog, split, n, "label of face %s is not a value saved from the parent face" % idv["ref"]["name"],
                                  "%s: the label given to the new face must be the parent triangle's label read BEFORE the parent is deleted (a local initialised from f_k.get_local_face_type_id()); here it is the expression %s, evaluated after delete_face/create_face have recycled the parent's slot" % (short(n, 70), short(a, 60)))
                    continue
                if idv.get("k") == "DeclRefExpr" and a.get("k") == "DeclRefExpr":
                    n_sites += 1
                    s = side.get(idv["ref"]["did"], set())
                    want = lab.get(a["ref"]["did"])
                    if not s:
                        raise AnalysisBroken("split_edge: the create_face call that produces the id '%s' cannot be traced (e.g. returned by a lambda as a pair); label-propagation is not decided" % idv["ref"]["name"])
                    if len(s) == 1 and want in s:
                        rep.ok("C11.label-propagation", prog, split, n, "face %s (built on the side of one parent) receives that parent's label %s" % (idv["ref"]["name"], a["ref"]["name"]))
                    else:
                        rep.violation("C11.label-propagation", prog, split, n, "face %s receives the label of the other side" % idv["ref"]["name"],
                                      "%s: face %s is created on the side of one parent triangle but receives '%s', the label of %s: the face-type label is not passed on to the triangles the split divides the parent into"
                                      % (short(n, 70), idv["ref"]["name"], a["ref"]["name"], "the other parent" if want is not None else "an unrelated value"))
    dels = [n for n in walk(split["body"]) if n.get("k") == "CXXMemberCallExpr" and n.get("callee", "").startswith("cell::delete_face")]
    for did, fdid in lab.items():
        d = [v for v in walk(split["body"]) if v.get("k") == "Var" and v.get("did") == did][0]
        if dels and fi.order[id(d)] > min(fi.order[id(x)] for x in dels):
            rep.violation("C11.label-propagation", prog, split, d, "label %s read after the parent face was deleted" % d["name"], "'%s' is read from the parent face after delete_face: the slot may already describe another face" % d["name"])
    # one created face = one class of id variables connected by copies (x = y; / T x = y;); it is labelled when any variable of
    # its class is the argument of get_face(...).set_face_type_id
    root = {d: d for d in side}
    def find(d):
        while root[d] != d:
            d = root[d]
        return d
    for a_, b_ in copies:
        if a_ in root and b_ in root:
            root[find(a_)] = find(b_)
    classes = {find(d) for d in side}
    labelled = set()
    for n in walk(split["body"]):
        if n.get("k") == "CXXMemberCallExpr" and n.get("callee") == "face::set_face_type_id":
            o = strip(call_obj(n))
            if o.get("k") == "CXXMemberCallExpr" and o.get("callee") == "cell::get_face":
                idv = strip(call_args(o)[0])
                if idv.get("k") == "DeclRefExpr" and idv["ref"].get("did") in root:
                    labelled.add(find(idv["ref"]["did"]))
    created = classes
    n_sites = len(labelled) if n_sites else 0
    if n_sites < len(created) or n_sites == 0:
        rep.violation("C11.label-propagation", prog, split, None, "%d of %d new faces labelled" % (n_sites, len(created)), "split_edge creates %d faces but labels only %d of them: the others silently get face type 0" % (len(created), n_sites))


def winding_sides(rep, prog, split):
    """each orientation test of split_edge uses the opposite node AND the normal of the same parent face, and the
    faces created under it are built on that parent's opposite node"""
    fi = prog.index(split)
    def side_of_local(did, seen=None):
        """set of parent-face variable dids a local's value derives from"""
        seen = seen or set()
        if did in seen:
            return set()
        seen.add(did)
        out = set()
        for v in walk(split["body"]):
            if v.get("k") == "Var" and v.get("did") == did and isinstance(v.get("init"), dict):
                for x in walk(v["init"]):
                    if x.get("k") == "CXXMemberCallExpr" and x.get("callee") in ("face::get_opposite_node", "face::get_normal"):
                        o = strip(call_obj(x))
                        if o.get("k") == "DeclRefExpr":
                            out.add(o["ref"]["did"])
                    if x.get("k") == "DeclRefExpr" and x["ref"].get("dk") == "Var" and x["ref"]["did"] != did:
                        out |= side_of_local(x["ref"]["did"], seen)
        return out
    n_tests = 0
    covered_sides = set()
    covered_calls = set()
    for n in walk(split["body"]):
        if n.get("k") == "IfStmt":
            cond_node = n["cond"]
            creates = [x for x in walk(n) if x.get("k") == "CXXMemberCallExpr" and x.get("callee") == "cell::create_face"]
        elif n.get("k") == "ConditionalOperator" and len(n.get("c", [])) == 3:
            cond_node = n["c"][0]
            creates = [x for x in list(walk(n["c"][1])) + list(walk(n["c"][2])) if x.get("k") == "CXXMemberCallExpr" and x.get("callee") == "cell::create_face"]
        else:
            continue
        if not creates:
            continue
        n_tests += 1
        covered_calls |= {id(x) for x in creates}
        n = dict(n, cond=cond_node)
        cs = set()
        for x in walk(n["cond"]):
            if x.get("k") == "DeclRefExpr" and x["ref"].get("dk") == "Var":
                cs |= side_of_local(x["ref"]["did"])
        bs = set()
        for c in creates:
            for a in call_args(c):
                a = strip(a)
                if a.get("k") == "DeclRefExpr":
                    bs |= side_of_local(a["ref"]["did"])
        covered_sides |= cs
        if len(cs) == 1 and bs == cs:
            pname = [v.get("name") for v in walk(split["body"]) if v.get("k") in ("Var", "ParmVar") and v.get("did") in cs] or [p_.get("name") for p_ in split.get("params", []) if p_.get("did") in cs]
            rep.ok("C11.winding-side", prog, split, n, "orientation test and the faces created under it all refer to one parent face (%s)" % (", ".join(x for x in pname if x) or "parent #%s" % sorted(cs)[0]))
        elif not cs or not bs:
            # neither the test nor the created faces could be traced to a parent face (e.g. the test lives in a lambda that
            # receives the parent's quantities as parameters and is called once per parent): unknown, not a mix-up
            raise AnalysisBroken("split_edge: the orientation test at line %s / the faces created under it cannot be traced to a parent face (quantities of %d parent(s), faces on %d side(s)); winding-side is not decided" % (n.get("l"), len(cs), len(bs)))
        else:
            rep.violation("C11.winding-side", prog, split, n, "orientation test mixes the two parent faces",
                          "the orientation test at line %s uses quantities of %d parent face(s) and creates faces on %d side(s): the opposite node, the reference normal and the new faces must all belong to the same parent triangle, otherwise the children of the other triangle get a reversed winding when the two triangles are folded by more than 90 degrees" % (n.get("l"), len(cs), len(bs)))
    all_calls = {id(x) for x in walk(split["body"]) if x.get("k") == "CXXMemberCallExpr" and x.get("callee") == "cell::create_face"}
    if len(covered_sides) != 2 or all_calls - covered_calls:
        rep.violation("C11.winding-side", prog, split, None, "%d orientation decisions over %d parent face(s)" % (n_tests, len(covered_sides)),
                      "split_edge must orient the children of each of the two parent faces with an orientation test of that face: found %d decision(s) covering %d parent face(s), %d create_face call(s) under no decision" % (n_tests, len(covered_sides), len(all_calls - covered_calls)))


def selective(rep, prog):
    rm0 = prog.fn("local_mesh_refiner::refine_mesh")
    hosts = prog.with_new_helpers(rm0)
    found = {"local_mesh_refiner::split_edge": 0, "local_mesh_refiner::merge_edge": 0}
    for rm in hosts:
        _selective_in(rep, prog, rm, found)
    for callee, cnt in found.items():
        if not cnt:
            raise AnalysisBroken("refine_mesh no longer calls %s" % callee)
    rm = rm0
    fi = prog.index(rm)
    _selective_rest(rep, prog, rm, fi)


def _selective_in(rep, prog, rm, found):
    fi = prog.index(rm)
    # l2 local = squared_norm of (n_a - n_b) with n_a/n_b = get_node(e.n1()/n2()) of the edge variable passed to split/merge
    def is_len2_of(expr, edge_did):
        """expr is |x(e.n1) - x(e.n2)|^2 of the edge variable: a squared_norm() call (directly, or the initialiser of the local
        named by expr) whose operand mentions, through single-assignment locals, both end nodes of that edge"""
        from ..model import def_chain
        e = strip(expr)
        while e.get("k") == "ParenExpr" and e.get("c"):
            e = strip(e["c"][0])
        cands = []
        if e.get("k") == "DeclRefExpr":
            for v in walk(rm["body"]):
                if v.get("k") == "Var" and v.get("did") == e["ref"]["did"] and isinstance(v.get("init"), dict):
                    cands.append(strip(v["init"]))
        else:
            cands.append(e)
        for i in cands:
            while i.get("k") == "ParenExpr" and i.get("c"):
                i = strip(i["c"][0])
            if i.get("k") == "CXXMemberCallExpr" and i.get("callee") == "vec3::squared_norm":
                ends = set()
                for d_ in def_chain(rm, call_obj(i), depth=5):
                    for y in walk(d_):
                        if y.get("k") == "CXXMemberCallExpr" and y.get("callee") in ("edge::n1", "edge::n2"):
                            o = strip(call_obj(y))
                            if o.get("k") == "DeclRefExpr" and o["ref"]["did"] == edge_did:
                                ends.add(y["callee"])
                if ends == {"edge::n1", "edge::n2"}:
                    return True
        return False
    for callee, op, field, extra in (("local_mesh_refiner::split_edge", ">", "local_mesh_refiner::l_max_squared_", None),
                                     ("local_mesh_refiner::merge_edge", "<", "local_mesh_refiner::l_min_squared_", "local_mesh_refiner::can_be_merged")):
        sites = [n for n in walk(rm["body"]) if n.get("k") == "CXXMemberCallExpr" and n.get("callee") == callee]
        found[callee] += len(sites)
        for n in sites:
            ed = strip(call_args(n)[0])
            ok_len = ok_extra = extra is None
            ok_len = False
            # atomic facts that hold at the call (a test that only appears inside a disjunction is not one of them)
            from ..model import facts_at
            INV = {">": "<=", "<": ">="}
            for x, truth in facts_at(rm, fi, n):
                if x.get("k") == "BinaryOperator" and ((x.get("op") == op and truth) or (x.get("op") == INV[op] and not truth)):
                    l, r = x["c"][0], strip(x["c"][1])
                    if r.get("k") == "MemberExpr" and r["ref"].get("qn") == field and ed.get("k") == "DeclRefExpr" and is_len2_of(l, ed["ref"]["did"]):
                        ok_len = True
                if extra and truth and x.get("k") == "CXXMemberCallExpr" and x.get("callee") == extra:
                    a0 = strip(call_args(x)[0])
                    if a0.get("k") == "DeclRefExpr" and ed.get("k") == "DeclRefExpr" and a0["ref"]["did"] == ed["ref"]["did"]:
                        ok_extra = True
            if ok_len and ok_extra:
                rep.ok("C11.selective", prog, rm, n, "%s(e) only under |e|^2 %s %s%s" % (callee.split("::")[1], op, field.split("::")[1], " and can_be_merged(e)" if extra else ""))
            elif fi.enclosing(n, ("SwitchStmt",)) is not None:
                raise AnalysisBroken("refine_mesh: %s is selected by a switch (line %s); what holds in a case of a switch is not modelled, the length test that governs it is not decided" % (callee.split("::")[1], n.get("l")))
            else:
                rep.violation("C11.selective", prog, rm, n, "%s not guarded by the length test" % callee.split("::")[1],
                              "%s is not dominated by 'squared length of that edge %s %s'%s: a mesh that already satisfies the length band would be modified" % (short(n, 60), op, field.split("::")[1], " and can_be_merged" if extra else ""))


def _selective_rest(rep, prog, rm, fi):
    # swap
    re_ = prog.fn("local_mesh_refiner::remove_elongated_triangles")
    ri = prog.index(re_)
    for n in walk(re_["body"]):
        if n.get("k") == "CXXMemberCallExpr" and n.get("callee") == "local_mesh_refiner::swap_edge":
            ok = False
            for cond, pol in ri.guards(n):
                for x in walk(cond):
                    if x.get("k") == "BinaryOperator" and x.get("op") == "<" and pol:
                        r = strip(x["c"][1])
                        if r.get("k") in ("MemberExpr", "DeclRefExpr") and "triangle_score_min_" in (r["ref"].get("qn") or r["ref"].get("name", "")):
                            ok = True
            if ok:
                rep.ok("C11.selective", prog, re_, n, "swap_edge only under score < triangle_score_min_")
            else:
                rep.violation("C11.selective", prog, re_, n, "swap not guarded by the quality test", "swap_edge is not dominated by 'triangle score < triangle_score_min_'")
    calls = [n for n in walk(rm["body"]) if n.get("k") == "CXXMemberCallExpr" and n.get("callee") == "local_mesh_refiner::remove_elongated_triangles"]
    for n in calls:
        g = [strip(c) for c, pol in fi.guards(n) if pol]
        if any(x.get("k") == "MemberExpr" and x["ref"].get("qn") == "local_mesh_refiner::enable_edge_swap_operation_" for x in g):
            rep.ok("C11.selective", prog, rm, n, "edge swaps only when enabled")
        else:
            rep.violation("C11.selective", prog, rm, n, "edge swap ignores the enable flag", "remove_elongated_triangles is called without testing enable_edge_swap_operation_")
    # thresholds are the squares of the constructor arguments
    ctor = [f for f in prog.fns("local_mesh_refiner::local_mesh_refiner") if len(f.get("params", [])) >= 2]
    if len(ctor) != 1:
        raise AnalysisBroken("local_mesh_refiner constructor not found")
    c = ctor[0]
    ev = S.SymEval(prog, c)
    got = {}
    for i in c.get("inits", []):
        if i.get("member") and isinstance(i.get("init"), dict):
            try:
                got[i["name"]] = ev.ev(i["init"])
            except S.Decline:
                got[i["name"]] = None
    lmin, lmax = sp.Symbol(c["params"][0]["name"], real=True), sp.Symbol(c["params"][1]["name"], real=True)
    for name, ex in (("l_min_squared_", lmin ** 2), ("l_max_squared_", lmax ** 2)):
        g = got.get(name)
        if g is not None and S.zero(sp.sympify(g) - ex):
            rep.ok("C11.selective", prog, c, None, "%s == %s" % (name, ex))
        else:
            rep.violation("C11.selective", prog, c, None, "%s is not the square of the constructor argument" % name, "%s is initialised to %s, expected %s" % (name, g, ex))


def _writes_var(n, did):
    """does statement/expression n assign, compound-assign, increment or decrement the local variable did?"""
    for x in walk(n):
        k = x.get("k")
        t = None
        if k in ("BinaryOperator", "CompoundAssignOperator") and (x.get("op") == "=" or k == "CompoundAssignOperator"):
            t = strip(x["c"][0])
        elif k == "UnaryOperator" and "++" in x.get("op", "") or k == "UnaryOperator" and "--" in x.get("op", ""):
            t = strip(x["c"][0])
        if t is not None and t.get("k") == "DeclRefExpr" and t["ref"].get("did") == did:
            yield x


def _counted_through_flag(root, fi, wl, blk, r, counter):
    """`done = true;` in the block of the operation, `if(done) counter++;` later in the same pass, and every other assignment of
    the flag is `false`: the counter is incremented exactly on the passes that split / merged an edge"""
    if blk is None:
        return False
    flags = []
    for st in blk.get("c", []):
        e = strip(st)
        if e.get("k") == "BinaryOperator" and e.get("op") == "=" and strip(e["c"][0]).get("k") == "DeclRefExpr" and strip(e["c"][1]).get("k") == "CXXBoolLiteralExpr" and strip(e["c"][1]).get("v") and fi.order[id(e)] > fi.order[id(r)]:
            flags.append(strip(e["c"][0])["ref"]["did"])
    for fd in flags:
        # every assignment of the flag: true only in a block that performs an operation
        ok = True
        for a in walk(wl["body"]):
            if a.get("k") == "BinaryOperator" and a.get("op") == "=" and strip(a["c"][0]).get("k") == "DeclRefExpr" and strip(a["c"][0])["ref"].get("did") == fd:
                v = strip(a["c"][1])
                if v.get("k") != "CXXBoolLiteralExpr":
                    ok = False
                elif v.get("v"):
                    b2 = fi.enclosing(a, ("CompoundStmt",))
                    if b2 is None or not any(x.get("k") == "CXXMemberCallExpr" and x.get("callee") in ("local_mesh_refiner::split_edge", "local_mesh_refiner::merge_edge") for x in walk(b2)):
                        ok = False
        if not ok:
            continue
        from ..model import facts_at
        for inc in _writes_var(wl["body"], counter["did"]):
            if not ((inc.get("k") == "UnaryOperator" and "++" in inc.get("op", "")) or (inc.get("k") == "CompoundAssignOperator" and inc.get("op") == "+=")):
                continue
            if fi.order[id(inc)] < fi.order[id(r)]:
                continue
            fs = facts_at(root, fi, inc, stop_at=wl)
            if any(strip(a_).get("k") == "DeclRefExpr" and strip(a_)["ref"].get("did") == fd and t_ for a_, t_ in fs) and len([1 for a_, t_ in fs if not (a_.get("k") == "<switch-case>")]) >= 1:
                return True
    return False


def bounded(rep, prog):
    rule = "C11.bounded"
    root = prog.fn("local_mesh_refiner::refine_mesh")
    fi = prog.index(root)
    # (1)-(3): the work loop of refine_mesh
    from ..model import facts_at
    refills0 = [x for x in walk(root["body"]) if x.get("k") == "CXXMemberCallExpr" and x.get("callee") in ("local_mesh_refiner::split_edge", "local_mesh_refiner::merge_edge")]
    loops = []
    for r_ in refills0:
        l_ = fi.enclosing(r_, ("WhileStmt", "ForStmt", "DoStmt"))
        if l_ is not None and all(l_ is not x for x in loops):
            loops.append(l_)
    if len(loops) != 1:
        raise AnalysisBroken("refine_mesh: expected one work loop, found %d" % len(loops))
    wl = loops[0]
    # the operation counter: an integer local that is known to be below a bound whenever an edge is split / merged (the loop
    # condition `work left && counter < bound`, or `if(!(counter < bound)) break;` in front of the operations)
    counter = None
    for r_ in refills0:
        c_here = None
        for at_, tr_ in facts_at(root, fi, r_):
            if at_.get("k") == "BinaryOperator" and ((at_.get("op") in ("<", "<=") and tr_) or (at_.get("op") in (">=", ">") and not tr_)):
                l = strip(at_["c"][0])
                if l.get("k") == "DeclRefExpr" and l["ref"].get("dk") == "Var" and ("int" in (l.get("t") or "") or "long" in (l.get("t") or "")):
                    if list(_writes_var(wl["body"], l["ref"]["did"])):
                        c_here = l["ref"]
        if c_here is None:
            counter = None
            break
        counter = c_here
    if counter is None:
        rep.violation(rule, prog, root, wl, "work loop not bounded by an operation counter", "the work loop of refine_mesh (%s) does not guarantee 'counter < bound' when an edge is split or merged: edges that keep being split and merged (unstable simulation) would be processed forever" % short(wl.get("cond") or wl, 80))
        return
    rep.ok(rule, prog, root, wl, "work loop runs only while %s < bound" % counter["name"])
    body = wl["body"].get("c", []) if wl["body"].get("k") == "CompoundStmt" else [wl["body"]]
    # every pass removes one edge from the work set before anything can refill it
    pops = [i for i, st in enumerate(body) if any(x.get("k") == "CXXMemberCallExpr" and x.get("callee", "").endswith("::erase") for x in walk(st)) and fi.enclosing(st, ("IfStmt",)) is None]
    refills = [x for x in walk(wl["body"]) if x.get("k") == "CXXMemberCallExpr" and x.get("callee") in ("local_mesh_refiner::split_edge", "local_mesh_refiner::merge_edge")]
    if pops and all(fi.order[id(body[pops[0]])] < fi.order[id(r)] for r in refills):
        rep.ok(rule, prog, root, body[pops[0]], "every pass first erases the edge it examines from the work set")
    else:
        rep.violation(rule, prog, root, wl, "a pass of the work loop does not consume an edge", "refine_mesh: the loop body does not unconditionally erase the examined edge from the work set before split/merge can add new ones")
    for r in refills:
        blk = fi.enclosing(r, ("CompoundStmt",))
        incs = [x for st in (blk.get("c", []) if blk else []) for x in _writes_var(st, counter["did"]) if x.get("k") == "UnaryOperator" and "++" in x.get("op", "") or False]
        incs = [x for st in (blk.get("c", []) if blk else []) for x in _writes_var(st, counter["did"])]
        good = [x for x in incs if (x.get("k") == "UnaryOperator" and "++" in x.get("op", "")) or (x.get("k") == "CompoundAssignOperator" and x.get("op") == "+=")]
        if not incs and _counted_through_flag(root, fi, wl, blk, r, counter):
            rep.ok(rule, prog, root, r, "%s is counted: its block sets a flag that is true only where an operation was done, and '%s++' runs under that flag before the next pass" % (r["callee"].split("::")[-1], counter["name"]))
            continue
        if good and len(good) == len(incs):
            rep.ok(rule, prog, root, r, "%s is counted (%s++ in the same block)" % (r["callee"].split("::")[-1], counter["name"]))
        else:
            rep.violation(rule, prog, root, r, "%s not counted" % r["callee"].split("::")[-1], "refine_mesh: %s can add edges to the work set but the operation counter %s is not incremented with it: the bound of the work loop no longer limits the number of operations" % (short(r, 50), counter["name"]))
    others = [x for x in _writes_var(wl["body"], counter["did"]) if not ((x.get("k") == "UnaryOperator" and "++" in x.get("op", "")) or (x.get("k") == "CompoundAssignOperator" and x.get("op") == "+="))]
    for x in others:
        rep.violation(rule, prog, root, x, "operation counter decreased or reset inside the work loop", "refine_mesh: %s" % short(x, 60))
    # (4) counted for-loops of the closure
    for k in sorted(prog.closure({root["key"]})):
        fn = prog.functions[k]
        if not isinstance(fn.get("body"), dict) or fn.get("cls") not in ("local_mesh_refiner", "cell", "face", "edge", "node"):
            continue
        for l in walk(fn["body"]):
            if l.get("k") != "ForStmt" or not isinstance(l.get("init"), dict):
                continue
            decls = l["init"].get("decls") or []
            if len(decls) != 1 or "did" not in decls[0]:
                continue
            did = decls[0]["did"]
            inbody = list(_writes_var(l["body"] or {}, did))
            if inbody:
                rep.violation(rule, prog, fn, inbody[0], "%s changes its own loop counter in the body" % fn["qn"],
                              "%s: the loop over %s also executes %s in its body: when the guarded operation leaves the mesh unchanged (swap_edge returns early for a pathological configuration) the same element is examined again and again and refine_mesh never returns"
                              % (fn["qn"], short(l["cond"], 50), short(inbody[0], 30)))
            else:
                rep.ok(rule, prog, fn, l, "for(%s): the counter only advances in the loop header" % short(l["cond"], 50))


def triangle_score(rep, prog):
    import itertools
    rule = "C11.triangle-score"
    fn = prog.fn("local_mesh_refiner::get_triangle_score")
    fi = prog.index(fn)
    var_init = {n["did"]: n for n in walk(fn["body"]) if n.get("k") == "Var" and isinstance(n.get("init"), dict)}

    def node_id_of(e):
        """identity (did of the id variable / binding) of the node an expression designates"""
        e = strip(e)
        if e.get("k") == "DeclRefExpr":
            d = var_init.get(e["ref"].get("did"))
            if d is not None:
                for x in walk(d["init"]):
                    if x.get("k") == "CXXMemberCallExpr" and x.get("callee", "").split("::")[-1] in ("get_node", "get_const_ref_node"):
                        a = strip(call_args(x)[0])
                        if a.get("k") == "DeclRefExpr":
                            return a["ref"]["did"]
            return e["ref"].get("did")
        return None

    lengths = {}
    for did, d in var_init.items():
        init = strip(d["init"])
        if init.get("k") == "CXXMemberCallExpr" and init.get("callee") in ("vec3::norm", "vec3::squared_norm"):
            o = strip(call_obj(init))
            while o.get("k") in ("ParenExpr", "MaterializeTemporaryExpr", "CXXBindTemporaryExpr", "ImplicitCastExpr") and o.get("c"):
                o = strip(o["c"][0])
            if o.get("k") == "CXXOperatorCallExpr" and o.get("op") == "-" and len(o.get("c", [])) == 3:
                p = (node_id_of(o["c"][1]), node_id_of(o["c"][2]))
                if None not in p:
                    lengths[did] = (d, frozenset(p))
    if len(lengths) != 3:
        raise AnalysisBroken("get_triangle_score: expected three edge lengths |x - y|, found %d" % len(lengths))
    pairs = [p for _d, p in lengths.values()]
    ids = set().union(*pairs)
    if len(set(pairs)) == 3 and len(ids) == 3 and all(len(p) == 2 for p in pairs):
        rep.ok(rule, prog, fn, None, "the three lengths are those of the three distinct edges of the triangle")
    else:
        dup = [d["name"] for d, p in lengths.values() if pairs.count(p) > 1 or len(p) != 2]
        rep.violation(rule, prog, fn, lengths[next(iter(lengths))][0], "the three measured lengths are not the three edges of the triangle",
                      "get_triangle_score: %s measure the same pair of nodes (or a node with itself): one edge of the triangle is never measured, so the perimeter in the quality score counts an edge twice and the longest-edge "
                      "comparison is made with the wrong length - well-shaped triangles are classified as elongated and swapped" % ", ".join(dup))
        return
    # which edge is handed back: the function's own selection logic interpreted for every weak ordering of the three lengths
    # (finite.Interp: the lengths are known only through their ranks, the node ids are the tokens of their bindings)
    from .. import finite
    dids = list(lengths)
    bad = None
    n_ok = 0
    for ranks in itertools.product(range(3), repeat=3):
        rank = dict(zip(dids, ranks))
        chosen = []

        def atom(e, it):
            k = e.get("k")
            if k == "DeclRefExpr" and e["ref"].get("did") in rank and e["ref"].get("did") not in it.env:
                return rank[e["ref"]["did"]]
            if k == "DeclRefExpr" and e["ref"].get("did") in ids and e["ref"].get("did") not in it.env:
                return ("id", e["ref"]["did"])
            if k == "CXXMemberCallExpr" and e.get("callee") == "cell::get_edge":
                a = call_args(e)
                pa, pb = it.ev(a[0]), it.ev(a[1])
                chosen.append(frozenset((pa[1] if isinstance(pa, tuple) else None, pb[1] if isinstance(pb, tuple) else None)))
                return ("edge", len(chosen) - 1)
            if k == "CXXMemberCallExpr" and e.get("callee", "").split("::")[-1] in ("value", "has_value", "operator*"):
                return it.ev(call_obj(e)) if e["callee"].split("::")[-1] != "has_value" else True
            if k == "CallExpr" and e.get("callee") in ("std::make_pair",):
                vals = [it.ev(a) for a in call_args(e)]
                return ("pair", vals)
            return NotImplemented
        it = finite.Interp(atom)
        # the length variables themselves are inputs: do not let their declarations overwrite the ranks
        try:
            try:
                for st in fn["body"].get("c", []):
                    if st.get("k") == "DeclStmt" and any(d.get("did") in rank for d in st.get("decls", [])):
                        continue
                    it.run(st)
            except finite.Return as r_:
                pass
        except finite.Unknown as u:
            raise AnalysisBroken("get_triangle_score: %s cannot be interpreted" % u)
        if not chosen:
            raise AnalysisBroken("get_triangle_score: no edge is looked up")
        p = chosen[-1]
        sel = [d for d in dids if lengths[d][1] == p]
        if len(sel) != 1:
            bad = bad or (ranks, None)
            continue
        if rank[sel[0]] < max(rank.values()):
            bad = bad or (ranks, sel[0])
        else:
            n_ok += 1
    site = [x for x in walk(fn["body"]) if x.get("k") == "CXXMemberCallExpr" and x.get("callee") == "cell::get_edge"]
    if bad is None:
        for k_ in range(3):
            rep.ok(rule, prog, fn, site[min(k_, len(site) - 1)] if site else None, "the edge handed back is a longest edge for every weak ordering of the three lengths (27 interpreted); case %d" % (k_ + 1))
    else:
        ranks, sel = bad
        rep.violation(rule, prog, fn, site[0] if site else None, "a branch returns an edge that is not the longest",
                      "for the ordering %s of the edge lengths get_triangle_score hands back %s, which is not a longest edge of the triangle: the edge given to swap_edge is not the longest one"
                      % ({lengths[d][0]["name"]: r for d, r in zip(dids, ranks)}, lengths[sel][0]["name"] if sel is not None else "an edge that is not one of the three measured"))
