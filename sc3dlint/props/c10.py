"""C10 - no invalid memory access / undefined behaviour: the anchored mechanisms.

Decided clauses (DESIGN.md section 4, C10):
  C10.ref-after-grow, C10.grow-while-iterating, C10.shared-resize   (engine E1)
  C10.virtual-dtor                                                  (engine E7)
  C10.init-before-use                                               (engine E8)
  C10.format-buffer       every format_number call fits the 30-byte buffer
  C10.remove-index-sorted the index vector passed to remove_index is ascending
"""
import re

from .. import e1
from ..model import (walk, strip, is_call, call_obj, call_args, render, short, AnalysisBroken, always_exits)

EXPLANATION = ("Static typestate / class / phase-order rules over clang's resolved AST of every product "
               "translation unit: references into std::vector members are tracked against may-grow summaries "
               "computed over the call graph; ownership conversions unique_ptr<Derived>->unique_ptr<Base> "
               "require a virtual destructor; scalar fields without initialiser must be written by an earlier "
               "phase of solver::solver/run_iteration than the first phase that reads them; sprintf buffer "
               "bound from the literal format; sortedness of remove_index arguments. Decides these mechanisms "
               "only, not absence of UB in general.")
ASSUMPTIONS = [
    "object identity in E1 is syntactic (same handle expression); aliases through different handles are not tracked",
    "std::vector growth is assumed to reallocate (capacity is a run-time quantity)",
    "virtual calls resolved by class-hierarchy analysis",
]


def product_fns(prog):
    return [f for f in prog.repo_functions() if "/lib/" not in f["file"]]


def declare(rep):
    rep.rule("C10.ref-after-grow", "a reference/pointer/iterator bound into a std::vector member is not used after a call that may grow that vector of that object (per (binding, growing call) pair)", floor=45)
    rep.rule("C10.grow-while-iterating", "no range-for over a std::vector whose body may grow that vector", floor=40)
    rep.rule("C10.shared-resize", "a container resized inside an OpenMP parallel region is only accessed under the same critical section in that region", floor=8)
    rep.rule("C10.virtual-dtor", "a class that takes ownership of a derived object through unique_ptr<Base>/delete Base* has a virtual destructor", floor=3)
    rep.rule("C10.init-before-use", "scalar fields of node/face/edge/cell with no initialiser are written by an earlier phase of solver::solver + run_iteration than the first phase that reads them, also for elements created later", floor=10)
    rep.rule("C10.format-buffer", "every format_number call has a literal format whose maximal output for the argument fits the 30-byte buffer", floor=25)
    rep.rule("C10.face-index", "the box index f->global_face_id_ used by the contact look-up equals the face's position in face_lst_ (no out-of-range / foreign box read)", floor=1)
    rep.rule("C10.index-validation", "a throwing range check 'i >= container.size()' on an index that is then used as a subscript compares in unsigned arithmetic (a negative i converts to a huge value and is rejected) or also rejects i < 0: a bound narrowed or made signed by a cast lets negative / wrapped indices through to the subscript", floor=1)
    rep.rule("C10.remove-index-sorted", "the index vector passed to remove_index is ascending (sorted before the call, or filled by an ascending loop)", floor=6)


# ------------------------------------------------------------------------------------------
def run_e1(rep, prog):
    S = e1.Summaries(prog)
    for fn in product_fns(prog):
        st, finds, checked = e1.ref_after_grow(S, prog, fn)
        for (did, g, why) in checked:
            rep.ok("C10.ref-after-grow", prog, fn, g, "binding '%s' vs %s: %s" % (S._local_bindings(fn)[did][3].get("name", "?"), short(g, 60), why))
        seen = set()
        for f in finds:
            callee = f["grow"].get("callee", "?")
            fp = "ref %s <- %s ; grow %s" % (f["var"], f["container"][1] or "vector " + f["container"][0].split("#")[0], callee)
            if fp in seen:
                continue
            seen.add(fp)
            rep.violation("C10.ref-after-grow", prog, fn, f["use"], fp,
                          "'%s' (declared line %s) is bound into %s of %s; %s at line %s may reallocate that vector; '%s' is used afterwards at line(s) %s"
                          % (f["var"], f["decl"].get("l"), f["container"][1] or "the vector", f["container"][0].split("#")[0], short(f["grow"], 80), f["grow"].get("l"),
                             f["var"], ",".join(str(u.get("l")) for u in f["uses"][:6])))
        loops, gw = e1.grow_while_iterating(S, prog, fn)
        bad_loops = {}
        for g in gw:
            bad_loops.setdefault(id(g["loop"]), []).append(g)
        if isinstance(fn.get("body"), dict):
            for n in walk(fn["body"]):
                if n.get("k") == "CXXForRangeStmt" and S.container_of(fn, n["range"]):
                    gs = bad_loops.get(id(n))
                    cont = S.container_of(fn, n["range"])
                    cname = cont[1] or render(cont[0])
                    if not gs:
                        rep.ok("C10.grow-while-iterating", prog, fn, n, "range-for over %s: body never resizes it" % cname)
                    else:
                        callees = sorted({g["grow"].get("callee", "?") for g in gs})
                        fp = "loop over %s ; grow %s" % (cname, ",".join(callees))
                        rep.violation("C10.grow-while-iterating", prog, fn, gs[0]["grow"], fp,
                                      "range-for over %s (line %s) while its body calls %s at line(s) %s, which may reallocate the vector being iterated"
                                      % (cname, n.get("l"), ", ".join(callees), ",".join(str(g["grow"].get("l")) for g in gs)))
        regions, sr = shared_resize(S, prog, fn)
        for r in regions:
            rep.ok("C10.shared-resize", prog, fn, r, "parallel region: no shared container is resized in it, or all its accesses are under the same critical section") if not any(x["region"] is r for x in sr) else None
        byc = {}
        for x in sr:
            byc.setdefault((id(x["region"]), x["container"]), []).append(x)
        for (_, cname), xs in byc.items():
            callee = xs[0]["resize"].get("callee", "?")
            fp = "%s resized by %s in parallel region ; access outside critical" % (cname, callee.split("<")[0] + "::" + callee.split("::")[-1])
            rep.violation("C10.shared-resize", prog, fn, xs[0]["access"], fp,
                          "'%s' is resized by %s (line %s) inside the OpenMP parallel region at line %s while it is also accessed outside that critical section at line(s) %s: a concurrent reallocation frees the storage being read"
                          % (cname, callee, xs[0]["resize"].get("l"), xs[0]["region"].get("l"), ",".join(sorted({str(x["access"].get("l")) for x in xs}))))
    return S


def shared_resize(S, prog, fn):
    """wrapper: drops accesses that belong to the canonical loop header of the worksharing loop
    (evaluated once, before the threads start)."""
    regs = list(e1.omp_regions(fn))
    if not regs:
        return [], []
    n, out = e1.shared_resize_in_parallel(S, prog, fn)
    fi = prog.index(fn)
    keep = []
    for x in out:
        reg = x["region"]
        body = reg.get("body")
        in_header = False
        if isinstance(body, dict) and body.get("k") == "ForStmt":
            for part in ("init", "cond", "inc"):
                hp = body.get(part)
                if isinstance(hp, dict) and any(m is x["access"] for m in walk(hp)):
                    in_header = True
        if not in_header:
            keep.append(x)
    return regs, keep


# ------------------------------------------------------------------------------------------
UP_RE = re.compile(r"std::unique_ptr<([\w:]+)")


def dtor_is_virtual(prog, qn, _seen=None):
    r = prog.records.get(qn)
    if not r:
        return False
    if r["dtor"].get("virtual"):
        return True
    return any(dtor_is_virtual(prog, b) for b in prog.bases(qn, transitive=False))


def run_e7(rep, prog):
    for fn in product_fns(prog):
        roots = [fn["body"]] if isinstance(fn.get("body"), dict) else []
        roots += [i["init"] for i in fn.get("inits", []) if isinstance(i.get("init"), dict)]
        for r in roots:
            for n in walk(r):
                if n.get("k") == "CXXDeleteExpr":
                    t = n.get("destroyed_t", "").replace("const ", "").strip()
                    if t in prog.records and prog.derived(t):
                        _dtor_instance(rep, prog, fn, n, t, "delete of %s* (has derived classes %s)" % (t, ",".join(prog.derived(t))))
                    continue
                if not is_call(n):
                    continue
                callee = n.get("callee", "")
                m = UP_RE.match(callee)
                if not m:
                    continue
                base = m.group(1)
                if base not in prog.records:
                    continue
                name = callee.split("::")[-1]
                if not (n.get("k") in ("CXXConstructExpr", "CXXTemporaryObjectExpr") or name in ("operator=", "reset")):
                    continue
                for a in (call_args(n) if n.get("k") != "CXXOperatorCallExpr" else n["c"][2:]):
                    for x in walk(a):
                        t = x.get("t", "")
                        m2 = UP_RE.match(t.replace("const ", ""))
                        d = None
                        if m2:
                            d = m2.group(1)
                        elif t.endswith("*") and t.replace("const ", "").rstrip(" *") in prog.records:
                            d = t.replace("const ", "").rstrip(" *")
                        if d and d != base and prog.is_derived_from(d, base):
                            _dtor_instance(rep, prog, fn, n, base, "unique_ptr<%s> takes ownership of a %s" % (base, d), derived=d)
                            break
                    else:
                        continue
                    break


def _dtor_instance(rep, prog, fn, node, base, what, derived=None):
    if dtor_is_virtual(prog, base):
        rep.ok("C10.virtual-dtor", prog, fn, node, "%s; ~%s is virtual" % (what, base))
    else:
        rep.violation("C10.virtual-dtor", prog, fn, node, "non-virtual ~%s ; owned via base pointer" % base,
                      "%s, and the owner destroys it through %s*, but %s has no virtual destructor (declared at %s:%s): the derived object's members are never destroyed / undefined behaviour"
                      % (what, base, base, prog.rel(prog.records[base]["file"]), prog.records[base]["line"]))


# ------------------------------------------------------------------------------------------
SCALAR_RE = re.compile(r"^(const )?(double|float|int|unsigned int|unsigned short|short|long|unsigned long|bool|char|unsigned char|[\w:<>, ]+ \*)$")
E8_CLASSES = ("node", "face", "edge", "cell")


def _field_access_kind(fi, n):
    """'write' if MemberExpr n is the target of a plain assignment, 'rw' for compound assignment /
    ++/--, else 'read'."""
    cur = n
    while True:
        p, slot = fi.parent.get(id(cur), (None, None))
        if p is None:
            return "read"
        k = p.get("k")
        if k in ("ImplicitCastExpr", "ParenExpr") :
            if k == "ImplicitCastExpr" and p.get("ck") == "LValueToRValue":
                return "read"
            cur = p
            continue
        if k == "BinaryOperator" and p.get("op") == "=" and p["c"][0] is cur:
            return "write"
        if k == "CompoundAssignOperator" and p["c"][0] is cur:
            return "rw"
        if k == "UnaryOperator" and p.get("op") in ("++", "--"):
            return "rw"
        return "read"


def _ctor_writes_on_all_paths(prog, fdef, fqn):
    """True if every path through constructor fdef writes field fqn (mem-initialiser, or an
    assignment that no path from entry to exit can avoid)."""
    inits = {i.get("member") for i in fdef.get("inits", []) if i.get("written")}
    if fqn in inits:
        return True
    if not isinstance(fdef.get("body"), dict):
        return False
    fi = prog.index(fdef)
    cfg = fi.cfg()
    wunits = set()
    for n in walk(fdef["body"], into_lambdas=False):
        if n.get("k") == "MemberExpr" and n["ref"].get("qn") == fqn and _field_access_kind(fi, n) == "write":
            b = strip(n["c"][0]) if n.get("c") else {"k": "CXXThisExpr"}
            if b.get("k") == "CXXThisExpr":
                u = cfg.unit_of.get(id(n))
                if u is not None:
                    wunits.add(u)
    if not wunits:
        return False
    seen, stack = set(), [cfg.entry]
    while stack:
        x = stack.pop()
        if x in seen or x in wunits:
            continue
        if x == cfg.exit:
            return False
        seen.add(x)
        stack.extend(cfg.succ[x])
    return True


class _Phase:
    """Abstract interpretation of 'some live element may hold an indeterminate value of field q'
    along a statement sequence; statements that both read and write are opened (callee bodies,
    compound statements) up to a fixed depth."""

    def __init__(self, prog, rd, wr, cr):
        self.prog, self.rd, self.wr, self.cr = prog, rd, wr, cr
        self.verdict = None

    def effects(self, s):
        keys = set()
        for n in walk(s):
            if is_call(n):
                keys |= self.prog.call_targets(n)
        clo = self.prog.closure(keys)
        direct_r = direct_w = False
        return clo

    def stmts(self, fn, sl, state, depth):
        for s in sl:
            state = self.stmt(fn, s, state, depth)
            if self.verdict:
                return state
        return state

    def stmt(self, fn, s, state, depth):
        prog = self.prog
        clo = self.effects(s)
        fi = prog.index(fn)
        # direct accesses in this very statement
        dr = dw = False
        for n in walk(s):
            if n.get("k") == "MemberExpr" and n["ref"].get("qn") == self.q:
                kind = _field_access_kind(fi, n)
                if kind in ("read", "rw"):
                    dr = True
                if kind == "write":
                    dw = True
        reads = [k for k in clo if k in self.rd]
        writes = [k for k in clo if k in self.wr and not prog.functions[k].get("ctor")]
        creates = [k for k in clo if k in self.cr]
        dc = any(n.get("k") in ("CXXConstructExpr", "CXXTemporaryObjectExpr") and n.get("ckey") in self.leaving for n in walk(s))
        r, w, c = bool(reads) or dr, bool(writes) or dw, bool(creates) or dc
        if not (r or w or c):
            return state
        if r and not w and not c:
            if state:
                self.verdict = (fn, s, reads[0] if reads else fn["key"])
            return state
        if w and not r and not c:
            return False
        if c and not r and not w:
            return True
        # mixed: open the statement
        k = s.get("k")
        if depth < 6:
            if k == "CompoundStmt":
                return self.stmts(fn, s.get("c", []), state, depth)
            if k in ("ForStmt", "WhileStmt", "CXXForRangeStmt", "DoStmt") or "omp" in s or k == "CapturedStmt":
                body = s.get("body")
                if isinstance(body, dict):
                    st = self.stmt(fn, body, state, depth)
                    if not self.verdict and k != "CapturedStmt" and "omp" not in s:
                        st2 = self.stmt(fn, body, st, depth)  # second iteration
                        return st or st2
                    return st
            if k == "IfStmt":
                a = self.stmt(fn, s["then"], state, depth)
                b = self.stmt(fn, s["else"], state, depth) if isinstance(s.get("else"), dict) else state
                return a or b
            # expression statement: open the repository callees (all dispatch targets)
            calls = [n for n in walk(s, into_lambdas=True) if is_call(n) and prog.call_targets(n)]
            tops = [n for n in calls if any(t in prog.closure(prog.call_targets(n)) for t in (reads + writes + creates))]
            if len(tops) >= 1:
                # evaluate nested calls in source (pre-)order; each may dispatch to several targets
                st = state
                outer = tops[0]
                results = []
                for t in sorted(prog.call_targets(outer)):
                    tf = prog.functions[t]
                    if isinstance(tf.get("body"), dict) and tf is not fn:
                        results.append(self.stmts(tf, tf["body"].get("c", []), st, depth + 1))
                        if self.verdict:
                            return True
                if results:
                    return any(results)
        # cannot order reads and writes inside: be conservative only if state says uninit
        if state and r:
            self.verdict = (fn, s, reads[0] if reads else fn["key"])
        return bool(c) or (state and not w)


def run_e8(rep, prog):
    # constructors the product calls explicitly
    ctor_calls = set()
    for fn in product_fns(prog):
        roots = [fn["body"]] if isinstance(fn.get("body"), dict) else []
        roots += [i["init"] for i in fn.get("inits", []) if isinstance(i.get("init"), dict)]
        for r in roots:
            for n in walk(r):
                if n.get("k") in ("CXXConstructExpr", "CXXTemporaryObjectExpr") and n.get("ckey"):
                    ctor_calls.add(n["ckey"])
    unborn = {}  # field qn -> (record, field, [ctor keys leaving it uninitialised])
    for cq in E8_CLASSES:
        rec = prog.record(cq)
        ctors = [m for m in rec["methods"] if m.get("ctor") and not m.get("deleted")]
        for f in rec["fields"]:
            if not SCALAR_RE.match(f["t"]):
                continue
            if "init" in f:
                rep.ok("C10.init-before-use", prog, None, None, "%s has a default member initialiser" % f["qn"], field=f["qn"])
                continue
            leaving = []
            for m in ctors:
                key = m["key"]
                # copy / move constructors propagate the state of their source
                if re.search(r"\((const )?%s &&?\)$" % re.escape(cq), key):
                    continue
                if key not in ctor_calls:
                    continue  # never constructed this way by the product
                fdef = prog.functions.get(key)
                if fdef is None or fdef.get("defaulted"):
                    leaving.append(key)
                    continue
                if not _ctor_writes_on_all_paths(prog, fdef, f["qn"]):
                    leaving.append(key)
            if not leaving:
                rep.ok("C10.init-before-use", prog, None, None, "%s is initialised on every path of every constructor the product calls" % f["qn"], field=f["qn"])
            else:
                unborn[f["qn"]] = (rec, f, leaving)
    if not unborn:
        return
    ctor = [f for f in prog.fns("solver::solver") if f.get("ctor") and len(f.get("params", [])) >= 2]
    if not ctor:
        raise AnalysisBroken("solver constructor not found")
    it = prog.fn("solver::run_iteration")
    readers, writers, creators = {}, {}, {}
    for fn in product_fns(prog):
        if not isinstance(fn.get("body"), dict):
            continue
        if fn.get("defaulted") or fn["name"] == "operator=":
            continue  # copy / move operations propagate the state of their source, they neither decide nor initialise
        fi = None
        for n in walk(fn["body"]):
            k = n.get("k")
            if k == "MemberExpr" and n["ref"].get("qn") in unborn:
                fi = fi or prog.index(fn)
                kind = _field_access_kind(fi, n)
                q = n["ref"]["qn"]
                if kind in ("read", "rw") and not fn.get("ctor"):
                    readers.setdefault(q, {}).setdefault(fn["key"], n)
                if kind == "write":
                    writers.setdefault(q, {}).setdefault(fn["key"], n)
            if k in ("CXXConstructExpr", "CXXTemporaryObjectExpr"):
                for q, (rec, f, leaving) in unborn.items():
                    if n.get("ckey") in leaving:
                        creators.setdefault(q, {}).setdefault(fn["key"], n)
    for q, (rec, f, leaving) in unborn.items():
        rd, wr, cr = readers.get(q, {}), writers.get(q, {}), creators.get(q, {})
        if not rd:
            rep.ok("C10.init-before-use", prog, None, None, "%s has no initialiser but is never read by the product" % q, field=q)
            continue
        ph = _Phase(prog, rd, wr, cr)
        ph.q, ph.leaving = q, set(leaving)
        # elements exist before the solver is constructed (cells are loaded first): start 'maybe indeterminate'
        st = ph.stmts(ctor[0], ctor[0]["body"].get("c", []), True, 0)
        if not ph.verdict:
            st = ph.stmts(it, it["body"].get("c", []), st, 0)
        if not ph.verdict:
            st = ph.stmts(it, it["body"].get("c", []), st, 0)   # the iteration repeats
        if ph.verdict is None:
            rep.ok("C10.init-before-use", prog, None, None, "%s has no initialiser; along solver::solver + run_iteration (twice) every reading statement follows a writing one, also after element creation" % q, field=q)
        else:
            pfn, s, rk = ph.verdict
            rfn = prog.functions[rk]
            wnames = sorted({prog.functions[k]["qn"] for k in wr if not prog.functions[k].get("ctor")})
            rep.violation("C10.init-before-use", prog, pfn, s, "%s read before any write" % q,
                          "%s (declared %s:%s) has no initialiser and constructor(s) %s leave it indeterminate; '%s' (line %s of %s) reads it through %s while some live element may never have been written%s"
                          % (q, prog.rel(rec["file"]), f["l"], ", ".join(leaving[:3]), short(s, 70), s.get("l"), pfn["qn"], rfn["qn"],
                             (" (writers: %s)" % ", ".join(wnames)) if wnames else " (it is never written outside constructors)"),
                          field=q)


# ------------------------------------------------------------------------------------------
FMT_RE = re.compile(r"^%(\.(\d+))?([deEfFgGu]|ld|lu)$")
FORMAT_F_ALLOW = {
    # callee of the formatted argument -> reason the value is bounded
    "cell::get_contact_area_fraction": "ratio contact_area/area_ of two sums of non-negative triangle areas of the same cell: |value| <= O(1), NaN/inf print as at most 4 characters",
}
BUF = 30


def run_format(rep, prog):
    for fn in product_fns(prog):
        roots = [fn["body"]] if isinstance(fn.get("body"), dict) else []
        for r in roots:
            for n in walk(r):
                if n.get("k") != "CallExpr" or n.get("callee") != "format_number":
                    continue
                args = call_args(n)
                lits = [x for x in walk(args[1]) if x.get("k") == "StringLiteral"] if len(args) > 1 else []
                if not lits and len(args) > 1:
                    # a named constant (const / constexpr global or local `const char*` / string initialised with one literal)
                    for x in walk(args[1]):
                        if x.get("k") == "DeclRefExpr" and (x.get("ref") or {}).get("dk") == "Var":
                            g = prog.globals.get(x["ref"].get("name"))
                            cand = []
                            if g is not None and g.get("did") == x["ref"].get("did") and "const" in (g.get("t") or "") and isinstance(g.get("init"), dict):
                                cand = [g["init"]]
                            else:
                                from ..model import stable_locals
                                st = stable_locals(fn) if isinstance(fn.get("body"), dict) else {}
                                if x["ref"].get("did") in st:
                                    cand = [st[x["ref"]["did"]]]
                            for c_ in cand:
                                lits += [y for y in walk(c_) if y.get("k") == "StringLiteral"]
                if len(lits) != 1:
                    rep.violation("C10.format-buffer", prog, fn, n, "non-literal format", "format_number called with a format that is not a single string literal: output length cannot be bounded")
                    continue
                fmt = lits[0].get("v", "")
                m = FMT_RE.match(fmt)
                argt = strip(args[0]).get("t", "")
                if not m:
                    rep.violation("C10.format-buffer", prog, fn, n, "format %s" % fmt, "format %r is not of a recognised bounded form" % fmt)
                    continue
                conv = m.group(3)
                prec = int(m.group(2)) if m.group(2) else 6
                if conv in ("d", "u"):
                    need = 12
                elif conv in ("ld", "lu"):
                    need = 21
                elif conv in ("e", "E"):
                    need = prec + 9  # sign d . prec e sign ddd NUL (3-digit exponents for doubles)
                else:
                    src = {x.get("callee") for x in walk(args[0]) if is_call(x)}
                    ok = [s for s in src if s in FORMAT_F_ALLOW or any(prog.is_derived_from(s.split("::")[0], a.split("::")[0]) and s.split("::")[-1] == a.split("::")[-1] for a in FORMAT_F_ALLOW)]
                    if ok:
                        rep.ok("C10.format-buffer", prog, fn, n, "format %s of %s: allow-listed bounded source (%s)" % (fmt, short(args[0], 60), FORMAT_F_ALLOW.get(ok[0], "override of an allow-listed function")))
                    else:
                        rep.violation("C10.format-buffer", prog, fn, n, "unbounded %s of %s" % (fmt, short(args[0], 60)),
                                      "format %r prints all integral digits of a %s (up to ~310 characters) into the %d-byte buffer of format_number; argument %s has no allow-listed bound" % (fmt, argt, BUF, short(args[0], 80)))
                    continue
                if need <= BUF:
                    rep.ok("C10.format-buffer", prog, fn, n, "format %s of %s: at most %d bytes <= %d" % (fmt, argt, need, BUF))
                else:
                    rep.violation("C10.format-buffer", prog, fn, n, "format %s too long" % fmt, "format %r may need %d bytes > %d" % (fmt, need, BUF))
    # the buffer size itself is read from the tree
    fns = [f for f in prog.repo_functions() if f["qn"] == "format_number"]
    if not fns:
        raise AnalysisBroken("format_number not found")
    for f in fns[:1]:
        sizes = [n for n in walk(f["body"]) if n.get("k") == "Var" and n.get("t", "").startswith("char[")]
        if len(sizes) != 1:
            raise AnalysisBroken("format_number: buffer declaration not recognised")
        size = int(sizes[0]["t"][5:-1])
        if size < BUF:
            rep.violation("C10.format-buffer", prog, f, sizes[0], "buffer shrunk", "format_number's buffer is %d bytes, the call sites were bounded against %d" % (size, BUF))
        uses_sprintf = [n for n in walk(f["body"]) if n.get("k") == "CallExpr" and n.get("callee") in ("sprintf", "snprintf")]
        if not uses_sprintf:
            raise AnalysisBroken("format_number: sprintf call not recognised")


# ------------------------------------------------------------------------------------------
def run_remove_index(rep, prog, rule="C10.remove-index-sorted", only=None):
    for fn in product_fns(prog):
        if not isinstance(fn.get("body"), dict):
            continue
        if only is not None and fn["qn"] not in only:
            continue
        fi = prog.index(fn)
        for n in walk(fn["body"]):
            if n.get("k") != "CallExpr" or n.get("callee") != "remove_index":
                continue
            idx = strip(call_args(n)[1])
            key = e1.handle_key(idx)
            cfg = fi.cfg()
            # (a) sorted by std::sort(v.begin(), v.end()...) on every path, no push in between
            sorts, pushes = [], []
            for m in walk(fn["body"]):
                if m.get("k") == "CallExpr" and m.get("callee") == "std::sort":
                    a = call_args(m)
                    if a and strip(a[0]).get("k") == "CXXMemberCallExpr" and e1.handle_key(call_obj(strip(a[0]))) == key:
                        if len(a) == 2 or (len(a) == 3 and "std::less" in strip(a[2]).get("t", "")):
                            sorts.append(m)
                if m.get("k") == "CXXMemberCallExpr" and m.get("callee", "").split("::")[-1] in ("push_back", "emplace_back", "insert") and e1.handle_key(call_obj(m)) == key:
                    pushes.append(m)
            ok_sorted = False
            for s in sorts:
                # s strictly precedes n in the same statement sequence (dominates it) and no push may happen in between
                ps, _ = fi.parent.get(id(_stmt_of(fi, s)), (None, None))
                pn = _stmt_of(fi, n)
                if ps is not None and ps.get("k") == "CompoundStmt":
                    anc = [p for p, _, _ in fi.ancestors(pn)] + [pn]
                    if ps in anc or ps is fi.parent.get(id(pn), (None, None))[0]:
                        if cfg.may_follow(s, n) and not any(cfg.may_follow(s, p) and cfg.may_follow(p, n) for p in pushes):
                            ok_sorted = True
            if ok_sorted:
                rep.ok(rule, prog, fn, n, "%s is std::sort-ed (ascending) before the call with no insertion in between" % render(idx))
                continue
            # (b) every push pushes the induction variable of one ascending sequential for loop
            good = bool(pushes)
            why = ""
            for p in pushes:
                a = strip(call_args(p)[0])
                loop = fi.enclosing(p, ("ForStmt",))
                omp = fi.enclosing(p, ("OMPParallelForDirective", "OMPForDirective"))
                if omp is not None or loop is None or a.get("k") != "DeclRefExpr":
                    good = False
                    why = "insertion at line %s is not 'push_back(<loop counter>)' of a sequential loop" % p.get("l")
                    break
                inc = strip(loop.get("inc") or {})
                if not (inc.get("k") == "UnaryOperator" and inc.get("op") == "++" and strip(inc["c"][0]).get("k") == "DeclRefExpr" and strip(inc["c"][0])["ref"]["did"] == a["ref"]["did"]):
                    good = False
                    why = "pushed value at line %s is not the ++ counter of the enclosing loop" % p.get("l")
                    break
            loops = {id(fi.enclosing(p, ("ForStmt",))) for p in pushes}
            if good and len(loops) == 1:
                rep.ok(rule, prog, fn, n, "%s is filled only by push_back(counter) of one ascending sequential loop" % render(idx))
            else:
                rep.violation(rule, prog, fn, n, "unsorted index vector %s" % render(idx).split("#")[0],
                              "remove_index requires ascending indices; %s is neither sorted before the call nor filled by a single ascending loop (%s): elements are moved from wrong positions / out of range" % (render(idx), why or "no dominating std::sort"))


def _stmt_of(fi, n):
    """The statement directly contained in a CompoundStmt (or loop/if body) that contains n."""
    cur = n
    for p, slot, ch in fi.ancestors(n):
        if p.get("k") == "CompoundStmt":
            return ch
        cur = p
    return cur


_SIGNED_T = re.compile(r"^(const )?(signed )?(short|int|long|long long|char|signed char|ptrdiff_t|std::ptrdiff_t|int16_t|int32_t|int64_t|int8_t)( int)?$")


def run_index_validation(rep, prog):
    """if(i >= v.size()) throw ...;   - the comparison must not be made in signed arithmetic unless i < 0 is rejected too"""
    for fn in product_fns(prog):
        if not isinstance(fn.get("body"), dict):
            continue
        fi = None
        for s_ in walk(fn["body"]):
            if s_.get("k") != "IfStmt" or not isinstance(s_.get("then"), dict) or not (always_exits(s_["then"]) and any(x.get("k") == "CXXThrowExpr" for x in walk(s_["then"]))):
                continue
            for c in walk(s_["cond"]):
                if not (c.get("k") == "BinaryOperator" and c.get("op") in (">=", ">", "<", "<=")):
                    continue
                sides = [c["c"][0], c["c"][1]]
                sz = [i for i, x in enumerate(sides) if any(y.get("k") == "CXXMemberCallExpr" and y.get("callee", "").split("::")[-1] == "size" for y in walk(x))]
                if len(sz) != 1:
                    continue
                bound, idx = sides[sz[0]], sides[1 - sz[0]]
                # the operand types after the usual arithmetic conversions are the types of the two children
                bt = (bound.get("t") or "").strip()
                it = (idx.get("t") or "").strip()
                raw_idx = strip(idx)
                while raw_idx.get("k") in ("ImplicitCastExpr", "ParenExpr") and raw_idx.get("c"):
                    raw_idx = strip(raw_idx["c"][0])
                rt = (raw_idx.get("t") or "").strip()
                if not _SIGNED_T.match(rt) or raw_idx.get("k") in ("IntegerLiteral", "FloatingLiteral"):
                    continue        # the index itself is unsigned / the size is compared with a constant
                signed_cmp = bool(_SIGNED_T.match(bt)) and bool(_SIGNED_T.match(it))
                fi = fi or prog.index(fn)
                neg_checked = any(c2.get("k") == "BinaryOperator" and c2.get("op") in ("<", "<=", ">", ">=") and render(raw_idx) in render(c2) and any(strip(z).get("k") == "IntegerLiteral" and strip(z).get("v") in ("0", 0) for z in c2["c"]) for c2 in walk(s_["cond"]))
                if signed_cmp and not neg_checked:
                    rep.violation("C10.index-validation", prog, fn, c, "range check made in signed arithmetic",
                                  "%s rejects '%s' by comparing the signed index (%s) with a bound converted to %s: the comparison is signed, so a negative index (e.g. a value above the type's positive range read from a file, which wraps) passes the check and is then used as a subscript in front of the container" % (fn["qn"], short(c, 70), rt, bt))
                else:
                    rep.ok("C10.index-validation", prog, fn, c, "'%s' compares in %s%s" % (short(c, 60), it or "unsigned arithmetic", " and rejects negative values" if neg_checked and signed_cmp else ""))


def run(rep, prog, tier):
    if not rep.rules:
        declare(rep)
    run_e1(rep, prog)
    run_e7(rep, prog)
    run_e8(rep, prog)
    run_format(rep, prog)
    run_remove_index(rep, prog)
    run_index_validation(rep, prog)
    from .c06 import face_index
    face_index(rep, prog, prog.config[0], rule="C10.face-index")
