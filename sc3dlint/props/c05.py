"""C05 - point-to-triangle kernel: algebraic clauses decided on the expression of every return."""
import sympy as sp

from ..model import walk, strip, short, AnalysisBroken
from .. import sym as S

EXPLANATION = ("LF engine (E3): for each return statement of contact_model_abstract::compute_node_triangle_distance the returned "
               "pair is brought to a polynomial/rational normal form over the coordinates of p,a,b,c by def-use expansion of the "
               "dominating const locals and by opening vec3's operators from their own AST. Decided for all operand values: (1) the "
               "three barycentric components sum to 1; (2) the returned scalar is |p - (b0*a + b1*b + b2*c)|^2 for the returned "
               "components; (3) scalar and components are unchanged when p,a,b,c are translated by a common vector (compositional "
               "weight typing). Identities are proved by normal form and refuted by an exact non-zero value at a rational point. "
               "Not decided: that the region tests select the closest point, non-negativity of the coordinates, rotation, rounding.")
ASSUMPTIONS = ["branch conditions are never interpreted: each return is analysed under no assumption on which region is taken",
               "vec3 semantics come from vec3's own member functions as parsed (opened), not from a model"]


def sign_of(expr, facts):
    """Sign abstract interpretation: '+' (>= 0), '-' (<= 0), '0', or '?' for a rational expression, given
    facts {sympy symbol: '+'|'-'}.  n/d is brought to one fraction; a polynomial is >= 0 if every monomial is."""
    expr = sp.together(sp.sympify(expr))
    n, d = sp.fraction(expr)
    def poly_sign(p_):
        p_ = sp.expand(p_)
        if p_ == 0:
            return "0"
        signs = set()
        for term in sp.Add.make_args(p_):
            c, rest = term.as_coeff_Mul()
            sg = 1 if c > 0 else -1
            for f, e in rest.as_powers_dict().items():
                if f == 1:
                    continue
                if not f.is_Symbol:
                    return "?"
                fs = facts.get(f)
                if e.is_Integer and int(e) % 2 == 0:
                    continue
                if fs is None:
                    return "?"
                if fs == "-":
                    sg = -sg
            signs.add(sg)
        if signs == {1}:
            return "+"
        if signs == {-1}:
            return "-"
        return "?"
    sn, sd = poly_sign(n), poly_sign(d)
    if sn == "0":
        return "0"
    if "?" in (sn, sd) or sd == "0":
        return "?"
    return "+" if sn == sd else "-"


def result_sites(fn):
    """(site, value expression) of every result of the kernel: its return statements, or - single-exit form - the assignments
    to the local variable that the only return statement hands back."""
    rets = [n for n in walk(fn["body"]) if n.get("k") == "ReturnStmt" and isinstance(n.get("value"), dict)]
    if len(rets) == 1:
        v = strip(rets[0]["value"])
        while v.get("k") in ("CXXConstructExpr", "MaterializeTemporaryExpr", "CXXBindTemporaryExpr") and len(v.get("c", [])) == 1:
            v = strip(v["c"][0])
        if v.get("k") == "DeclRefExpr" and v["ref"].get("dk") == "Var":
            did = v["ref"]["did"]
            sites = []
            for n in walk(fn["body"]):
                if n.get("k") in ("BinaryOperator", "CXXOperatorCallExpr") and n.get("op") == "=":
                    lhs = strip(n["c"][0] if n["k"] == "BinaryOperator" else n["c"][1])
                    if lhs.get("k") == "DeclRefExpr" and lhs["ref"].get("did") == did:
                        sites.append((n, n["c"][1] if n["k"] == "BinaryOperator" else n["c"][2]))
            if len(sites) >= 2:
                return sites
    return [(r, r["value"]) for r in rets]


def _norm_guard(fn, cond, pol):
    """condition with leading negations folded into the polarity and stable boolean locals replaced by their initialisers"""
    from ..model import stable_locals
    st = stable_locals(fn)
    c = strip(cond)
    for _ in range(6):
        if c.get("k") == "UnaryOperator" and c.get("op") == "!":
            pol = not pol
            c = strip(c["c"][0])
            continue
        if c.get("k") == "DeclRefExpr" and c["ref"].get("dk") == "Var" and c["ref"].get("did") in st:
            c = strip(st[c["ref"]["did"]])
            continue
        if c.get("k") == "ConditionalOperator" and strip(c["c"][2]).get("k") == "CXXBoolLiteralExpr" and strip(c["c"][2]).get("v") is False:
            # x ? y : false  ==  x && y
            c = {"k": "BinaryOperator", "op": "&&", "c": [c["c"][0], c["c"][1]], "t": "bool", "l": c.get("l")}
            continue
        break
    return c, pol


def _conj(fn, c):
    """comparison leaves of a conjunction (through stable boolean locals); None if the condition is not a pure conjunction"""
    c, pol = _norm_guard(fn, c, True)
    if not pol:
        return None
    if c.get("k") == "BinaryOperator" and c.get("op") == "&&":
        l, r = _conj(fn, c["c"][0]), _conj(fn, c["c"][1])
        return None if l is None or r is None else l + r
    if c.get("k") == "BinaryOperator" and c.get("op") in ("<=", ">=", "<", ">"):
        return [c]
    return None


def guard_facts(ev, fi, node):
    """Sign facts stated by the dominating if-conditions: a condition that holds and is a conjunction of comparisons with zero
    gives one fact per conjunct; a single comparison that does NOT hold gives the opposite (strict) fact. Returns (facts,
    substitutions for compound left-hand sides, applicable?); applicable is False as soon as one dominating condition cannot be
    interpreted (e.g. a flag assigned in several places): the sign analysis then has nothing sound to start from."""
    facts, subs, applicable = {}, [], False
    k = 0
    fn = ev.fn
    for cond, pol in fi.guards(node):
        c, pol = _norm_guard(fn, cond, pol)
        leaves = _conj(fn, c) if pol else None
        if leaves is None and not pol and c.get("k") == "BinaryOperator" and c.get("op") in ("<=", ">=", "<", ">"):
            inv = {"<=": ">", ">=": "<", "<": ">=", ">": "<="}[c["op"]]
            leaves = [dict(c, op=inv)]
        if leaves is None:
            if pol and not (c.get("k") == "BinaryOperator" and c.get("op") in ("&&", "||", "<=", ">=", "<", ">", "==", "!=")):
                return {}, [], False     # an opaque condition holds on this path: not interpretable
            continue
        applicable = True
        for x in leaves:
            if x.get("k") == "BinaryOperator" and x.get("op") in ("<=", ">=", "<", ">"):
                l, r = x["c"][0], strip(x["c"][1])
                l0 = strip(l)
                if l0.get("k") in ("FloatingLiteral", "IntegerLiteral") and float(l0["v"]) == 0.0 and r.get("k") not in ("FloatingLiteral", "IntegerLiteral"):
                    # 0 op e  is  e op' 0
                    x = dict(x, op={"<=": ">=", ">=": "<=", "<": ">", ">": "<"}[x["op"]], c=[x["c"][1], x["c"][0]])
                    l, r = x["c"][0], strip(x["c"][1])
                if r.get("k") in ("FloatingLiteral", "IntegerLiteral") and float(r["v"]) == 0.0:
                    try:
                        le = sp.sympify(ev.ev(l))
                    except S.Decline:
                        continue
                    sg = "+" if x["op"] in (">=", ">") else "-"
                    if le.is_Symbol:
                        facts[le] = sg
                    else:
                        k += 1
                        u = sp.Symbol("_g%d" % k, real=True)
                        subs.append((le, u))
                        facts[u] = sg
    return facts, subs, applicable


def distance_form(rep, prog, fn, r, rvalue, tag):
    from ..model import expand
    v = strip(rvalue)
    # first element of the returned pair
    first = None
    for x in walk(v):
        if x.get("k") in ("InitListExpr", "CXXConstructExpr", "CXXTemporaryObjectExpr") and len([c_ for c_ in x.get("c", []) if isinstance(c_, dict)]) == 2:
            first = [c_ for c_ in x["c"] if isinstance(c_, dict)][0]
            break
        if x.get("k") == "CallExpr" and x.get("callee") == "std::make_pair":
            first = x["c"][1]
            break
    if first is None:
        raise AnalysisBroken("%s: %s: the returned squared distance was not found" % (prog.loc(fn, r), tag))
    e = strip(expand(fn, first))
    while e.get("k") in ("ParenExpr", "ImplicitCastExpr", "MaterializeTemporaryExpr", "CXXBindTemporaryExpr") and len([c_ for c_ in e.get("c", []) if isinstance(c_, dict)]) == 1:
        e = strip([c_ for c_ in e["c"] if isinstance(c_, dict)][0])
    if e.get("k") == "CXXMemberCallExpr" and e.get("callee") == "vec3::squared_norm":
        rep.ok("C05.distance-form", prog, fn, r, "%s: distance = %s" % (tag, short(e, 50)))
    elif e.get("k") == "CXXMemberCallExpr" and e.get("callee") == "vec3::dot" and render(call_obj(e)).replace(" ", "") == render(call_args(e)[0]).replace(" ", ""):
        rep.ok("C05.distance-form", prog, fn, r, "%s: distance = x.dot(x)" % tag)
    elif e.get("k") == "BinaryOperator" and e.get("op") in ("-", "+"):
        rep.violation("C05.distance-form", prog, fn, r, "%s: squared distance formed by %s" % (tag, "subtraction" if e["op"] == "-" else "a sum of mixed terms"),
                      "%s returns %s as the squared distance: equal to |p - q|^2 in exact arithmetic, but the terms are of the size of |ap|^2 while their difference is the (much smaller) squared distance to the feature; for points close to the edge the result loses all its digits and can be negative, so it is not the squared distance to the designated point" % (tag, short(e, 70)))
    else:
        raise AnalysisBroken("%s: %s: the squared distance %s has a form that is not decided" % (prog.loc(fn, r), tag, short(e, 60)))


def region_test(rep, prog, fn, ev, r, tag, comps, p, a, b, c, keys):
    """The region test under which a vertex / edge result is returned, as polynomials in the coordinates, against the Voronoi
    region of that feature.  Only the conjuncts of the test that encloses the result are used (what earlier tests excluded is not
    needed: each of these regions is characterised by its own inequalities)."""
    from ..model import facts_at
    cs = [sp.sympify(x) for x in comps]
    zero = [i for i, x in enumerate(cs) if x == 0]
    one = [i for i, x in enumerate(cs) if x == 1]
    V = [a, b, c]

    def vec(u, v):
        return [u.f[k] - v.f[k] for k in keys]

    def dot(u, v):
        return sum(x * y for x, y in zip(u, v))

    def cross(u, v):
        return [u[1] * v[2] - u[2] * v[1], u[2] * v[0] - u[0] * v[2], u[0] * v[1] - u[1] * v[0]]
    names = "abc"
    if len(zero) == 2 and len(one) == 1:
        X = one[0]
        others = [i for i in range(3) if i != X]
        want = [dot(vec(V[Y], V[X]), vec(p, V[X])) for Y in others]
        label = "vertex %s" % names[X].upper()
        desc = ["(%s-%s).(p-%s) <= 0" % (names[Y], names[X], names[X]) for Y in others]
    elif len(zero) == 1:
        Z = zero[0]
        X, Y = [(1, 2), (2, 0), (0, 1)][Z]      # cyclic order of the edge opposite to Z
        n = cross(vec(b, a), vec(c, a))
        want = [-dot(vec(p, V[X]), vec(V[Y], V[X])), -dot(vec(p, V[Y]), vec(V[X], V[Y])), dot(n, cross(vec(V[X], p), vec(V[Y], p)))]
        label = "edge %s%s" % (names[X].upper(), names[Y].upper())
        desc = ["(p-%s).(%s-%s) >= 0" % (names[X], names[Y], names[X]), "(p-%s).(%s-%s) >= 0" % (names[Y], names[X], names[Y]), "n.((%s-p)x(%s-p)) <= 0" % (names[X], names[Y])]
    else:
        return      # interior result: non-negativity is what C05.nonneg-under-guard decides
    fi = prog.index(fn)
    got = []
    for atom, truth in facts_at(fn, fi, r):
        if not truth:
            continue
        if atom.get("k") != "BinaryOperator" or atom.get("op") not in ("<=", "<", ">=", ">"):
            rep.note("C05.region-test: %s (%s) at %s is returned under a condition that is not a conjunction of comparisons (%s, e.g. a flag assigned in several places): its region test is not decided" % (tag, label, prog.loc(fn, r), short(atom, 50)))
            return
        l, rr = sp.sympify(ev.ev(atom["c"][0])), sp.sympify(ev.ev(atom["c"][1]))
        g = (l - rr) if atom["op"] in ("<=", "<") else (rr - l)
        for _ in range(8):
            g, ch = ev.expand_once(g)
            if not ch:
                break
        got.append((g, atom))
    if not got:
        raise AnalysisBroken("%s: %s (%s) is not returned under a conjunction of comparisons this checker can read" % (prog.loc(fn, r), tag, label))
    unmatched_want = list(range(len(want)))
    extra = []
    for g, atom in got:
        hit = None
        for i in unmatched_want:
            if ev.prove_zero(g - want[i]):
                hit = i
                break
        if hit is None:
            # an inequality already among the wanted ones (stated twice) is harmless
            if not any(ev.prove_zero(g - w_) for w_ in want):
                extra.append(atom)
        else:
            unmatched_want.remove(hit)
    if not unmatched_want and not extra:
        rep.ok("C05.region-test", prog, fn, r, "%s: %s is returned exactly under %s" % (tag, label, " and ".join(desc)))
    else:
        rep.violation("C05.region-test", prog, fn, r, "%s: region test of %s is not its Voronoi region" % (tag, label),
                      "%s designates %s but is returned under a test that %s%s: the Voronoi region of %s is %s; points of that region fall through to a formula of another feature (negative coordinates, a point outside the triangle) or points of another region are assigned to %s"
                      % (tag, label, ("lacks " + ", ".join(desc[i] for i in unmatched_want)) if unmatched_want else "", ((" and " if unmatched_want else "") + "adds " + ", ".join("'%s'" % short(x, 40) for x in extra)) if extra else "", label, " and ".join(desc), label))


def declare(rep):
    rep.rule("C05.nonneg-under-guard", "for a return inside a region test that is a conjunction of sign conditions, the returned components are >= 0 by sign analysis of those conditions", floor=4)
    rep.rule("C05.bary-sum", "the returned barycentric components sum to 1 (identity)", floor=7)
    rep.rule("C05.distance-consistent", "the returned squared distance equals |p - (b0*a+b1*b+b2*c)|^2 for the returned components (identity)", floor=7)
    rep.rule("C05.region-test", "a result that designates a vertex X (resp. a point of edge XY) is returned under exactly the Voronoi-region test of that feature: (Y-X).(P-X) <= 0 and (Z-X).(P-X) <= 0 (resp. (P-X).(Y-X) >= 0, (P-Y).(X-Y) >= 0 and n.((X-P)x(Y-P)) <= 0), decided as polynomial identities in the coordinates", floor=4)
    rep.rule("C05.distance-form", "every returned squared distance is formed as a sum of squares (squared_norm() of a difference vector): a form such as |ap|^2 - d1*v is the same number in exact arithmetic but cancels catastrophically for points close to the feature - it can even be negative", floor=7)
    rep.rule("C05.translation", "returned distance and components are invariant under a common translation of p,a,b,c", floor=7)


def re_name(x):
    import re
    return re.sub(r"#\d+", "", str(x))


def run(rep, prog, tier):
    if not rep.rules:
        declare(rep)
    fn = prog.fn("contact_model_abstract::compute_node_triangle_distance")
    rets = result_sites(fn)
    if len(fn["params"]) != 4:
        raise AnalysisBroken("kernel signature changed")
    for i, (r, rvalue) in enumerate(rets):
        tag = "return #%d" % (i + 1)
        try:
            ev = S.SymEval(prog, fn, lazy_scalars=True)
            v = ev.ev(rvalue)
            if not (isinstance(v, S.Tup) and len(v.items) == 2 and isinstance(v.items[1], (S.Rec, S.Lazy))):
                raise S.Decline("return value is not a (scalar, vec3) pair")
            d2, b = v.items[0], ev.record_of(v.items[1])
            comps = list(b.f.values())
            p, a, bb, c = [ev.record_of(ev.local({"did": q["did"], "name": q["name"]}, {"t": q["t"]})) for q in fn["params"]]
            keys = list(a.f.keys())
            if ev.prove_zero(sum(comps) - 1):
                rep.ok("C05.bary-sum", prog, fn, r, "%s: components (%s) sum to 1" % (tag, ", ".join(str(x).replace("#" + str(0), "") for x in comps)))
            else:
                rep.violation("C05.bary-sum", prog, fn, r, "%s barycentric sum != 1" % tag,
                              "%s returns barycentric components (%s) that do not sum to one (%s)" % (tag, ", ".join(map(str, comps)), getattr(ev, "last_witness", "")))
            cp = [comps[0] * a.f[k] + comps[1] * bb.f[k] + comps[2] * c.f[k] for k in keys]
            ref = sum((p.f[k] - cp[j]) ** 2 for j, k in enumerate(keys))
            if ev.prove_zero(d2 - ref):
                rep.ok("C05.distance-consistent", prog, fn, r, "%s: returned scalar == |p - closest point|^2" % tag)
            else:
                rep.violation("C05.distance-consistent", prog, fn, r, "%s distance != distance to the designated point" % tag,
                              "%s: the returned squared distance %s is not the squared distance from p to the point designated by the returned barycentric coordinates (%s)"
                              % (tag, short(strip(rvalue).get("c", [rvalue])[0], 60), getattr(ev, "last_witness", "")))
            # non-negativity by sign abstract interpretation under the dominating region test
            fi = prog.index(fn)
            facts, gsubs, applicable = guard_facts(ev, fi, r)
            if applicable:
                bad_c = []
                for x in comps:
                    x1 = sp.sympify(x)
                    for _ in range(3):
                        x1, ch = ev.expand_once(x1)
                        if not ch:
                            break
                        if all(a in facts or not a in ev.local_syms for a in x1.free_symbols):
                            pass
                    # express through the guard's own quantities
                    xs = sp.sympify(x)
                    cands = [xs]
                    y, ch = ev.expand_once(xs)
                    if ch:
                        cands.append(y)
                    got = "?"
                    for c_ in cands:
                        for (le, u) in gsubs:
                            c_ = sp.together(c_).subs(le, u)
                            c_ = c_.subs(sp.expand(le), u)
                        sg = sign_of(c_, facts)
                        if sg in ("+", "0"):
                            got = sg
                            break
                    if got == "?":
                        bad_c.append(str(xs))
                if not bad_c:
                    rep.ok("C05.nonneg-under-guard", prog, fn, r, "%s: components are >= 0 given the region test (%s)" % (tag, ", ".join("%s %s 0" % (re_name(a), ">=" if s_ == "+" else "<=") for a, s_ in facts.items())))
                else:
                    rep.violation("C05.nonneg-under-guard", prog, fn, r, "%s: region test does not imply non-negative coordinates" % tag,
                                  "%s returns component(s) %s whose non-negativity does not follow from its region test (%s): for some points the kernel designates a point outside the triangle (on the extension of an edge) and under-estimates the distance"
                                  % (tag, ", ".join(re_name(b) for b in bad_c), ", ".join("%s %s 0" % (re_name(a), ">=" if s_ == "+" else "<=") for a, s_ in facts.items()) or "no sign condition"))
            region_test(rep, prog, fn, ev, r, tag, comps, p, a, bb, c, keys)
            distance_form(rep, prog, fn, r, rvalue, tag)
            inv = S.Invariance(ev, lambda n: n.split(".")[0] in {q["name"] for q in fn["params"]})
            bad = None
            if not inv.scalar_weight0(d2):
                bad = "squared distance: " + inv.reason
            else:
                for x in comps:
                    if not inv.scalar_weight0(x):
                        bad = "barycentric component: " + inv.reason
                        break
            if bad is None:
                rep.ok("C05.translation", prog, fn, r, "%s: distance and components have translation weight 0" % tag)
            else:
                rep.violation("C05.translation", prog, fn, r, "%s not translation invariant" % tag,
                              "%s changes when point and triangle are translated together: %s" % (tag, bad))
        except S.Decline as e:
            raise AnalysisBroken("%s: %s of the kernel cannot be normalised: %s" % (prog.loc(fn, r), tag, e))
