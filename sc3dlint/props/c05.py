"""C05 - point-to-triangle kernel: algebraic clauses decided on the expression of every return."""
import sympy as sp

from ..model import walk, strip, short, AnalysisBroken
from .. import sym as S

EXPLANATION = ("LF engine (E3): for each return statement of contact_model_abstract::compute_node_triangle_distance the returned "
               "pair is brought to a polynomial/rational normal form over the coordinates of p,a,b,c by def-use expansion of the "
               "dominating const locals and by opening vec3's operators from their own AST. Decided for all operand values: (1) the "
               "three barycentric components sum to 1; (2) the returned scalar is |p - (b0*a + b1*b + b2*c)|^2 for the returned "
               "components; (3) scalar and components are unchanged when p,a,b,c are translated by a common vector (compositional "
               "weight typing). Identities are proved by normal form and refuted by an exact non-zero value at a rational point. "
               "Not decided: that the region tests select the closest point, non-negativity of the coordinates, rotation, rounding.")
ASSUMPTIONS = ["branch conditions are never interpreted: each return is analysed under no assumption on which region is taken",
               "vec3 semantics come from vec3's own member functions as parsed (opened), not from a model"]


def declare(rep):
    rep.rule("C05.bary-sum", "the returned barycentric components sum to 1 (identity)", floor=7)
    rep.rule("C05.distance-consistent", "the returned squared distance equals |p - (b0*a+b1*b+b2*c)|^2 for the returned components (identity)", floor=7)
    rep.rule("C05.translation", "returned distance and components are invariant under a common translation of p,a,b,c", floor=7)


def run(rep, prog, tier):
    if not rep.rules:
        declare(rep)
    fn = prog.fn("contact_model_abstract::compute_node_triangle_distance")
    rets = [n for n in walk(fn["body"]) if n.get("k") == "ReturnStmt" and isinstance(n.get("value"), dict)]
    if len(fn["params"]) != 4:
        raise AnalysisBroken("kernel signature changed")
    for i, r in enumerate(rets):
        tag = "return #%d" % (i + 1)
        try:
            ev = S.SymEval(prog, fn, lazy_scalars=True)
            v = ev.ev(r["value"])
            if not (isinstance(v, S.Tup) and len(v.items) == 2 and isinstance(v.items[1], (S.Rec, S.Lazy))):
                raise S.Decline("return value is not a (scalar, vec3) pair")
            d2, b = v.items[0], ev.record_of(v.items[1])
            comps = list(b.f.values())
            p, a, bb, c = [ev.record_of(ev.local({"did": q["did"], "name": q["name"]}, {"t": q["t"]})) for q in fn["params"]]
            keys = list(a.f.keys())
            if ev.prove_zero(sum(comps) - 1):
                rep.ok("C05.bary-sum", prog, fn, r, "%s: components (%s) sum to 1" % (tag, ", ".join(str(x).replace("#" + str(0), "") for x in comps)))
            else:
                rep.violation("C05.bary-sum", prog, fn, r, "%s barycentric sum != 1" % tag,
                              "%s returns barycentric components (%s) that do not sum to one (%s)" % (tag, ", ".join(map(str, comps)), getattr(ev, "last_witness", "")))
            cp = [comps[0] * a.f[k] + comps[1] * bb.f[k] + comps[2] * c.f[k] for k in keys]
            ref = sum((p.f[k] - cp[j]) ** 2 for j, k in enumerate(keys))
            if ev.prove_zero(d2 - ref):
                rep.ok("C05.distance-consistent", prog, fn, r, "%s: returned scalar == |p - closest point|^2" % tag)
            else:
                rep.violation("C05.distance-consistent", prog, fn, r, "%s distance != distance to the designated point" % tag,
                              "%s: the returned squared distance %s is not the squared distance from p to the point designated by the returned barycentric coordinates (%s)"
                              % (tag, short(strip(r["value"]).get("c", [r["value"]])[0], 60), getattr(ev, "last_witness", "")))
            inv = S.Invariance(ev, lambda n: n.split(".")[0] in {q["name"] for q in fn["params"]})
            bad = None
            if not inv.scalar_weight0(d2):
                bad = "squared distance: " + inv.reason
            else:
                for x in comps:
                    if not inv.scalar_weight0(x):
                        bad = "barycentric component: " + inv.reason
                        break
            if bad is None:
                rep.ok("C05.translation", prog, fn, r, "%s: distance and components have translation weight 0" % tag)
            else:
                rep.violation("C05.translation", prog, fn, r, "%s not translation invariant" % tag,
                              "%s changes when point and triangle are translated together: %s" % (tag, bad))
        except S.Decline as e:
            raise AnalysisBroken("%s: %s of the kernel cannot be normalised: %s" % (prog.loc(fn, r), tag, e))
