"""C09 - cell division: two valid daughters or untouched mother (structural clauses)."""
import re

from .. import e1, e2
from .. import effects as F
from ..model import walk, strip, is_call, call_obj, call_args, render, short, always_exits, AnalysisBroken
from .c10 import product_fns, shared_resize
from .c17 import noexcept_escape

EXPLANATION = ("Exception, effect and flow rules over clang's resolved AST: (1) cell_divider::divide_cell's whole body is one try "
               "statement whose handlers catch every exception type its callee closure may throw (may-throw summaries), and no "
               "noexcept function on its cone lets an exception escape; (2) the may-write effects of divide_cell on the mother handle "
               "are a subset of cell::rebase's own effects (the mother is otherwise only read); (3) create_daughter_cells returns each "
               "daughter only after initialize_cell_properties(true); (4) each daughter's target volume is mother.target_volume_/2; "
               "(5) every concrete cell class overrides get_cell_same_type and constructs its own class; (6) in cell_divider::run a "
               "success appends exactly two cells, records one index for removal, takes both ids from the post-incremented shared "
               "counter inside the critical section, removes the mothers and renumbers the list afterwards, and the shared list is "
               "not resized while other threads read it. Geometric clauses (volumes, sides of the plane) are not decided.")
ASSUMPTIONS = ["virtual calls by CHA", "syntactic object identity in effect summaries"]


def declare(rep):
    rep.rule("C09.try-covers", "divide_cell: the body is a single try whose handlers catch everything its callees may throw", floor=1)
    rep.rule("C09.noexcept-escape", "no noexcept function on divide_cell's cone lets a callee's exception escape", floor=40)
    rep.rule("C09.mother-untouched", "divide_cell writes to the mother only what cell::rebase writes", floor=1)
    rep.rule("C09.daughter-validated", "each daughter is returned only after initialize_cell_properties(true)", floor=2)
    rep.rule("C09.half-target-volume", "each daughter's target_volume_ is the mother's target_volume_ / 2", floor=2)
    rep.rule("C09.stale-threshold", "in the divider no size of the mother's node/face list is kept across a call that may compact the list (rebase): the 'ids >= threshold are interface points' convention relies on it", floor=1)
    rep.rule("C09.rotation-shortcut", "the interface points are flattened with the identity instead of the quaternion rotation only when the division normal is exactly the z axis: under any tolerance the contour shared with the lateral faces is projected onto a plane that is not the division plane", floor=1)
    rep.rule("C09.plane-origin", "the origin of the cut plane and the origin used to sort the faces between the daughters are the mother's centroid computed from her current node positions (compute_centroid(), or the cached centroid_ only after update_centroid() in divide_cell): the cache is refreshed by the mesh refiner only and is stale whenever nodes have moved since", floor=2)
    rep.rule("C09.same-type", "every concrete cell class overrides get_cell_same_type and constructs its own class", floor=5)
    rep.rule("C09.population-update", "cell_divider::run: success appends two cells + records one removal under critical, ids from the shared post-incremented counter, removal + renumbering after the loop, no unsynchronised access to the list being resized", floor=5)


def run(rep, prog, tier):
    if not rep.rules:
        declare(rep)
    stale_threshold(rep, prog)
    rotation_shortcut(rep, prog)
    plane_origin(rep, prog)
    X = e2.Exceptions(prog, with_optional_value=True)
    fn = prog.fn("cell_divider::divide_cell")
    # (1)
    body = fn["body"]
    stmts = body.get("c", [])
    if len(stmts) == 1 and stmts[0].get("k") == "CXXTryStmt":
        all_ok = all(X.derives_from_std_exception(t) for f in X.throws.values() for t in f if t != e2.ANY)
        old = X.handler_catches
        if all_ok:
            X.handler_catches = lambda h, t: True if (t == e2.ANY and h in ("std::exception", "...")) else old(h, t)
        try:
            esc = X.escapes(fn, body)
        finally:
            X.handler_catches = old
        esc.pop("<rethrow>", None)
        if esc:
            for t, site in sorted(esc.items()):
                rep.violation("C09.try-covers", prog, fn, stmts[0], "%s not caught by divide_cell" % t,
                              "divide_cell is noexcept but its handlers (%s) do not catch %s thrown at %s: a failed division terminates the simulation instead of leaving the mother in place"
                              % (", ".join(h["type"] for h in stmts[0]["handlers"]), t, site))
        else:
            rep.ok("C09.try-covers", prog, fn, stmts[0], "single try block; handlers (%s) catch all %d exception types the callee closure may throw" % (", ".join(h["type"] for h in stmts[0]["handlers"]), len({t for f in X.throws.values() for t in f})))
        for h in stmts[0]["handlers"]:
            rets = [n for n in walk(h["body"]) if n.get("k") == "ReturnStmt"]
            if not rets or any(x.get("k") == "CXXThrowExpr" for x in walk(h["body"])):
                rep.violation("C09.try-covers", prog, fn, h, "handler does not return nullopt", "the handler of divide_cell must convert the failure into 'no division' (return std::nullopt)")
    else:
        rep.violation("C09.try-covers", prog, fn, body, "body is not a single try", "divide_cell (noexcept) has statements outside its try block: an exception thrown there terminates the program")
    X2 = e2.Exceptions(prog)
    noexcept_escape(rep, prog, X2, ["cell_divider::divide_cell"], "C09.noexcept-escape")
    # (2)
    E = F.Effects(prog)
    rebase = prog.fn("cell::rebase")
    allowed = {(p) for (r, p, s, g) in E.writes[rebase["key"]] if r == "this"}
    mother = {(p) for (r, p, s, g) in E.writes[fn["key"]] if r == ("param", 0)}
    extra = sorted(mother - allowed)
    if extra:
        rep.violation("C09.mother-untouched", prog, fn, None, "mother written: %s" % ",".join(x[-1].split("::")[-1] if x else "*" for x in extra[:4]),
                      "divide_cell may modify the mother cell beyond compaction (cell::rebase): %s; a failed division would leave the mother changed"
                      % ", ".join(F.fmt_effect((("param", 0), x, None)) for x in extra[:8]))
    else:
        rep.ok("C09.mother-untouched", prog, fn, None, "%d may-write effects on the mother handle, all within cell::rebase's %d effects" % (len(mother), len(allowed)))
    # (3)
    cd = prog.fn("cell_divider::create_daughter_cells")
    fi = prog.index(cd)
    cfg = fi.cfg()
    rets = [n for n in walk(cd["body"], into_lambdas=False) if n.get("k") == "ReturnStmt" and isinstance(n.get("value"), dict)]
    if len(rets) != 1:
        raise AnalysisBroken("create_daughter_cells: expected one return")
    rvars = [x for x in walk(rets[0]["value"]) if x.get("k") == "DeclRefExpr" and x["ref"].get("dk") == "Var" and x.get("t", "").replace("const ", "") == "std::shared_ptr<cell>"]
    dids = []
    for x in rvars:
        if x["ref"]["did"] not in dids:
            dids.append(x["ref"]["did"])
    if len(dids) != 2:
        raise AnalysisBroken("create_daughter_cells: return does not name two cell handles")
    from .c13 import _is_validate_call
    for did in dids:
        vunits = set()
        name = None
        for n in walk(cd["body"], into_lambdas=False):
            if _is_validate_call(n):
                o = e1.peel_handle(call_obj(n))
                if o.get("k") == "DeclRefExpr" and o["ref"]["did"] == did:
                    vunits.add(cfg.unit_of.get(id(n)))
                    name = o["ref"]["name"]
        ru = cfg.unit_of.get(id(rets[0]))
        seen, stack, reach = set(), [cfg.entry], False
        while stack:
            u = stack.pop()
            if u in seen or u in vunits:
                continue
            seen.add(u)
            if u == ru:
                reach = True
                break
            stack.extend(cfg.succ[u])
        if vunits and not reach:
            rep.ok("C09.daughter-validated", prog, cd, rets[0], "'%s' passes initialize_cell_properties(true) on every path to the return" % name)
        else:
            rep.violation("C09.daughter-validated", prog, cd, rets[0], "daughter returned unvalidated",
                          "create_daughter_cells can return a daughter that has not passed cell::initialize_cell_properties(check_cell_integrity=true): an open or inside-out daughter would enter the population")
    # (4)
    n_half = 0
    for n in walk(fn["body"]):
        if n.get("k") == "BinaryOperator" and n.get("op") == "=":
            lhs, rhs = strip(n["c"][0]), strip(n["c"][1])
            if lhs.get("k") == "MemberExpr" and lhs["ref"].get("qn") == "cell::target_volume_":
                ok = False
                from ..model import expand as _exp
                rhs = strip(_exp(fn, n["c"][1]))
                while rhs.get("k") == "ParenExpr" and rhs.get("c"):
                    rhs = strip(rhs["c"][0])
                if rhs.get("k") == "BinaryOperator" and rhs.get("op") == "/":
                    num, den = strip(rhs["c"][0]), strip(rhs["c"][1])
                    if num.get("k") == "MemberExpr" and num["ref"].get("qn") == "cell::target_volume_":
                        h = e1.peel_handle(num["c"][0])
                        if h.get("k") == "DeclRefExpr" and h["ref"]["did"] == fn["params"][0]["did"] and den.get("k") in ("IntegerLiteral", "FloatingLiteral") and float(den["v"]) == 2.0:
                            ok = True
                # how many daughters this assignment reaches: one, or - inside a range-for over a local array / vector built from
                # both daughters - every element of that container
                fi_ = prog.index(fn)
                loop = fi_.enclosing(n, ("CXXForRangeStmt",))
                reach = 1
                recv = e1.peel_handle(lhs["c"][0]) if lhs.get("c") else {}
                if loop is not None and recv.get("k") == "DeclRefExpr" and recv["ref"].get("did") == loop["var"].get("did"):
                    rng = strip(loop["range"])
                    if rng.get("k") == "DeclRefExpr":
                        for v_ in walk(fn["body"]):
                            if v_.get("k") == "Var" and v_.get("did") == rng["ref"]["did"] and isinstance(v_.get("init"), dict):
                                il = [x for x in walk(v_["init"]) if x.get("k") == "InitListExpr"]
                                if il:
                                    inner = il[-1]
                                    reach = len([c_ for c_ in inner.get("c", []) if isinstance(c_, dict)])
                n_half += reach
                if ok:
                    rep.ok("C09.half-target-volume", prog, fn, n, "%s" % short(n, 80))
                    for extra_ in range(reach - 1):
                        rep.ok("C09.half-target-volume", prog, fn, n, "%s (element %d of the daughters' container)" % (short(n, 70), extra_ + 2))
                else:
                    rep.violation("C09.half-target-volume", prog, fn, n, "daughter target volume is not mother/2", "%s: each daughter must inherit half of the mother's target volume" % short(n, 90))
    if n_half != 2:
        rep.violation("C09.half-target-volume", prog, fn, None, "%d target volume assignments" % n_half, "divide_cell assigns target_volume_ %d times, expected once per daughter" % n_half)
    # (5)
    base_key = [f for f in prog.fns("cell::get_cell_same_type")][0]["key"]
    for d in sorted(prog.derived("cell")):
        rec = prog.records[d]
        if rec.get("abstract"):
            continue
        ov = [f for f in prog.by_qn.get(d + "::get_cell_same_type", [])]
        if not ov or base_key not in ov[0].get("overrides", []):
            rep.violation("C09.same-type", prog, None, None, "%s does not override get_cell_same_type" % d, "class %s inherits cell::get_cell_same_type, which throws: its division always fails (or yields a base-class cell)" % d)
            continue
        f = ov[0]
        made = [x for x in walk(f["body"]) if x.get("k") == "CallExpr" and x.get("callee") == "std::make_shared"]
        types = {re.sub(r"^std::shared_ptr<(.*)>$", r"\1", x.get("t", "")) for x in made}
        if types == {d}:
            rep.ok("C09.same-type", prog, f, made[0], "%s::get_cell_same_type constructs a %s" % (d, d))
        else:
            rep.violation("C09.same-type", prog, f, None, "%s constructs %s" % (d, ",".join(sorted(types)) or "nothing"), "%s::get_cell_same_type constructs %s instead of its own class: daughters change type" % (d, sorted(types)))
    population_update(rep, prog)


def population_update(rep, prog):
    fn = prog.fn("cell_divider::run")
    fi = prog.index(fn)
    lst = fn["params"][0]["did"]
    counter = fn["params"][3]["did"]
    crit = [n for n in walk(fn["body"]) if n.get("omp") == "critical"]
    if len(crit) != 1:
        raise AnalysisBroken("cell_divider::run: expected one critical section")
    c = crit[0]
    pushes = [n for n in walk(c["body"]) if n.get("k") == "CXXMemberCallExpr" and n.get("callee", "").split("::")[-1] == "push_back"]
    cell_pushes = [n for n in pushes if "shared_ptr<cell>" in n.get("callee", "")]
    idx_pushes = [n for n in pushes if n not in cell_pushes]
    # daughters may be collected in a local list and appended after the loop: count what is pushed, and where
    dest = {e1.handle_key(call_obj(n)) for n in cell_pushes}
    if len(cell_pushes) == 2 and len(dest) == 1 and len(idx_pushes) == 1:
        rep.ok("C09.population-update", prog, fn, c, "success branch: two daughters appended to %s and one index recorded, under critical" % dest.pop().split("#")[0])
    else:
        rep.violation("C09.population-update", prog, fn, c, "wrong number of appends", "the success branch appends %d cells and records %d indices (expected 2 and 1): a cell is lost or duplicated" % (len(cell_pushes), len(idx_pushes)))
    # the mother is recorded for removal exactly when her two daughters are added: same facts at the three pushes
    if len(cell_pushes) == 2 and len(idx_pushes) == 1:
        from ..model import facts_at
        canon = lambda t_: t_.replace(" ", "").replace(".operatorbool()", ".has_value()").replace("(bool)", "")
        fset = lambda n_: {(canon(render(a_)), t_) for a_, t_ in facts_at(fn, fi, n_)}
        fi_, fd = fset(idx_pushes[0]), [fset(x) for x in cell_pushes]
        if all(fi_ == d_ for d_ in fd):
            rep.ok("C09.population-update", prog, fn, idx_pushes[0], "the mother's index is recorded under the same conditions as the two daughters are appended (%s)" % ", ".join(sorted(("" if t_ else "!") + a_[:40] for a_, t_ in fi_)))
        else:
            diff = sorted(set().union(*fd) ^ fi_)
            rep.violation("C09.population-update", prog, fn, idx_pushes[0], "mother removed under other conditions than the daughters are added",
                          "cell_divider::run records the mother for removal and appends the daughters under different conditions (differing in %s): when they disagree a mother whose division failed is erased without daughters (the cell vanishes), or daughters are added while the mother stays" % ", ".join(("" if t_ else "not ") + "'" + a_[:60] + "'" for a_, t_ in diff[:2]))
    # ids
    ids = []
    for n in walk(fn["body"]):
        if n.get("k") == "BinaryOperator" and n.get("op") == "=":
            lhs, rhs = strip(n["c"][0]), strip(n["c"][1])
            if lhs.get("k") == "MemberExpr" and lhs["ref"].get("qn") == "cell::cell_id_":
                ok = rhs.get("k") == "UnaryOperator" and rhs.get("op") == "++" and rhs.get("postfix") and strip(rhs["c"][0]).get("k") == "DeclRefExpr" and strip(rhs["c"][0])["ref"]["did"] == counter
                inside = any(p is c for p, s, ch in fi.ancestors(n))
                ids.append(n)
                if ok and inside:
                    rep.ok("C09.population-update", prog, fn, n, "%s inside the critical section" % short(n, 60))
                else:
                    rep.violation("C09.population-update", prog, fn, n, "daughter id not from the shared counter under critical", "%s: a daughter id must be the post-incremented shared counter, taken inside the critical section (otherwise duplicate ids)" % short(n, 80))
    if len(ids) != 2:
        rep.violation("C09.population-update", prog, fn, None, "%d id assignments" % len(ids), "expected one fresh id per daughter, found %d assignments to cell_id_" % len(ids))
    # other writes of the counter
    for n in walk(fn["body"]):
        if n.get("k") in ("UnaryOperator", "BinaryOperator", "CompoundAssignOperator") and n.get("op") in ("--", "=", "-=", "+=", "++"):
            t = strip(n["c"][0])
            if t.get("k") == "DeclRefExpr" and t["ref"]["did"] == counter and not (n.get("op") == "++" and any(p is c for p, s, ch in fi.ancestors(n))):
                rep.violation("C09.population-update", prog, fn, n, "counter modified outside the id assignments", "%s modifies the id counter other than by the two post-increments under critical" % short(n, 60))
    # removal + renumbering after the parallel loop
    region = [n for n in walk(fn["body"]) if "omp" in n and "parallel" in n["omp"]]
    if len(region) != 1:
        raise AnalysisBroken("cell_divider::run: expected one parallel region")
    cfg = fi.cfg()
    rm = [n for n in walk(fn["body"]) if n.get("k") == "CallExpr" and n.get("callee") == "remove_index" and e1.handle_key(call_args(n)[0]).startswith(fn["params"][0]["name"] + "#")]
    renum = []
    for n in walk(fn["body"]):
        if n.get("k") == "ForStmt" and not any(p is region[0] for p, s, ch in fi.ancestors(n)) and n is not region[0].get("body"):
            calls = [x for x in walk(n["body"]) if x.get("k") == "CXXMemberCallExpr" and x.get("callee") == "cell::set_local_id"]
            for x in calls:
                o = strip(call_obj(x))
                a = strip(call_args(x)[0])
                # cell_lst[i]->set_local_id(i)
                h = e1.peel_handle(o)
                if h.get("k") == "CXXOperatorCallExpr" and h.get("op") == "[]":
                    base, idx = strip(h["c"][1]), strip(h["c"][2])
                    if base.get("k") == "DeclRefExpr" and base["ref"]["did"] == lst and idx.get("k") == "DeclRefExpr" and a.get("k") == "DeclRefExpr" and a["ref"]["did"] == idx["ref"]["did"]:
                        renum.append(n)
    if rm and renum and cfg.may_follow(rm[0], renum[0]["body"]) is not False and _after(fi, region[0], rm[0]) and _same_block(fi, rm[0], renum[0]):
        rep.ok("C09.population-update", prog, fn, rm[0], "after the parallel loop: remove_index(list, mothers) followed by 'list[i]->set_local_id(i)' for all i in the same block")
    else:
        rep.violation("C09.population-update", prog, fn, rm[0] if rm else None, "no renumbering after removal", "after the divisions the mothers must be removed from the list and every cell renumbered (list[i]->set_local_id(i)); found remove_index=%d renumber loops=%d" % (len(rm), len(renum)))
    # all appended daughters must end in the list: if collected in a local vector it must be appended after the loop
    for d in {e1.handle_key(call_obj(n)) for n in cell_pushes}:
        if not d.startswith(fn["params"][0]["name"] + "#"):
            ins = [n for n in walk(fn["body"]) if n.get("k") == "CXXMemberCallExpr" and n.get("callee", "").split("::")[-1] in ("insert", "push_back") and e1.handle_key(call_obj(n)).startswith(fn["params"][0]["name"] + "#") and d.split("#")[0] in render(n)]
            if ins and _after(fi, region[0], ins[0]):
                rep.ok("C09.population-update", prog, fn, ins[0], "daughters collected in '%s' are appended to the list after the parallel loop" % d.split("#")[0])
            else:
                rep.violation("C09.population-update", prog, fn, None, "collected daughters never appended", "daughters are pushed into '%s' but that container is never appended to the population after the loop" % d.split("#")[0])
    from .c10 import run_remove_index
    run_remove_index(rep, prog, rule="C09.population-update", only={"cell_divider::run"})
    S = e1.Summaries(prog)
    regs, sr = shared_resize(S, prog, fn)
    if sr:
        x = sr[0]
        callee = x["resize"].get("callee", "?")
        rep.violation("C09.population-update", prog, fn, x["access"], "%s resized by %s in parallel region ; access outside critical" % (x["container"], callee.split("<")[0] + "::" + callee.split("::")[-1]),
                      "'%s' is resized (line %s) inside the parallel loop while other threads index it outside the critical section (line(s) %s)" % (x["container"], x["resize"].get("l"), ",".join(sorted({str(y["access"].get("l")) for y in sr}))))
    else:
        rep.ok("C09.population-update", prog, fn, region[0], "the population list is not resized while other threads read it")


def _after(fi, region, n):
    return fi.order[id(n)] > max(fi.order[id(x)] for x in walk(region))


def _same_block(fi, a, b):
    """b is in the same (or an enclosing) statement list as a, later."""
    pa = [p for p, s, c in fi.ancestors(a)]
    pb = fi.parent.get(id(b), (None, None))[0]
    return pb in pa and fi.order[id(b)] > fi.order[id(a)]


def stale_threshold(rep, prog):
    from .. import lints
    n = 0
    for fn in prog.repo_functions():
        if fn.get("cls") != "cell_divider" or not isinstance(fn.get("body"), dict):
            continue
        found = list(lints.stale_size_after_compaction(prog, fn))
        sized = [v for v in prog.index(fn).nodes if v.get("k") == "Var" and isinstance(v.get("init"), dict) and lints.SIZE_OF_MESH.search(render(v["init"]).replace(" ", ""))]
        for v, c, u in found:
            rep.violation("C09.stale-threshold", prog, fn, v, "%s is stale after %s" % (v["name"], c.get("callee", "?").split("::")[-1]),
                          "%s: '%s' is the size of the mother's list taken at line %s, but %s (line %s) may compact that list (cell::rebase) before the value is used again at line %s: ids >= the threshold no longer designate the interface points (out-of-range reads, wrong faces divided)" % (fn["qn"], v["name"], v.get("l"), c.get("callee"), c.get("l"), u.get("l")))
        bad = {id(v) for v, _, _ in found}
        for v in sized:
            if id(v) not in bad:
                n += 1
                rep.ok("C09.stale-threshold", prog, fn, v, "%s = %s is not used after any call that may compact the list" % (v["name"], short(v["init"], 50)))


def _num(e):
    e = strip(e)
    if e.get("k") in ("FloatingLiteral", "IntegerLiteral"):
        try:
            return float(e.get("v"))
        except (TypeError, ValueError):
            return None
    if e.get("k") == "UnaryOperator" and e.get("op") == "-":
        v = _num(e["c"][0])
        return -v if v is not None else None
    return None


def _exact_alignment(cond, positive):
    """does `cond` (taken as it stands when positive, negated otherwise) imply that the tested quantity equals 1 up to rounding?"""
    c = strip(cond)
    if c.get("k") == "UnaryOperator" and c.get("op") == "!":
        return _exact_alignment(c["c"][0], not positive)
    if c.get("k") == "BinaryOperator" and c.get("op") in ("==", "!=", ">=", ">", "<", "<="):
        op = c["op"]
        l, r = c["c"][0], c["c"][1]
        lit, side = (_num(r), "r") if _num(r) is not None else ((_num(l), "l") if _num(l) is not None else (None, None))
        if lit is None:
            return False
        if not positive:
            op = {"==": "!=", "!=": "==", ">=": "<", ">": "<=", "<": ">=", "<=": ">"}[op]
        if side == "l":
            op = {"==": "==", "!=": "!=", ">=": "<=", ">": "<", "<": ">", "<=": ">="}[op]
        # now: quantity op lit
        other = strip(l if side == "r" else r)
        if any(x.get("k") == "CallExpr" and x.get("callee") in ("std::abs", "std::fabs", "abs", "fabs") for x in walk(other)) and lit < 1.0:
            return False
        return (op == "==" and lit == 1.0) or (op in (">=", ">") and lit >= 1.0 - 1e-12)
    if c.get("k") == "CallExpr" and c.get("callee") == "almost_equal" and positive:
        a = call_args(c)
        return len(a) >= 2 and (_num(a[0]) == 1.0 or _num(a[1]) == 1.0)
    return False


def rotation_shortcut(rep, prog):
    rule = "C09.rotation-shortcut"
    fn = prog.fn("cell_divider::map_points_to_xy_plane")
    fi = prog.index(fn)
    n_id = 0
    for n in walk(fn["body"]):
        if n.get("k") in ("CXXOperatorCallExpr", "BinaryOperator") and n.get("op") == "=" and any(x.get("k") == "CallExpr" and x.get("callee") == "mat33::identity" for x in walk(n)):
            n_id += 1
            guard = None
            for p, slot, ch in fi.ancestors(n):
                if p.get("k") == "IfStmt" and slot in ("then", "else"):
                    guard = (p, slot)
                    break
            if guard is None:
                rep.violation(rule, prog, fn, n, "identity rotation not guarded", "%s assigns the identity as the rotation to the xy plane unconditionally" % short(n, 60))
                continue
            ifs, slot = guard
            if _exact_alignment(ifs["cond"], slot == "then"):
                rep.ok(rule, prog, fn, n, "identity used only under '%s%s' (exact alignment with the z axis)" % ("" if slot == "then" else "not ", short(ifs["cond"], 70)))
            else:
                rep.violation(rule, prog, fn, n, "identity rotation used for normals that are not the z axis",
                              "%s is selected by '%s%s', which also holds for division normals that are merely close to (or opposite to) the z axis: the interface points are then not rotated, "
                              "their z coordinate is overwritten with 0 and map_points_to_division_plane maps them back with the identity - the contour shared by the two daughters is flattened onto a "
                              "horizontal plane instead of the division plane (nodes on the wrong side of the plane through the mother's centroid by up to r*tan(tilt))" % (short(n, 50), "" if slot == "then" else "not ", short(ifs["cond"], 80)))
    if n_id == 0:
        # no shortcut at all: the quaternion branch is taken for every normal - nothing to decide
        rep.ok(rule, prog, fn, None, "no identity shortcut: the rotation is always built from the division normal")


ORIGIN_ARG = {"cell_divider::add_intersection_points": 1, "cell_divider::create_daughter_cells": 5}


def plane_origin(rep, prog):
    """'a plane through the mother's centroid': the origin handed to the two consumers of the plane is the centroid of the mother's
    current geometry."""
    from ..model import expand
    fn = prog.fn("cell_divider::divide_cell")
    mother = fn["params"][0]["did"]
    fi = prog.index(fn)

    def on_mother(call):
        o = call_obj(call)
        o = e1.peel_handle(o) if isinstance(o, dict) else {}
        return o.get("k") == "DeclRefExpr" and o["ref"].get("did") == mother

    refresh = [n for n in walk(fn["body"], into_lambdas=False) if n.get("k") == "CXXMemberCallExpr" and n.get("callee") == "cell::update_centroid" and on_mother(n)]
    seen = 0
    for call in walk(fn["body"], into_lambdas=False):
        if call.get("k") != "CallExpr" or call.get("callee") not in ORIGIN_ARG:
            continue
        args = call_args(call)
        idx = ORIGIN_ARG[call["callee"]]
        if len(args) <= idx:
            raise AnalysisBroken("%s: signature changed" % call["callee"])
        seen += 1
        e = strip(expand(fn, args[idx]))
        while e.get("k") in ("ParenExpr", "MaterializeTemporaryExpr", "CXXBindTemporaryExpr", "CXXConstructExpr") and len([c for c in e.get("c", []) if isinstance(c, dict)]) == 1:
            e = strip([c for c in e["c"] if isinstance(c, dict)][0])
        short_callee = call["callee"].split("::")[-1]
        if e.get("k") == "CXXMemberCallExpr" and e.get("callee") == "cell::compute_centroid" and on_mother(e):
            rep.ok("C09.plane-origin", prog, fn, call, "%s: plane origin = %s" % (short_callee, short(e, 40)))
            continue
        cached = (e.get("k") == "CXXMemberCallExpr" and e.get("callee") == "cell::get_centroid" and on_mother(e)) or \
                 (e.get("k") == "MemberExpr" and (e.get("ref") or {}).get("qn") == "cell::centroid_")
        if cached:
            first = min(refresh, key=lambda r: (r.get("l") or 0)) if refresh else None
            if first is not None and fi.enclosing(first, ("IfStmt", "ForStmt", "WhileStmt", "CXXForRangeStmt", "SwitchStmt", "DoStmt")) is None and (first.get("l") or 0) < (call.get("l") or 0):
                rep.ok("C09.plane-origin", prog, fn, call, "%s: plane origin = cached centroid, refreshed unconditionally by update_centroid() at line %s" % (short_callee, first.get("l")))
            else:
                rep.violation("C09.plane-origin", prog, fn, call, "%s cuts through the cached centroid" % short_callee,
                              "divide_cell hands %s the mother's cached centroid_ (%s) as the plane origin without refreshing it: the cache is written by cell::update_centroid only (called by the mesh refiner), so the plane goes through where the centroid was at the last refinement (or through (0,0,0) for a cell never refined), not through the mother's centroid" % (short_callee, short(e, 40)))
            continue
        raise AnalysisBroken("divide_cell: the plane origin handed to %s (%s) is neither compute_centroid() nor the cached centroid of the mother" % (short_callee, short(e, 60)))
    if seen == 0:
        raise AnalysisBroken("divide_cell: no call to add_intersection_points / create_daughter_cells")
